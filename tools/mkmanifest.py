#!/usr/bin/env python3
"""Regenerates /verif/MANIFEST.json from the table below (kept next to the checks so the
manifest always validates)."""
import json, os, sys

ROOT = os.path.dirname(os.path.dirname(os.path.abspath(__file__)))

# id -> (level, technique, text, note, design_ref)
CHECKS = {
 "C15": ("exploration", "runtime monitor: reference-model oracle (segment-prefix order) over exhaustive small scope + seeded random strings",
         "Every call of Parse/Covers/Segments/Join on an exhaustively enumerated small scope (all commands <=4 segments over a 4-segment alphabet: all pairs, triples of a 90-command subset; all parser strings <=6 runes over a 6-rune alphabet) plus seeded random Unicode is compared with an independent 25-line model; algebraic laws (reflexive, antisymmetric, transitive, top) are asserted on the observed results. Exhaustive inside the stated scope, sampling outside it.",
         "trusts the reference model ref/command.go (self-tested against the repository's TestCovers vectors) and Go's unicode tables", "DESIGN.md §4 C15"),
 "C01": ("exploration", "runtime monitor: reference chain predicate + metamorphic audience-independence oracle over generated deviating proof chains",
         "ExecutionAllowed (and the args-hook variant) is observed on thousands of generated chains (conforming + 0..3 deviations of 14 kinds at first/middle/last positions, n<=8, repeated principals, constructor tokens and sealed->container->reader tokens), each under 5 invocation audiences; every acceptance is checked against an independent 30-line principal predicate and the five audience variants must agree. Sampling of an unbounded space: held on the scenarios observed, with a coverage matrix rule x position x length that must be filled.",
         "trusts chain.PrincipalsOK (from the property text) and real key material from the committed pool; commands/policies/times kept conforming", "DESIGN.md §4 C01"),
 "C02": ("exploration", "runtime monitor: reference command-order oracle over an exhaustive small command lattice along real proof chains",
         "All command assignments from an 8-command lattice (equal/parent/child/sibling/textual-prefix/top) to the invocation and n<=3 (thorough n<=4) links of otherwise conforming real chains are executed, plus random longer chains; an acceptance although some link does not cover the next is a violation. Exhaustive inside the stated scope.",
         "trusts ref.CmdCovers (self-tested against TestCovers) and chain.CommandsOK", "DESIGN.md §4 C02"),
 "C03": ("exploration", "runtime monitor: reference policy evaluator + monotonicity (metamorphic) + hook oracles over generated chains",
         "Policies of all statement kinds are generated over generated arguments in the fragment where every selector resolves, distributed over links in every pattern, 0..3 statements falsified at chosen positions; acceptance requires every statement true by an independent evaluator; denied chains must stay denied when a statement or link is added; with an args hook the verdict must follow the returned arguments in both directions.",
         "trusts ref.Eval / ref.Select (self-tested); principals, commands, times kept conforming", "DESIGN.md §4 C03"),
 "C04": ("exploration", "runtime monitor: window oracle over a bound x probe grid (IsValidAt) and over generated chains with out-of-window tokens at every position",
         "IsValidAt is probed at 13 offsets (down to 1 ns) around every reported bound of tokens built over a full grid of absent/past/future/extreme nbf and exp, constructed and decoded; chains with expired / not-yet-active tokens at the invocation, leaf, middle and root must be denied. Bounds are >=1h from the wall clock so the clock never decides.",
         "window = what the token reports through NotBefore()/Expiration(); instants exactly on a bound not judged", "DESIGN.md §4 C04"),
 "C05": ("exploration", "runtime monitor: completeness oracle - chains conforming by construction (confirmed by the reference predicates) must be allowed",
         "Rule-conforming chains of 1..8 links with every key algorithm, repeated principals, attenuating commands, satisfiable policies of all kinds, comfortable time windows and all settings of the authorization-irrelevant fields (audience x5, metadata plain/encrypted, nonce length, cause, iat, expiry), via map loader and via the four container formats, must be allowed; any error is a violation with the error text as witness.",
         "trusts chain.Conforming; a scenario the library cannot construct/transport is inconclusive here (C07/C17 judge that)", "DESIGN.md §4 C05"),
 "C11": ("exploration", "runtime monitor: reference three-valued evaluator + permutation / monotonicity / concatenation metamorphic oracles over generated policies and data",
         "Match/PartialMatch of constructor-built and IPLD-decoded policies are compared with the classical reading wherever every selector resolves, and checked for operand-order and element-order independence (all orders up to 4), and+operand / all+element monotonicity, Match=>PartialMatch, concatenation, and the missing-required / missing-optional leaf rules, on data that mixes present, missing and optional-missing paths.",
         "trusts ref.Eval; open corners (empty or, NaN, map-valued quantifier targets, differently ordered map literals) are not judged", "DESIGN.md §4 C11"),
 "C12": ("exploration", "runtime monitor: reference selector interpreter + model-free split-compositionality oracle; exhaustive slice table",
         "Generated selectors (all segment kinds, optional or not, boundary indexes/slices) on data of every kind are compared with a 90-line interpreter where the property pins the result, and for every split prefix|suffix the full result must equal the suffix applied to the prefix's value; slice arithmetic is exhaustive for lengths 0..6 x bounds -8..8 on lists, bytes and strings.",
         "trusts ref.Select (Python slice semantics); failing optional slice/iterator and behaviour after 'no value' not judged", "DESIGN.md §4 C12"),
 "C13": ("exploration", "runtime monitor: reference glob (DP) oracle over an exhaustive small scope through Policy.Match",
         "Every pattern of length <=5 (thorough <=6) over {a,b,*,\\} x every string of length <=4 (<=5) is matched through policy.Like + Policy.Match/PartialMatch (constructor and IPLD forms) and compared with an independent tokenise+DP matcher; plus random multi-byte pairs, non-string subjects, and lone-backslash patterns at both entry points. Exhaustive inside the scope.",
         "trusts ref.GlobMatch (self-tested against the in-tree glob table)", "DESIGN.md §4 C13"),
 "C14": ("exploration", "runtime monitor: print/re-parse stability + independent recursive-descent parser oracle; IPLD/DAG-JSON policy round trips incl. structure mutants",
         "Every accepted selector text (exhaustive over a 9-character alphabet to length 5/6, rendered ASTs, character mutants, all prefixes/suffixes) must print to a text that re-parses to the same segments and the same Select results, mean what an independent parser says, and never be accepted with a malformed part dropped; policies must survive FromIPLD/ToIPLD and FromDagJson deep-equal (mod selector normalisation), also after structure mutation, and constructor-built policies keep their matching behaviour.",
         "trusts ref.ParseSel; texts with backslash / quotes inside quoted names only checked for stability", "DESIGN.md §4 C14"),
 "C06": ("fault_enumeration", "runtime monitor: fault enumeration over sealed bytes (every bit flip, byte edits at every offset, field/signature/header/shape rewrites) with independent-verifier and field-equality oracles",
         "Every single-bit flip and byte edit of sealed tokens (both types, several key algorithms and payload shapes), field-level rewrites with the old signature, signature transplants / truncations, header swaps (plain and re-signed), envelope shape edits and DAG-JSON text edits are offered to every decoder (generic/typed, bytes/reader). Any accepted mutant must (O1) equal the original token on every field, (O2) pass an independent envelope verifier written in the harness, (O3) show accessors equal to the decoded signed payload. The fault space of each base token is enumerated completely (sampled 1-in-4/16 for the slow algorithms in the quick tier).",
         "trusts libp2p/Go signature primitives and ref.VerifyEnvelope; ECDSA s-malleability is judged by C08", "DESIGN.md §4 C06"),
 "C07": ("exploration", "runtime monitor: round-trip (metamorphic) oracle over generated token descriptions x key algorithms x codecs x decoder variants",
         "Generated tokens of both types (all option combinations, nested values of every kind, all seven key kinds, extreme time bounds, integral floats, null values) are built with the constructors, sealed / encoded and decoded by every generic and typed decoder (bytes and reader, DAG-CBOR and DAG-JSON); every field read back through the accessors must equal the constructed token and all decoders must agree.",
         "field comparison through accessors only; inputs restricted to what DAG-JSON can represent (valid UTF-8, no {\"/\":..} maps)", "DESIGN.md §4 C07"),
 "C08": ("fault_enumeration", "runtime monitor: CID agreement oracle + complete enumeration of single-knob CBOR re-encodings and keyless signature re-encodings that must all be rejected",
         "The CID returned by every seal/unseal API and used as container key is compared with sha2-256/dag-cbor computed by the harness; then every data-preserving re-encoding of each sealed token (each node x each encoding knob, all-knobs, unsigned extra envelope elements, ECDSA s-flip / DER variants) that the dependency decoder maps to the same data is offered to every FromSealed* and container reader and must be rejected.",
         "trusts the harness CBOR item model (ref/cbor.go) and sha256; variants the dependency decoder does not map to the same data are discarded", "DESIGN.md §4 C08"),
 "C09": ("exploration", "runtime monitor: process-level supervision (recover, journal-before-call + dead-child attribution, CPU-time and peak-RSS budgets, race-build/checkptr replay) over hostile input families",
         "Random, mutated, well-signed-but-malformed, bad-key-material, hostile-length and depth-bomb inputs are offered to every untrusted-data entry point under monitors for panics, fatal runtime errors (child process death attributed through a journal), CPU-time budgets and peak memory; depth bombs run one series per process. Sampling of an unbounded space with a fixed list of extreme inputs.",
         "termination and memory clauses restated as stated budgets (60 s / 300 s CPU, 512 MiB + 4096 x input)", "DESIGN.md §4 C09"),
 "C10": ("exploration", "runtime monitor: complete field x mutation x decoder matrix on correctly re-signed payloads with a must-reject list and a well-formedness predicate; Go-value exactness oracle",
         "Every field of full delegation/invocation payloads is dropped, renamed, nulled, retyped to each other kind and set out of range, the envelope shape and tag are varied, and each variant - signed correctly by the issuer with an independent envelope builder - is offered to the generic and both typed decoders in both codecs; must-reject classes may not be accepted and every accepted token must satisfy W through its accessors. Constructors are fuzzed on principals/nonces; args.Add / literal.Any / meta.Add are checked for exact storage of every numeric Go type at its boundaries (nested, pointers, typed nils).",
         "must-reject list and W are from the property text; metadata integers are not bounded", "DESIGN.md §4 C10"),
 "C16": ("exploration", "runtime monitor: round-trip and one-principal-one-DID (canonicity) oracles over pool + fresh keys and ~40 alternative encodings per key",
         "For keys of every generatable algorithm: FromPubKey -> String -> Parse -> PubKey round trip, DID equality vs key equality on all pairs, and every alternative encoding of the key material (uncompressed/hybrid/off-curve/padded/truncated points, PKIX and non-minimal DER for RSA, non-minimal varints, other multibases, textual variants) must be rejected or be the canonical identifier of the extracted key; PubKey() panics are caught.",
         "key equality is libp2p PubKey.Equals; alternative encodings built by the harness from coordinates / DER", "DESIGN.md §4 C16"),
 "C17": ("exploration", "runtime monitor: full writer x reader matrix round-trip oracle + single-entry corruption injection with harness-built CAR/CBOR framing",
         "For token sets of size 0..40 all 16 writer/reader combinations of the four formats must return exactly the set under harness-computed CIDs with tokens equal to direct decodes; containers assembled by the harness's own CAR/CBOR encoders with one corrupted, unverifiable, truncated or mislabelled entry (and framing faults) must fail to read.",
         "CID by ref.CID; CAR blocks under a different but matching codec/hash are not judged", "DESIGN.md §4 C17"),
 "C18": ("fault_enumeration", "runtime monitor: I/O fault enumeration - read error / early EOF at every byte offset, write error at every Write call - plus chunking agreement",
         "For sealed tokens, DAG-JSON tokens and the four container formats: every chunking must agree with the in-memory decode; a read error ((0,err) and (n>0,err)) or early EOF injected at EVERY byte offset must surface as an error (except a CAR cut on a section boundary, which must yield exactly the preceding blocks); for every writer API a write error injected at EVERY Write call, including the final flush, must surface; stream bytes and CIDs must equal the buffered calls.",
         "CAR boundaries from ref.SplitCAR; write faults are (0, err)", "DESIGN.md §4 C18"),
 "C19": ("fault_enumeration", "runtime monitor: exhaustive ciphertext tampering (every bit, every truncation) + round-trip, freshness and key-validation oracles",
         "Encrypted metadata of many plaintext lengths is read back with the right key before and after seal/unseal in both codecs; every single-bit flip and every truncation of the stored ciphertext, and a second random key, must fail; plaintext must be absent from stored/sealed bytes; nonces pairwise distinct; nil, every wrong length 0..64 and all-zero keys refused on add and get.",
         "confidentiality restated as its observable consequences; no cryptanalytic claim", "DESIGN.md §4 C19"),
 "C20": ("exploration", "Go race detector (-race build, GORACE log files counted and attributed) under a concurrent read-only workload + schedule-independent snapshot oracle + concurrent-vs-alone result oracle",
         "Phase A runs each of 26 read-only operations alone between two deep accessor snapshots (incl. key iteration order) of tokens with 0..300 unsorted argument/metadata keys. Phase B runs 2..64 goroutines of random operation mixes on shared tokens in the -race build: every race report with a go-ucan frame is a violation, every concurrent result must equal the result computed alone; the evidence counts the (opA,opB) pairs that actually overlapped on the same token.",
         "interleavings observed are those the stress runs produced (counted); the race detector adds happens-before analysis", "DESIGN.md §4 C20"),
}

BUILT_LATER = {}

PURITY_TECH = " + purity monitor (same call repeated in reverse / shuffled order and from 16..32 goroutines on shared objects must give the first outcome) with Go race detector shards"
CHAIN_PURITY_TECH = " + chain-verdict purity monitor (families of calls over one proof list - other invoker, subject, command, arguments, a sibling chain sharing the lower delegation objects - each judged against the reference model, in sequence, after unrelated traffic, and from 16..32 goroutines with focused rounds) with Go race detector shards"
CHAIN_PURITY_TEXT = " Around a sample of chains, families of calls that share one proof list are built: the same proofs presented by another invoker, for another subject, for the parent / a sibling / a child command, with other arguments (values of other lengths included), and a second chain that shares the lower delegation objects under other upper statements; every outcome - first, repeated in other orders after a burst of unrelated traffic, and concurrent (every other round four goroutines at a time on one family, the loader yielding inside the walk) - is compared with the first outcome and with the reference model's verdict for that call, in the plain and in a -race build."
PURITY_TEXT = " A sample of the calls is additionally repeated on shared objects in other orders - after a burst of unrelated traffic through the library (700 never-seen DIDs, patterns, selectors, commands, failing constructors) - and concurrently, in the plain build and in a -race build: outcomes must not depend on history or on concurrent use, and the race detector must report nothing in go-ucan code."
# id -> (technique suffix, text suffix): added in later sessions
EXTRA = {
 "C01": (CHAIN_PURITY_TECH, CHAIN_PURITY_TEXT + " The verdicts of many different chains (conforming and deviating in every rule, some sharing delegations and loaders) are re-computed in other orders and from 16..32 goroutines at once, in the plain and in a -race build, and must not change. Chains of up to 48 links, and history independence: the same invocation token checked with the full loader, a depleted loader and the full loader again. Chains are also decoded inside the judged call (container and invocation read afresh from their bytes), the outcome being the verdict plus the principals the decoded chain names. A proof list may name the very same token twice (same CID)."),
 "C02": (CHAIN_PURITY_TECH, CHAIN_PURITY_TEXT + " Every judged verdict of C01-C05 is preceded, in rotation, by calls that must not matter (a check against a loader failing half-way, the same check again, a check through a misbehaving hook); a second chain built from the very same lower delegations under other upper links is judged on its own. The lattice also holds an empty inner segment and two letters that Unicode case folding identifies; a scale family runs chains of up to 48 links over commands of up to 40 long / non-ASCII segments with zero or one widening link. A second lattice, exhaustive for n<=2, holds segments that are special elsewhere (*, **, ., .., %2f), mostly through the decoders."),
 "C03": (CHAIN_PURITY_TECH, CHAIN_PURITY_TEXT + " Policies also select relative to the end of a value (negative indexes, open slices) and are handed to the constructors as slices with spare capacity. Policies of up to 130 statements per link, chains of up to 40 links, look-alike twin statements (100 vs 100.0, 5 vs \"5\") of which one is false, heterogeneous quantified lists, and the same delegation objects matched against satisfying / violating / satisfying invocations in turn."),
 "C04": (" + bounds passing while the process runs (checked before and after a silence, bracket rule)", " Part C: tokens whose expiration / not-before lies 2.5 s ahead are checked, the process stays silent until every bound lies more than a second behind, and checks again (ExecutionAllowed at leaf / middle / root / invocation, IsValidNow), a different call coming first after the silence in every cycle and shard; verdicts are decided by two clock readings bracketing each call against the reported bounds with a second of margin, so the sleep only lets time pass. Probes are repeated in other time zones; hand-signed payloads carry every delicate timestamp; chains of up to 40 links; not-before bounds more than 292 years ahead. Part A2: bounds handed to the constructors as instants written in six locations (UTC, +14 h, -11:30, a zone with daylight saving ...) must be reported as that instant, constructed and decoded, and a chain whose link is not yet active by hours is denied whatever location the bound was written in. The chain of length zero: an invocation without proofs (issued by its subject or not, constructed and decoded, plain and through the hook) is never allowed when expired."),
 "C05": (CHAIN_PURITY_TECH, CHAIN_PURITY_TEXT + " Also chains of up to 48 links, deep / long / non-ASCII commands, 130-statement policies, a principal occurring three times, expirations more than 292 years ahead, every chain checked twice and through a second invocation."),
 "C06": (" + concurrent decoding of genuine and forged tokens (plain and -race build, race detector)", " 16..32 goroutines decode genuine tokens and same-length rewrites with the old signature (up to 2 MiB payloads) at once: no forged token may come out and the race detector must stay silent. Envelopes signed over a third entry that the canonical order puts before or after the tag, or over a second payload under the other type's tag, must not come out of any decoder. The issuer's key bytes under another key type's multicodec, payload re-signed by the issuer under its own header, must not be accepted."),
 "C07": (PURITY_TECH, " Links (CIDs) occur as metadata, argument and policy values." + PURITY_TEXT),
 "C08": ("", " CARs naming a block by a foreign-form CID of the same bytes must still file the token under its true CID; CIDs are compared under data-with-EOF, 1-byte and half-read streams. The signature number is re-encoded with its leading zero bytes stripped (RSA tokens whose signature starts with 0x00 are searched for), with a zero prepended and with a zero appended. Containers holding both token types are walked through every accessor (GetAllDelegations, GetAllInvocations, GetToken, GetDelegation): each token comes out under the content address of its sealed bytes."),
 "C09": ("", " Repetition bombs (runs of zero-length CAR sections, millions of empty container entries / CBOR chunks / JSON whitespace / wide policies / selector marks, wide signed args, meta and policies up to 24 MiB) run next to the depth bombs, and small nested-quantifier policies run under the CPU budget. Every quoted selector field name of up to four characters over {quote, backslash, brackets, dot, letter} - closed, unclosed, followed by more - is parsed under the CPU-time watchdog."),
 "C10": ("", " delegation.Root is also given a subject option of the caller's choice: the result is about its issuer or an error. Every field is also retyped to the EMPTY value of every kind (a length test placed before the kind test lets exactly these through). Constructor-made tokens the decoders must refuse (commands assembled with New / Join, policy and argument integers beyond 2^53) are sealed through every writing API of the library and the bytes offered to every decoder twice in the same process: sealing something is no reason to accept it later. New / Join first produce, in a fresh process, the texts the parser must refuse."),
 "C11": (PURITY_TECH, " Look-alike twin statements (integer n and float n, a string and the number it spells) stand side by side at top level and under and / or / not, in both orders. A numeric grid compares every comparison kind over every ordered pair of 45 delicate integers and floats (around 2^53, 2^62, the ends of int64 and float64)." + " Every policy is also matched in a third form, read from DAG-JSON text with FromDagJson." + PURITY_TEXT),
 "C12": (PURITY_TECH, " A map node whose iterator fails for one call (first or second on that node object) must afterwards select what the model says. One parsed selector is resolved against series of values of different lengths and compared with freshly parsed ones." + " Data holds integers beyond 2^53 as well." + PURITY_TEXT),
 "C13": (PURITY_TECH, " 29 characters that are special in other pattern languages or text handling (line feed, NUL, regular-expression and shell metacharacters) are each swept exhaustively, and subjects beyond 4 KiB are matched against patterns of up to 40 wildcards." + PURITY_TEXT),
 "C14": (PURITY_TECH, " Every selector text the parser rejects is also handed to every policy constructor that takes a selector, alone and nested: Construct must fail." + PURITY_TEXT),
 "C15": (PURITY_TECH, " Every Join / New result (results beyond 64 bytes included) is kept and read again at the very end of the run. All pairs over segments that differ only up to a normalisation (case folding, NFC/NFD, width, percent-encoding) and about 2000 runes on which the readings of 'upper-case' agree." + PURITY_TEXT),
 "C16": (PURITY_TECH, " Degenerate identifiers - whatever the undefined DID prints as among them - are parsed before and after calls that print undefined values; a successful Parse returning the undefined DID is a violation. Fabricated RSA public keys of 10 modulus lengths x 7 public exponents." + PURITY_TEXT),
 "C17": (PURITY_TECH, " Set cardinalities across the framing thresholds (24, 256, 65536 entries) with a corruption planted in the last entry, CAR section sizes swept around every power of two, foreign-form section CIDs." + PURITY_TEXT),
 "C18": (PURITY_TECH, " The stream writers run on slow, yielding sinks from 16..32 goroutines at once: bytes and CID must be those of the buffered call. The stream readers also run on slow, yielding streams from 16..32 goroutines at once (plain and -race build) and must return what they return alone; a fault-free call after a faulted one must write / read what the first fault-free call did. Seven kinds of reader fault (generic, io.ErrUnexpectedEOF, closed pipe, deadline, cancellation, no progress, wrapped errno) incl. a fault after the last byte was delivered, streams interleaving (0, nil) reads, and writers that accept fewer bytes than offered without reporting an error. Tokens whose encoded form is exactly 2^k-1, 2^k and 2^k+1 bytes long (k up to 20, thorough 22) go through every stream API and chunking."),
 "C20": ("", " Every read-only operation is also run as the FIRST operation on a token fresh from the constructors (bounds with a sub-second part, never sealed before), and a fresh token is encoded for the first time while other goroutines read it. Every token has sibling invocations over the same proofs with other argument values (one accepted, one refused after much matching work), checked next to everything else and in a burst of their own; metadata holds values long enough for a printer to abbreviate."),
 "C19": (PURITY_TECH, " Entropy-source faults, keys derived from the right key by truncation / extension." + PURITY_TEXT),
}

def main():
    props = [json.loads(l) for l in open(os.path.join(ROOT, "properties.jsonl"))]
    checks = []
    na = []
    for p in props:
        pid = p["id"]
        if pid in CHECKS:
            level, tech, text, note, ref = CHECKS[pid]
            if pid in EXTRA:
                tech += EXTRA[pid][0]
                text += EXTRA[pid][1]
            checks.append({
                "property_id": pid,
                "quick_cmd": f"bin/check {pid} quick",
                "thorough_cmd": f"bin/check {pid} thorough",
                "evidence_file": f"/verif/evidence/{pid}.json",
                "replay_cmd_template": f"bin/check replay {pid} {{path}}",
                "engine": "vcheck",
                "level_claimed": {"category": level, "text": text, "design_ref": ref},
                "level_note": note,
                "technique": tech,
            })
        else:
            na.append({"property_id": pid, "reason": BUILT_LATER.get(pid, "check not built yet in this session (planned in DESIGN.md §4; runtime monitoring applies) - not claimed until its monitor exists and is silent on the unchanged tree")})
    m = {
        "version": 1,
        "setup_cmd": "bin/check setup",
        "hooks": {
            "guard": "verif",
            "enable": "go build -tags verif (bin/check passes it on every build; no hook commit exists today: all monitors observe the public API)",
            "baseline_off_cmd": "cd /repo && GOFLAGS=-mod=mod go test -vet=off -count=1 -timeout 25m ./...",
            "source_commits": [],
            "add_only": True,
        },
        "engines": [{
            "name": "vcheck", "path": "harness/cmd/vcheck",
            "serves_properties": sorted(CHECKS),
            "kind_free_text": "Go supervisor + child-process workers: generated/hostile/fault-injected workloads against the real go-ucan code (compiled from /repo's working tree through a replace directive), reference-model / metamorphic / fault-enumeration oracles, Go race detector builds (every property's check may run -race shards: C06, C07, C09, C11-C17, C19, C20 do)",
        }],
        "checks": checks,
        "not_applicable": na,
        "notes": "Verdicts: exit 0 held on everything observed, 1 VIOLATION (replay file with the complete case), 2 INCONCLUSIVE (coverage floor missed / watchdog). Known findings: known_findings.json (never written at run time).",
    }
    json.dump(m, open(os.path.join(ROOT, "MANIFEST.json"), "w"), indent=1)
    print("checks:", len(checks), "not_applicable:", len(na))

if __name__ == "__main__":
    main()
