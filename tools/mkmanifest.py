#!/usr/bin/env python3
"""Regenerates /verif/MANIFEST.json from the table below (kept next to the checks so the
manifest always validates)."""
import json, os, sys

ROOT = os.path.dirname(os.path.dirname(os.path.abspath(__file__)))

# id -> (level, technique, text, note, design_ref)
CHECKS = {
 "C15": ("exploration", "runtime monitor: reference-model oracle (segment-prefix order) over exhaustive small scope + seeded random strings",
         "Every call of Parse/Covers/Segments/Join on an exhaustively enumerated small scope (all commands <=4 segments over a 4-segment alphabet: all pairs, triples of a 90-command subset; all parser strings <=6 runes over a 6-rune alphabet) plus seeded random Unicode is compared with an independent 25-line model; algebraic laws (reflexive, antisymmetric, transitive, top) are asserted on the observed results. Exhaustive inside the stated scope, sampling outside it.",
         "trusts the reference model ref/command.go (self-tested against the repository's TestCovers vectors) and Go's unicode tables", "DESIGN.md §4 C15"),
}

BUILT_LATER = {}

def main():
    props = [json.loads(l) for l in open(os.path.join(ROOT, "properties.jsonl"))]
    checks = []
    na = []
    for p in props:
        pid = p["id"]
        if pid in CHECKS:
            level, tech, text, note, ref = CHECKS[pid]
            checks.append({
                "property_id": pid,
                "quick_cmd": f"bin/check {pid} quick",
                "thorough_cmd": f"bin/check {pid} thorough",
                "evidence_file": f"/verif/evidence/{pid}.json",
                "replay_cmd_template": f"bin/check replay {pid} {{path}}",
                "engine": "vcheck",
                "level_claimed": {"category": level, "text": text, "design_ref": ref},
                "level_note": note,
                "technique": tech,
            })
        else:
            na.append({"property_id": pid, "reason": BUILT_LATER.get(pid, "check not built yet in this session (planned in DESIGN.md §4; runtime monitoring applies) - not claimed until its monitor exists and is silent on the unchanged tree")})
    m = {
        "version": 1,
        "setup_cmd": "bin/check setup",
        "hooks": {
            "guard": "verif",
            "enable": "go build -tags verif (bin/check passes it on every build; no hook commit exists today: all monitors observe the public API)",
            "baseline_off_cmd": "cd /repo && GOFLAGS=-mod=mod go test -vet=off -count=1 -timeout 25m ./...",
            "source_commits": [],
            "add_only": True,
        },
        "engines": [{
            "name": "vcheck", "path": "harness/cmd/vcheck",
            "serves_properties": sorted(CHECKS),
            "kind_free_text": "Go supervisor + child-process workers: generated/hostile/fault-injected workloads against the real go-ucan code (compiled from /repo's working tree through a replace directive), reference-model / metamorphic / fault-enumeration oracles, Go race detector builds for C20 and C09",
        }],
        "checks": checks,
        "not_applicable": na,
        "notes": "Verdicts: exit 0 held on everything observed, 1 VIOLATION (replay file with the complete case), 2 INCONCLUSIVE (coverage floor missed / watchdog). Known findings: known_findings.json (never written at run time).",
    }
    json.dump(m, open(os.path.join(ROOT, "MANIFEST.json"), "w"), indent=1)
    print("checks:", len(checks), "not_applicable:", len(na))

if __name__ == "__main__":
    main()
