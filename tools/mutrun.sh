#!/bin/bash
# tools/mutrun.sh <mutants-dir> <results.tsv> [jobs] [id-glob]
# Machine-made mutants (tools/mutgen): each one is applied to a scratch COPY of /repo (never to
# /repo itself); stage 1 = it builds and the repository's own suite still passes; stage 2 = the
# checks, most relevant first, pointed at the copy through VERIF_REPO, stopping at the first
# one that reports a violation. One line per mutant in <results.tsv>:
#   id  file:line operator  nobuild | killed-by-suite | caught-by=Cxx (signature) | SURVIVED-ALL
cd "$(dirname "$0")/.."
MD=$1; OUT=$2; J=${3:-4}; GLOB=${4:-m*}
export GOFLAGS=-mod=mod GOPROXY=off GOSUMDB=off GOTOOLCHAIN=local
export VROOT="$PWD" MD OUT
order_for() {
  case "$1" in
    pkg/policy/glob.go) echo C13 C11 C03 C14 C07 C09 ;;
    pkg/policy/match.go) echo C11 C03 C05 C13 C09 C20 ;;
    pkg/policy/selector/*) echo C12 C14 C11 C03 C09 C05 C20 ;;
    pkg/policy/literal/*) echo C10 C11 C07 C03 ;;
    pkg/policy/limits/*) echo C10 C09 C07 ;;
    pkg/policy/*) echo C14 C07 C10 C09 C11 C03 C05 ;;
    pkg/container/*) echo C17 C18 C08 C09 C05 C01 ;;
    pkg/command/*) echo C15 C02 C10 C05 C07 ;;
    pkg/args/*) echo C20 C10 C03 C05 C07 C09 ;;
    pkg/meta/*) echo C19 C07 C20 C10 C05 ;;
    did/*) echo C16 C07 C06 C01 C09 C05 ;;
    token/internal/envelope/*) echo C06 C08 C07 C10 C18 C09 C17 ;;
    token/invocation/proof.go|token/invocation/invocation.go) echo C01 C02 C03 C04 C05 C20 C10 C07 ;;
    token/invocation/*) echo C07 C10 C06 C08 C18 C05 C20 ;;
    token/delegation/*) echo C04 C07 C10 C06 C05 C20 C01 ;;
    token/*) echo C07 C06 C10 C18 C08 C04 C09 ;;
    *) echo ;;
  esac
}
export -f order_for
one() {
  diff=$1; id=$(basename "$diff" .diff)
  desc=$(cat "$MD/$id.txt")
  file=${desc%%:*}
  D=/tmp/mu-$id; EV=/tmp/mu-ev-$id
  rm -rf "$D" "$EV"; mkdir -p "$D" "$EV"
  rsync -a --exclude .git /repo/ "$D/"
  if ! ( cd "$D" && patch -s -p1 < "$diff" ) >/dev/null 2>&1; then
    printf "%s\t%s\tpatch-failed\n" "$id" "$desc" >> "$OUT"; rm -rf "$D" "$EV"; return
  fi
  if ! ( cd "$D" && go build ./... ) >/dev/null 2>&1; then
    printf "%s\t%s\tnobuild\n" "$id" "$desc" >> "$OUT"; rm -rf "$D" "$EV"; return
  fi
  if ! ( cd "$D" && timeout 600 go test -vet=off -count=1 ./... ) >/dev/null 2>&1; then
    printf "%s\t%s\tkilled-by-suite\n" "$id" "$desc" >> "$OUT"; rm -rf "$D" "$EV"; return
  fi
  if [ -n "${STAGE1_ONLY:-}" ]; then
    printf "%s\t%s\tsurvived-suite\n" "$id" "$desc" >> "$OUT"; rm -rf "$D" "$EV"; return
  fi
  first=$(order_for "$file")
  if [ -n "${CHECKS_OVERRIDE:-}" ]; then
    # second pass: only the listed checks that the relevant list did not already contain
    f2=""
    for c in $CHECKS_OVERRIDE; do case " $first " in *" $c "*) ;; *) f2="$f2 $c" ;; esac; done
    first="$f2"
  fi
  rest=""
  for c in C01 C02 C03 C04 C05 C06 C07 C08 C10 C11 C12 C13 C14 C15 C16 C17 C18 C19 C20 C09; do
    case " $first " in *" $c "*) ;; *) rest="$rest $c" ;; esac
  done
  verdict="SURVIVED-ALL"; inc=""
  if [ -n "${RELEVANT_ONLY:-}" ]; then rest=""; verdict="SURVIVED-RELEVANT($(echo $first | tr ' ' ','))"; fi
  for c in $first $rest; do
    VERIF_REPO="$D" VERIF_EVIDENCE_DIR="$EV" "$VROOT/bin/check" "$c" quick > "$EV/$c.log" 2>&1; rc=$?
    if [ $rc -eq 1 ]; then
      sig=$(grep -m1 -A1 '^VIOLATION' "$EV/$c.log" | tail -1 | sed 's/^ *//' | cut -c1-120)
      verdict="caught-by=$c ($sig)"; break
    elif [ $rc -ne 0 ]; then
      inc="$inc $c:rc$rc"
    fi
  done
  printf "%s\t%s\t%s%s\n" "$id" "$desc" "$verdict" "${inc:+ [inconclusive:$inc]}" >> "$OUT"
  tag=$(echo -n "$D" | sha1sum | cut -c1-10)
  rm -f "$VROOT/.build/vcheck-$tag" "$VROOT/.build/vcheck-race-$tag" "$VROOT"/.build/alt-$tag.* 2>/dev/null
  rm -rf "$D" "$EV"
}
export -f one
touch "$OUT"
ls "$MD"/$GLOB.diff | while read -r d; do id=$(basename "$d" .diff); grep -q "^$id	" "$OUT" || echo "$d"; done | xargs -P "$J" -I{} bash -c 'one {}'
echo "done: $(wc -l < "$OUT") mutants in $OUT"
