#!/bin/bash
# tools/mut_survivors.sh <results.tsv> <mutants-dir> [skip-n]  - prints the changed lines of the mutants no relevant check caught
R=$1; MD=$2; SKIP=${3:-0}
grep SURVIVED "$R" | tail -n +$((SKIP+1)) | while IFS=$'\t' read -r id desc verdict; do
  echo "## $id $desc"
  grep "^[-+]" "$MD/$id.diff" | grep -v "^---\|^+++" | cut -c1-160
done
