#!/bin/bash
# tools/seeded_matrix_par.sh [jobs] [name-glob]
# Like seeded_matrix.sh, but never touches /repo: every seeded change gets its own scratch
# worktree (removed afterwards), the check is pointed at it with VERIF_REPO, and evidence of
# these mutant runs goes to a scratch directory (VERIF_EVIDENCE_DIR), so several can run at once.
cd "$(dirname "$0")/.."
J=${1:-4}; GLOB=${2:-*}
export GOFLAGS=-mod=mod GOPROXY=off GOSUMDB=off GOTOOLCHAIN=local
one() {
  d=$1; n=$(basename "$d")
  [ -f "$d/meta.json" ] || exit 0
  p=$(python3 -c "import json;print(json.load(open('$d/meta.json'))['property'])")
  wt=/tmp/sm-$n; ev=/tmp/sm-ev-$n
  git -C /repo worktree remove --force "$wt" 2>/dev/null; rm -rf "$wt" "$ev"; mkdir -p "$ev"
  git -C /repo worktree add -q --detach "$wt" HEAD || { echo "$n worktree failed"; exit 0; }
  if ! git -C "$wt" apply "$PWD/$d/patch.diff" 2>/dev/null; then
    printf "%s\t%s\tPATCH-DOES-NOT-APPLY\n" "$n" "$p"
  else
    suite=pass
    if [ "${SUITE:-0}" = 1 ]; then ( cd "$wt" && go build ./... && go test -vet=off -count=1 ./... ) > "$ev/suite.log" 2>&1 || suite=FAIL; else suite=not-rerun; fi
    VERIF_REPO="$wt" VERIF_EVIDENCE_DIR="$ev" bin/check "$p" quick > "$ev/check.log" 2>&1; rc=$?
    sig=$(grep -m1 -A1 '^VIOLATION' "$ev/check.log" | tail -1 | sed 's/^ *//' | cut -c1-160)
    printf "%s\t%s\tsuite=%s\texit=%s\t%s\n" "$n" "$p" "$suite" "$rc" "$sig"
    python3 - "$d/meta.json" "$rc" "$sig" <<'PY'
import json,sys
p,rc,sig=sys.argv[1:4]
m=json.load(open(p))
m.setdefault("detection",{})
m["detection"].update({"how":"tools/seeded_matrix_par.sh (scratch worktree of /repo HEAD + patch.diff; VERIF_REPO=<worktree> bin/check <property> quick; worktree removed)","check":m["property"],"tier":"quick","exit":int(rc) if rc.isdigit() else rc,"caught":rc=="1","first_violation":sig})
json.dump(m,open(p,"w"),indent=1,ensure_ascii=False)
PY
  fi
  git -C /repo worktree remove --force "$wt" 2>/dev/null; rm -rf "$wt" "$ev"
  tag=$(echo -n "$wt" | sha1sum | cut -c1-10)
  rm -f .build/vcheck-$tag .build/vcheck-race-$tag .build/alt-$tag.* 2>/dev/null
}
export -f one
ls -d seeded/$GLOB/ | xargs -P "$J" -I{} bash -c 'one {}' | tee /tmp/sm-results.tsv
rm -f /tmp/sm-results.tsv
# RESULTS.tsv is regenerated from every meta.json (so a partial run does not lose the other rows)
python3 - <<'PY'
import json,glob
rows=[]
for f in sorted(glob.glob('seeded/*/meta.json')):
    m=json.load(open(f)); d=m.get('detection',{})
    rows.append("%s\t%s\tround=%s\texit=%s\t%s"%(m['name'],m['property'],m.get('round',1),d.get('exit','?'),d.get('first_violation','')))
open('seeded/RESULTS.tsv','w').write("\n".join(rows)+"\n")
PY
git -C /repo worktree prune
