#!/usr/bin/env python3
"""Regenerates the seeded-change table of DESIGN.md section 9 from seeded/*/meta.json."""
import json, glob, os, re
ROOT = os.path.dirname(os.path.dirname(os.path.abspath(__file__)))
rows = []
for f in sorted(glob.glob(os.path.join(ROOT, "seeded", "*", "meta.json"))):
    m = json.load(open(f))
    d = m.get("detection", {})
    now = "caught: `%s`" % d.get("first_violation", "").replace("|", "\\|") if d.get("caught") else "MISSED (exit %s)" % d.get("exit")
    rows.append("| `%s` (round %s) | %s | %s | %s | %s |" % (m["name"], m.get("round", 1), m["needs_to_manifest"].replace("|", "\\|"), m["property"], m.get("first_outcome", "?"), now))
p = os.path.join(ROOT, "DESIGN.md")
s = open(p).read()
s = re.sub(r"<!-- SEEDED_TABLE_BEGIN -->.*?<!-- SEEDED_TABLE_END -->", lambda _: "<!-- SEEDED_TABLE_BEGIN -->\n| seeded change | what it needs to manifest | check | first | now (first violation signature) |\n|---|---|---|---|---|\n" + "\n".join(rows) + "\n<!-- SEEDED_TABLE_END -->", s, flags=re.S)
open(p, "w").write(s)
print(len(rows), "rows")
