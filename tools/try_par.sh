#!/bin/bash
# tools/try_par.sh <seeded-name> [check-id] [tier]  - like one row of seeded_matrix_par.sh, but the
# log is kept (.build/logs/try-<name>.log) and meta.json is not touched. Never touches /repo.
cd "$(dirname "$0")/.."
export GOFLAGS=-mod=mod GOPROXY=off GOSUMDB=off GOTOOLCHAIN=local
n=$1; d=seeded/$n
p=${2:-$(python3 -c "import json;print(json.load(open('$d/meta.json'))['property'])")}
tier=${3:-quick}
wt=/tmp/try-$n; ev=/tmp/try-ev-$n
git -C /repo worktree remove --force "$wt" 2>/dev/null; rm -rf "$wt" "$ev"; mkdir -p "$ev"
git -C /repo worktree add -q --detach "$wt" HEAD
git -C "$wt" apply "$PWD/$d/patch.diff" || { echo "patch does not apply"; exit 3; }
VERIF_REPO="$wt" VERIF_EVIDENCE_DIR="$ev" bin/check "$p" $tier > .build/logs/try-$n.log 2>&1; rc=$?
echo "$n $p $tier exit=$rc"
grep -E '^(VIOLATION|INCONCLUSIVE|HELD)' .build/logs/try-$n.log | head -5
grep -A3 '^VIOLATION' .build/logs/try-$n.log | sed -n 2,4p | cut -c1-400
git -C /repo worktree remove --force "$wt" 2>/dev/null; rm -rf "$wt" "$ev"
tag=$(echo -n "$wt" | sha1sum | cut -c1-10)
rm -f .build/vcheck-$tag .build/vcheck-race-$tag .build/alt-$tag.* 2>/dev/null
git -C /repo worktree prune
exit $rc
