#!/bin/bash
# tools/intake_r4.sh <Cxx> <short-name>   (round 4: deliverables in /tmp/r4-<Cxx>-out, README.md starts with PKGDIR= / RUN=)
set -u
ID=$1; SHORT=$2
OUT=/tmp/r4-$ID-out
PKG=$(grep -m1 '^`\?PKGDIR=' "$OUT/README.md" | sed 's/`//g; s/^PKGDIR=//; s/[[:space:]]*$//')
RUN=$(grep -m1 '^`\?RUN=' "$OUT/README.md" | sed 's/`//g; s/^RUN=//; s/[[:space:]]*$//')
[ -z "$PKG" ] && { echo "no PKGDIR in README"; exit 2; }
exec "$(dirname "$0")/intake.sh" "$ID" "${ID}d-$SHORT" "$PKG" "${RUN:-.}" "$OUT"
