#!/bin/bash
# tools/intake_r5.sh <Cxx> <short-name>   (round 14: deliverables in /tmp/r14-<Cxx>-out, README.md starts with PKGDIR= / RUN=)
set -u
ID=$1; SHORT=$2
OUT=/tmp/r14-$ID-out
PKG=$(grep -m1 '^`\?PKGDIR=' "$OUT/README.md" | sed 's/`//g; s/^PKGDIR=//; s/[[:space:]]*$//')
RUN=$(grep -m1 '^`\?RUN=' "$OUT/README.md" | sed 's/`//g; s/^RUN=//; s/[[:space:]]*$//')
[ -z "$PKG" ] && { echo "no PKGDIR in README"; exit 2; }
NAME="${ID}n-$SHORT"
"$(dirname "$0")/intake.sh" "$ID" "$NAME" "$PKG" "${RUN:-.}" "$OUT" | tee /tmp/intake-$NAME.log
python3 - "$NAME" "$ID" /tmp/intake-$NAME.log <<'PY'
import json,sys,re
name,pid,log=sys.argv[1:4]
t=open(log).read()
m=re.search(r'suite_with_patch_exit=(\d+).*demo_with_patch_exit=(\S+).*demo_without_patch_exit=(\S+)',t)
s,d1,d0=m.groups() if m else ('?','?','?')
meta={"property":pid,"name":name,"round":14,
 "origin":"independent sub-agent (round 14), given only the property text, a scratch worktree, one-line descriptions of the thirteen earlier changes and the list of functions they touched, asked for a bug-fix or hardening commit that over-corrects, under-corrects or mis-scopes its correction",
 "needs_to_manifest":"(to be filled in)","first_outcome":"?",
 "verified_by_me":{"how":"tools/intake_r5.sh -> tools/intake.sh: fresh scratch worktree of /repo HEAD, patch applied; go build ./... && go test -vet=off -count=1 ./... ; demo_test.go copied into the package directory named in README.md",
   "suite_with_patch":"pass" if s=='0' else "FAIL("+s+")","demo_with_patch":"FAIL" if d1 not in('0','-') else "pass("+d1+")","demo_without_patch":"pass" if d0=='0' else "FAIL("+d0+")"},
 "detection":{}}
json.dump(meta,open('/verif/seeded/%s/meta.json'%name,'w'),indent=1,ensure_ascii=False)
PY
rm -f /tmp/intake-$NAME.log
