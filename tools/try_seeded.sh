#!/bin/bash
# tools/try_seeded.sh <seeded-dir> [check ids...]
# Applies <seeded-dir>/patch.diff to /repo, runs the repository's own test suite and the
# named checks (default: the property named in meta.json, else all 20) in the quick tier,
# then restores /repo. Prints one summary line per check.
set -u
D="$(cd "$1" && pwd)"; shift
ROOT="$(cd "$(dirname "${BASH_SOURCE[0]}")/.." && pwd)"
export GOFLAGS=-mod=mod GOPROXY=off GOSUMDB=off GOTOOLCHAIN=local
if [ -n "$(git -C /repo status --porcelain)" ]; then echo "REFUSED: /repo is not clean"; exit 2; fi
if ! git -C /repo apply --check "$D/patch.diff" 2>/dev/null; then echo "PATCH-DOES-NOT-APPLY $D"; exit 2; fi
git -C /repo apply "$D/patch.diff"
restore() { git -C /repo apply -R "$D/patch.diff" 2>/dev/null || git -C /repo checkout -- . ; git -C /repo status --porcelain | grep -q . && { git -C /repo checkout -- .; git -C /repo clean -fdq; }; }
trap restore EXIT
TIER="${TIER:-quick}"
suite="pass"
( cd /repo && go build ./... && go test -vet=off -count=1 ./... ) > "$D/suite.log" 2>&1 || suite="FAIL"
echo "suite=$suite  ($D)"
checks=("$@")
if [ ${#checks[@]} -eq 0 ]; then
  if [ -f "$D/meta.json" ]; then checks=($(python3 -c "import json,sys;print(json.load(open('$D/meta.json'))['property'])")); else checks=(C01 C02 C03 C04 C05 C06 C07 C08 C09 C10 C11 C12 C13 C14 C15 C16 C17 C18 C19 C20); fi
fi
for c in "${checks[@]}"; do
  out="$D/check-$c-$TIER.log"
  "$ROOT/bin/check" "$c" "$TIER" > "$out" 2>&1; rc=$?
  first=$(grep -m1 -A1 '^VIOLATION' "$out" | tail -1 | sed 's/^ *//' | cut -c1-160)
  echo "check=$c tier=$TIER exit=$rc ${first}"
done
