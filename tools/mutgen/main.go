// mutgen enumerates small syntactic mutants of the non-test Go sources of a repository and
// writes each as a unified diff (one file per mutant) into an output directory.
//
//	go run tools/mutgen/main.go -repo /repo -out /tmp/mutants
//
// Operators: relational (< <= > >= == !=), logical (&& ||), arithmetic (+ -), boolean
// literals, small integer literals (n -> n+1), removal of a `return` carrying an error inside
// an `if err != nil` block (the error is ignored), removal of a `continue`/`break`, negation
// of an if condition that is a call or an identifier. With -stmts: the second generation
// (statement deletion) instead. The mutants are meant to be filtered by
// the repository's own test suite first (tools/mutrun.sh); what survives that is offered to
// the checks.
package main

import (
	"bytes"
	"flag"
	"fmt"
	"go/ast"
	"go/parser"
	"go/format"
	"go/token"
	"os"
	"os/exec"
	"path/filepath"
	"strconv"
	"strings"
)

var stmts *bool

type site struct {
	desc  string
	apply func() (undo func())
}

func main() {
	repo := flag.String("repo", "/repo", "")
	out := flag.String("out", "/tmp/mutants", "")
	only := flag.String("only", "", "comma separated path prefixes (relative)")
	stmts = flag.Bool("stmts", false, "statement-deletion operators only (second generation: call statements, assignments, inc/dec, defers, whole guard ifs)")
	flag.Parse()
	_ = os.MkdirAll(*out, 0o755)
	var files []string
	_ = filepath.Walk(*repo, func(p string, info os.FileInfo, err error) error {
		if err != nil {
			return nil
		}
		rel, _ := filepath.Rel(*repo, p)
		if info.IsDir() {
			if strings.HasPrefix(info.Name(), ".") && rel != "." || info.Name() == "testdata" || info.Name() == "examples" || strings.Contains(rel, "didtest") || strings.Contains(rel, "testvectors") {
				return filepath.SkipDir
			}
			return nil
		}
		if !strings.HasSuffix(p, ".go") || strings.HasSuffix(p, "_test.go") || strings.Contains(rel, "gen.go") {
			return nil
		}
		if *only != "" {
			ok := false
			for _, pre := range strings.Split(*only, ",") {
				if strings.HasPrefix(rel, pre) {
					ok = true
				}
			}
			if !ok {
				return nil
			}
		}
		files = append(files, rel)
		return nil
	})
	total := 0
	for _, rel := range files {
		total += mutateFile(*repo, rel, *out, total)
	}
	fmt.Println("mutants:", total)
}

func mutateFile(repo, rel, out string, base int) int {
	path := filepath.Join(repo, rel)
	src, err := os.ReadFile(path)
	if err != nil {
		return 0
	}
	fset := token.NewFileSet()
	f, err := parser.ParseFile(fset, path, src, parser.ParseComments)
	if err != nil {
		return 0
	}
	// skip files that are only for tests / generated
	if bytes.Contains(src[:min(len(src), 400)], []byte("DO NOT EDIT")) {
		return 0
	}
	var sites []site
	swap := map[token.Token][]token.Token{
		token.LSS: {token.LEQ, token.GEQ}, token.LEQ: {token.LSS}, token.GTR: {token.GEQ, token.LEQ}, token.GEQ: {token.GTR},
		token.EQL: {token.NEQ}, token.NEQ: {token.EQL}, token.LAND: {token.LOR}, token.LOR: {token.LAND},
		token.ADD: {token.SUB}, token.SUB: {token.ADD},
	}
	line := func(p token.Pos) int { return fset.Position(p).Line }
	ast.Inspect(f, func(n ast.Node) bool {
		if *stmts {
			if _, ok := n.(*ast.BlockStmt); !ok {
				return true
			}
		}
		switch x := n.(type) {
		case *ast.BinaryExpr:
			if x.Op == token.ADD {
				// string concatenation: skip
				if bl, ok := x.X.(*ast.BasicLit); ok && bl.Kind == token.STRING {
					return true
				}
				if bl, ok := x.Y.(*ast.BasicLit); ok && bl.Kind == token.STRING {
					return true
				}
			}
			for _, to := range swap[x.Op] {
				x, from, to := x, x.Op, to
				sites = append(sites, site{fmt.Sprintf("%s:%d binary %s -> %s", rel, line(x.OpPos), from, to), func() func() { x.Op = to; return func() { x.Op = from } }})
			}
		case *ast.Ident:
			if x.Name == "true" || x.Name == "false" {
				x, from := x, x.Name
				to := "true"
				if from == "true" {
					to = "false"
				}
				sites = append(sites, site{fmt.Sprintf("%s:%d bool %s -> %s", rel, line(x.Pos()), from, to), func() func() { x.Name = to; return func() { x.Name = from } }})
			}
		case *ast.BasicLit:
			if x.Kind == token.INT {
				if v, err := strconv.ParseInt(x.Value, 0, 64); err == nil && v >= 0 && v <= 64 {
					x, from := x, x.Value
					to := strconv.FormatInt(v+1, 10)
					sites = append(sites, site{fmt.Sprintf("%s:%d int %s -> %s", rel, line(x.Pos()), from, to), func() func() { x.Value = to; return func() { x.Value = from } }})
				}
			}
		case *ast.IfStmt:
			// if err != nil { return ..., err }  ->  body emptied (error ignored)
			if be, ok := x.Cond.(*ast.BinaryExpr); ok && be.Op == token.NEQ {
				if id, ok := be.X.(*ast.Ident); ok && strings.HasPrefix(strings.ToLower(id.Name), "err") && len(x.Body.List) == 1 {
					if _, ok := x.Body.List[0].(*ast.ReturnStmt); ok && x.Else == nil {
						x, old := x, x.Body.List
						sites = append(sites, site{fmt.Sprintf("%s:%d drop error return", rel, line(x.Pos())), func() func() {
							x.Body.List = []ast.Stmt{&ast.AssignStmt{Lhs: []ast.Expr{ast.NewIdent("_")}, Tok: token.ASSIGN, Rhs: []ast.Expr{ast.NewIdent(id.Name)}}}
							return func() { x.Body.List = old }
						}})
					}
				}
			}
			// negate conditions that are calls / identifiers / selector expressions
			switch x.Cond.(type) {
			case *ast.CallExpr, *ast.Ident, *ast.SelectorExpr:
				x, old := x, x.Cond
				sites = append(sites, site{fmt.Sprintf("%s:%d negate condition", rel, line(x.Pos())), func() func() {
					x.Cond = &ast.UnaryExpr{Op: token.NOT, X: old}
					return func() { x.Cond = old }
				}})
			case *ast.UnaryExpr:
				if ue := x.Cond.(*ast.UnaryExpr); ue.Op == token.NOT {
					x, old := x, x.Cond
					sites = append(sites, site{fmt.Sprintf("%s:%d drop negation", rel, line(x.Pos())), func() func() {
						x.Cond = ue.X
						return func() { x.Cond = old }
					}})
				}
			}
		case *ast.BlockStmt:
			for i, st := range x.List {
				if *stmts {
					drop := ""
					switch y := st.(type) {
					case *ast.ExprStmt:
						if _, ok := y.X.(*ast.CallExpr); ok {
							drop = "call statement"
						}
					case *ast.AssignStmt:
						if y.Tok != token.DEFINE {
							drop = "assignment"
						}
					case *ast.IncDecStmt:
						drop = "inc/dec"
					case *ast.DeferStmt:
						drop = "defer"
					case *ast.IfStmt:
						if y.Else == nil && y.Init == nil {
							drop = "whole if"
							// `if err != nil { return … }` is the first generation's "drop error return"
							if be, ok := y.Cond.(*ast.BinaryExpr); ok && be.Op == token.NEQ && len(y.Body.List) == 1 {
								if id, ok := be.X.(*ast.Ident); ok && strings.HasPrefix(strings.ToLower(id.Name), "err") {
									if _, ok := y.Body.List[0].(*ast.ReturnStmt); ok {
										drop = ""
									}
								}
							}
						}
					}
					if drop != "" {
						x, i, old := x, i, st
						sites = append(sites, site{fmt.Sprintf("%s:%d drop %s", rel, line(st.Pos()), drop), func() func() {
							x.List[i] = &ast.EmptyStmt{Implicit: false}
							return func() { x.List[i] = old }
						}})
					}
				}
				if bs, ok := st.(*ast.BranchStmt); ok && !*stmts && (bs.Tok == token.CONTINUE || bs.Tok == token.BREAK) && bs.Label == nil {
					x, i, old := x, i, st
					sites = append(sites, site{fmt.Sprintf("%s:%d drop %s", rel, line(bs.Pos()), bs.Tok), func() func() {
						x.List[i] = &ast.EmptyStmt{Implicit: false}
						return func() { x.List[i] = old }
					}})
				}
			}
		}
		return true
	})
	// canonical print of the original (so that diffs only show the mutation)
	var orig bytes.Buffer
	_ = format.Node(&orig, fset, f)
	tmpDir, _ := os.MkdirTemp("", "mutgen")
	defer os.RemoveAll(tmpDir)
	a := filepath.Join(tmpDir, "a.go")
	_ = os.WriteFile(a, src, 0o644)
	n := 0
	for _, s := range sites {
		undo := s.apply()
		var mut bytes.Buffer
		err := format.Node(&mut, fset, f)
		undo()
		if err != nil || bytes.Equal(mut.Bytes(), orig.Bytes()) {
			continue
		}
		// diff of canonical original vs mutant, re-targeted at the real file: apply the line-level
		// change to the real source by diffing canonical forms and patching with `patch`-compatible paths
		b := filepath.Join(tmpDir, "b.go")
		_ = os.WriteFile(a, orig.Bytes(), 0o644)
		_ = os.WriteFile(b, mut.Bytes(), 0o644)
		cmd := exec.Command("diff", "-u", "--label", "a/"+rel, "--label", "b/"+rel, a, b)
		d, _ := cmd.Output()
		if len(d) == 0 {
			continue
		}
		id := fmt.Sprintf("m%05d", base+n)
		_ = os.WriteFile(filepath.Join(out, id+".diff"), d, 0o644)
		_ = os.WriteFile(filepath.Join(out, id+".txt"), []byte(s.desc+"\n"), 0o644)
		n++
	}
	// the canonical form of the file itself, needed as the base the diffs apply to
	canon := filepath.Join(out, "canonical", rel)
	_ = os.MkdirAll(filepath.Dir(canon), 0o755)
	_ = os.WriteFile(canon, orig.Bytes(), 0o644)
	return n
}
