#!/bin/bash
# tools/sweep.sh [tier] [seeds...]   - every check on the unchanged tree, one seed after the other,
# evidence of seeds other than 1 kept out of /verif/evidence (scratch directory, removed).
cd "$(dirname "$0")/.."
TIER=${1:-quick}; shift; SEEDS=${@:-1 2 3}
mkdir -p .build/logs
bad=0
for seed in $SEEDS; do
  ev=$(mktemp -d /tmp/sweep-ev-XXXX)
  for c in C01 C02 C03 C04 C05 C06 C07 C08 C09 C10 C11 C12 C13 C14 C15 C16 C17 C18 C19 C20; do
    if [ "$seed" = 1 ]; then
      VERIF_SEED=$seed bin/check $c $TIER > .build/logs/sweep-$seed-$c.log 2>&1; rc=$?
    else
      VERIF_SEED=$seed VERIF_EVIDENCE_DIR=$ev bin/check $c $TIER > .build/logs/sweep-$seed-$c.log 2>&1; rc=$?
    fi
    kf=$(grep -c '^KNOWN-FINDING' .build/logs/sweep-$seed-$c.log)
    echo "seed=$seed $c rc=$rc known=$kf $(grep -m1 -E '^(VIOLATION|INCONCLUSIVE)' .build/logs/sweep-$seed-$c.log | cut -c1-200)"
    [ $rc -ne 0 ] && bad=1
  done
  rm -rf "$ev"
done
exit $bad
