#!/bin/bash
# tools/reverify.sh <seeded-name>  - re-verifies a stored seeded change against /repo HEAD in a fresh
# scratch worktree: patch applies, suite passes with it, demo fails with it and passes without.
set -u
n=$1; d=/verif/seeded/$n
export GOFLAGS=-mod=mod GOPROXY=off GOSUMDB=off GOTOOLCHAIN=local
PKG=$(grep -m1 '^`\?PKGDIR=' "$d/README.md" | sed 's/`//g; s/^PKGDIR=//; s/[[:space:]]*$//')
RUN=$(grep -m1 '^`\?RUN=' "$d/README.md" | sed 's/`//g; s/^RUN=//; s/[[:space:]]*$//')
[ -z "$PKG" ] && PKG=$(python3 -c "import json;print(json.load(open('$d/meta.json')).get('verified_by_me',{}).get('pkgdir',''))")
[ -z "$PKG" ] && { echo "$n: no PKGDIR"; exit 2; }
VT=/tmp/rv-$n
git -C /repo worktree remove --force "$VT" 2>/dev/null; rm -rf "$VT"
git -C /repo worktree add -q --detach "$VT" HEAD || exit 2
trap 'git -C /repo worktree remove --force "$VT" 2>/dev/null; rm -rf "$VT"; git -C /repo worktree prune' EXIT
cd "$VT"
git apply "$d/patch.diff" || { echo "$n: PATCH DOES NOT APPLY"; exit 2; }
go build ./... && go test -vet=off -count=1 ./... > /tmp/rv-$n.suite.log 2>&1; s1=$?
cp "$d/demo_test.go" "$VT/$PKG/zz_demo_test.go"
go test -vet=off -count=1 -run "${RUN:-.}" "./$PKG/" > /tmp/rv-$n.d1.log 2>&1; d1=$?
git apply -R "$d/patch.diff"
go test -vet=off -count=1 -run "${RUN:-.}" "./$PKG/" > /tmp/rv-$n.d0.log 2>&1; d0=$?
echo "$n: suite_with_patch_exit=$s1 (want 0) demo_with_patch_exit=$d1 (want !=0) demo_without_patch_exit=$d0 (want 0)"
rm -f /tmp/rv-$n.*.log
