#!/bin/bash
# Runs every seeded change against the check of its property (quick tier) and records the
# outcome in its meta.json and in seeded/RESULTS.tsv.
cd "$(dirname "$0")/.."
: > seeded/RESULTS.tsv
for d in seeded/*/; do
  n=$(basename "$d")
  [ -f "$d/meta.json" ] || continue
  p=$(python3 -c "import json;print(json.load(open('$d/meta.json'))['property'])")
  out=$(tools/try_seeded.sh "$d" "$p" 2>&1)
  suite=$(echo "$out" | grep -o 'suite=[a-zA-Z]*' | head -1)
  line=$(echo "$out" | grep '^check=' | head -1)
  rc=$(echo "$line" | grep -o 'exit=[0-9]*' | cut -d= -f2)
  sig=$(echo "$line" | sed 's/^.*exit=[0-9]* //')
  printf "%s\t%s\t%s\texit=%s\t%s\n" "$n" "$p" "$suite" "$rc" "$sig" | tee -a seeded/RESULTS.tsv
  python3 - "$d/meta.json" "$rc" "$sig" "$suite" <<'PY'
import json,sys
p,rc,sig,suite=sys.argv[1:5]
m=json.load(open(p))
m.setdefault("detection",{})
m["detection"].update({"check":m["property"],"tier":"quick","exit":int(rc) if rc.isdigit() else rc,"caught":rc=="1","first_violation":sig,"repo_suite_with_patch":suite})
json.dump(m,open(p,"w"),indent=1,ensure_ascii=False)
PY
  rm -f "$d"/check-*.log "$d"/suite.log
done
git -C /repo status --short
