#!/bin/bash
# tools/intake.sh <Cxx> <name> <pkgdir-for-demo> [go test -run regex] [outdir]
# Verifies a sub-agent's seeded change in a FRESH scratch worktree of /repo (never in the
# agent's own tree): the repository's suite passes with the patch; the demonstration fails
# with the patch and passes without. Then stores it under /verif/seeded/<name>/ .
set -u
ID=$1; NAME=$2; PKG=$3; RUN=${4:-.}; OUT=${5:-/tmp/wt-$ID-out}
VT=/tmp/vt-$NAME; DST=/verif/seeded/$NAME
export GOFLAGS=-mod=mod GOPROXY=off GOSUMDB=off GOTOOLCHAIN=local
rm -rf "$DST"; mkdir -p "$DST"
git -C /repo worktree remove --force "$VT" 2>/dev/null; rm -rf "$VT"
git -C /repo worktree add -q --detach "$VT" HEAD || exit 2
trap 'git -C /repo worktree remove --force "$VT" 2>/dev/null; rm -rf "$VT"' EXIT
# source changes only
grep -q '_test.go' "$OUT/patch.diff" && echo "WARNING: patch touches test files"
cp "$OUT/patch.diff" "$DST/patch.diff"
cp "$OUT"/README.md "$DST/" 2>/dev/null
demo=$(ls "$OUT"/demo*_test.go 2>/dev/null | head -1)
[ -n "$demo" ] && cp "$demo" "$DST/demo_test.go"
[ -d "$OUT/demo" ] && cp -r "$OUT/demo" "$DST/demo"
cd "$VT"
git apply "$DST/patch.diff" || { echo "PATCH DOES NOT APPLY"; exit 2; }
go build ./... && go test -vet=off -count=1 ./... > "$DST/suite-with-patch.log" 2>&1; s1=$?
grep -v "^ok\|no test files" "$DST/suite-with-patch.log" | head -5
d1=-; d0=-
if [ -n "$demo" ]; then
  cp "$demo" "$VT/$PKG/zz_demo_test.go"
  go test -vet=off -count=1 -run "$RUN" "./$PKG/" > "$DST/demo-with-patch.log" 2>&1; d1=$?
  git apply -R "$DST/patch.diff"
  go test -vet=off -count=1 -run "$RUN" "./$PKG/" > "$DST/demo-without-patch.log" 2>&1; d0=$?
fi
echo "$NAME: suite_with_patch_exit=$s1 (want 0) demo_with_patch_exit=$d1 (want !=0) demo_without_patch_exit=$d0 (want 0)"
