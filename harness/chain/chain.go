// Package chain is the scenario engine shared by the proof-chain properties C01-C05:
// a scenario describes an invocation and an ordered list of delegation descriptors; it is
// realised with real keys through go-ucan's public constructors (optionally sealed, packed
// in a container and read back, so that the container.Reader is the delegation.Loader),
// and judged by the reference predicates in this file, which are written from the property
// texts and never look at go-ucan's verdict.
package chain

import (
	"errors"
	"fmt"
	"math/rand/v2"
	"strings"
	"time"

	"github.com/ipfs/go-cid"

	"github.com/ucan-wg/go-ucan/did"
	"github.com/ucan-wg/go-ucan/pkg/args"
	"github.com/ucan-wg/go-ucan/pkg/command"
	"github.com/ucan-wg/go-ucan/pkg/container"
	"github.com/ucan-wg/go-ucan/pkg/policy"
	"github.com/ucan-wg/go-ucan/token/delegation"
	"github.com/ucan-wg/go-ucan/token/invocation"

	"verifharness/gen"
	"verifharness/ref"
)

// Link describes one delegation of the proof list (index 0 is next to the invoker).
type Link struct {
	Iss, Aud *gen.Principal
	Sub      *gen.Principal // nil: subject left undefined (powerline)
	Cmd      string
	Pol      ref.Policy
	Nbf, Exp *time.Duration // relative to the moment of construction; nil = absent
	// absolute bounds (used for instants further away than a time.Duration can express,
	// i.e. more than ~292 years); they take precedence over Nbf / Exp
	NbfAbs, ExpAbs *time.Time
	Missing        bool // CID listed in the proofs but absent from the loader
	LoadErr        bool // loader returns an unrelated error for it
	PolIPLD        bool // build the policy through policy.FromIPLD instead of the constructors
	// PolSpare: the policy handed to delegation.New is a slice with spare capacity (as one
	// assembled with append usually is), so an append on the library's side would write into
	// an array the delegation shares
	PolSpare bool
	// NonDlg: the proof CID at this position is the CID of a token that IS in the loader's
	// container but is not a delegation (an invocation sealed by Iss)
	NonDlg bool
	// ID / RepeatID: a link with RepeatID != 0 stands for the very same token - same object, same
	// sealed bytes, same CID - as the link whose ID is RepeatID (wherever that one is in the list
	// now; if it is gone, the link stands for itself)
	ID, RepeatID int
	// AliasCID: the proof list names this delegation by ANOTHER CID of the same bytes (same
	// multihash, raw codec instead of DAG-CBOR), which the loader does not know
	AliasCID bool
}

// Scenario is one invocation with its proof chain.
type Scenario struct {
	Invoker   *gen.Principal
	Subject   *gen.Principal
	Audience  *gen.Principal // nil = unset
	Cmd       string
	Args      ref.V // map
	Links     []Link
	InvExp    *time.Duration
	InvExpAbs *time.Time
	// authorization-irrelevant fields
	MetaPlain bool
	MetaEnc   bool
	NonceLen  int // 0 = default
	Cause     bool
	Iat       int // 0 default(now), 1 absent, 2 past, 3 future
	// ArgsMode: how the (same) arguments reach the constructor - 0: one WithArguments; 1: one
	// WithArgument per key; 2: the same WithArguments twice; 3: WithArgument for the first key,
	// then WithArguments with all of them (overlapping sources carry equal values)
	ArgsMode   int
	Wire       int // 0: constructor tokens + map loader; 1..4: sealed + container (cbor, car, cbor64, car64) reader as loader, invocation decoded from its sealed bytes
	Deviations []string
	// Reuse / ReuseN: take the first ReuseN delegations (the links next to the invoker) as built
	// for another scenario - the same token objects, sealed bytes and CIDs - instead of building
	// new ones: two chains that share their lower links
	Reuse  *Built
	ReuseN int
	// Reseal: every delegation is sealed once more after the store was filled (a read-only
	// operation; with a randomised signature scheme the second sealing has another CID)
	Reseal bool
}

// ---- reference predicates (R-chain) ---------------------------------------------------

// PrincipalsOK is the principal rule of C01. It returns the first violated rule.
func (s *Scenario) PrincipalsOK() (bool, string) {
	if len(s.Links) == 0 {
		return false, "empty"
	}
	links, _ := s.eff()
	for i, l := range links {
		if l.Missing || l.LoadErr || l.NonDlg || s.Links[i].AliasCID {
			return false, fmt.Sprintf("unloadable@%d", i)
		}
	}
	if links[0].Aud != s.Invoker {
		return false, "first-aud"
	}
	for i := 0; i+1 < len(links); i++ {
		if links[i].Iss != links[i+1].Aud {
			return false, fmt.Sprintf("link@%d", i)
		}
	}
	last := links[len(links)-1]
	if last.Sub == nil || last.Iss != last.Sub {
		return false, "root"
	}
	for i, l := range links {
		if l.Sub != s.Subject {
			return false, fmt.Sprintf("subject@%d", i)
		}
	}
	return true, ""
}

// eff returns the links as they are realised: a link with a RepeatID is the link it repeats.
// orig[i] is the index of the link position i stands for (i itself if it repeats nothing).
func (s *Scenario) eff() ([]Link, []int) {
	out := make([]Link, len(s.Links))
	orig := make([]int, len(s.Links))
	for i, l := range s.Links {
		out[i], orig[i] = l, i
		if l.RepeatID == 0 {
			continue
		}
		for j, o := range s.Links {
			if o.RepeatID == 0 && o.ID == l.RepeatID {
				out[i], orig[i] = o, j
				break
			}
		}
	}
	return out, orig
}

// CommandsOK is the command rule of C02.
func (s *Scenario) CommandsOK() (bool, string) {
	cur := s.Cmd
	links, _ := s.eff()
	for i, l := range links {
		if !ref.CmdCovers(l.Cmd, cur) {
			return false, fmt.Sprintf("cmd@%d", i)
		}
		cur = l.Cmd
	}
	return true, ""
}

// PoliciesOK evaluates every statement of every link on the arguments (C03).
func (s *Scenario) PoliciesOK(a ref.V) (ref.Tri, string) {
	res := ref.True
	where := ""
	links, _ := s.eff()
	for i, l := range links {
		for j, st := range l.Pol {
			t, _ := ref.Eval(st, a)
			if t == ref.Unresolved {
				return ref.Unresolved, fmt.Sprintf("pol@%d/%d", i, j)
			}
			if t == ref.False && res == ref.True {
				res = ref.False
				where = fmt.Sprintf("pol@%d/%d", i, j)
			}
		}
	}
	return res, where
}

// TimesOK: every bound is at a comfortable distance from "now" by construction, so the
// sign of the offset decides.
func (s *Scenario) TimesOK() (bool, string) {
	now := time.Now()
	if s.InvExpAbs != nil {
		if s.InvExpAbs.Before(now) {
			return false, "time@inv"
		}
	} else if s.InvExp != nil && *s.InvExp < 0 {
		return false, "time@inv"
	}
	links, _ := s.eff()
	for i, l := range links {
		if l.ExpAbs != nil {
			if l.ExpAbs.Before(now) {
				return false, fmt.Sprintf("time-exp@%d", i)
			}
		} else if l.Exp != nil && *l.Exp < 0 {
			return false, fmt.Sprintf("time-exp@%d", i)
		}
		if l.NbfAbs != nil {
			if l.NbfAbs.After(now) {
				return false, fmt.Sprintf("time-nbf@%d", i)
			}
		} else if l.Nbf != nil && *l.Nbf > 0 {
			return false, fmt.Sprintf("time-nbf@%d", i)
		}
	}
	return true, ""
}

// Conforming: the whole R-chain predicate.
func (s *Scenario) Conforming() (bool, string) {
	if ok, why := s.PrincipalsOK(); !ok {
		return false, why
	}
	if ok, why := s.CommandsOK(); !ok {
		return false, why
	}
	if ok, why := s.TimesOK(); !ok {
		return false, why
	}
	t, why := s.PoliciesOK(s.Args)
	if t != ref.True {
		return false, why
	}
	return true, ""
}

// ---- realisation --------------------------------------------------------------------------

// Built is a realised scenario.
type Built struct {
	Inv     *invocation.Token
	Loader  delegation.Loader
	Dlgs    []*delegation.Token
	Cids    []cid.Cid
	Sealed  [][]byte
	T0      time.Time // clock reading before the first constructor
	InvSeal []byte
	// Container / WireFmt: for wire scenarios, the container bytes the loader was read from
	Container []byte
	WireFmt   int
	// Plain: the store behind Loader without the injected loader errors
	Plain delegation.Loader
	ml      *MapLoader
	errs    map[cid.Cid]bool
}

type MapLoader struct {
	M    map[cid.Cid]*delegation.Token
	Errs map[cid.Cid]bool
}

var ErrLoaderIO = errors.New("loader: storage unavailable")

func (m *MapLoader) GetDelegation(c cid.Cid) (*delegation.Token, error) {
	if m.Errs[c] {
		return nil, ErrLoaderIO
	}
	t, ok := m.M[c]
	if !ok {
		return nil, delegation.ErrDelegationNotFound
	}
	return t, nil
}

// errLoader wraps a loader and fails for some CIDs.
type errLoader struct {
	inner delegation.Loader
	errs  map[cid.Cid]bool
}

func (e *errLoader) GetDelegation(c cid.Cid) (*delegation.Token, error) {
	if e.errs[c] {
		return nil, ErrLoaderIO
	}
	return e.inner.GetDelegation(c)
}

// BuildPolicy realises a reference policy.
func BuildPolicy(p ref.Policy, viaIPLD bool) (policy.Policy, error) {
	if viaIPLD {
		return gen.BuildPolicyIPLD(p)
	}
	return gen.BuildPolicy(p)
}

// BuildDelegation realises one link.
func BuildDelegation(l Link, r *rand.Rand) (*delegation.Token, error) {
	pol, err := BuildPolicy(l.Pol, l.PolIPLD)
	if err != nil {
		return nil, fmt.Errorf("policy: %w", err)
	}
	if l.PolSpare {
		roomy := make(policy.Policy, len(pol), len(pol)+8)
		copy(roomy, pol)
		pol = roomy
	}
	cmd, err := command.Parse(l.Cmd)
	if err != nil {
		return nil, fmt.Errorf("command: %w", err)
	}
	var opts []delegation.Option
	if l.Sub != nil {
		opts = append(opts, delegation.WithSubject(l.Sub.DID))
	}
	if l.ExpAbs != nil {
		opts = append(opts, delegation.WithExpiration(*l.ExpAbs))
	} else if l.Exp != nil {
		opts = append(opts, delegation.WithExpirationIn(*l.Exp))
	}
	if l.NbfAbs != nil {
		opts = append(opts, delegation.WithNotBefore(*l.NbfAbs))
	} else if l.Nbf != nil {
		opts = append(opts, delegation.WithNotBeforeIn(*l.Nbf))
	}
	opts = append(opts, delegation.WithNonce(gen.Bytes(r, 12+r.IntN(5))))
	return delegation.New(l.Iss.DID, l.Aud.DID, cmd, pol, opts...)
}

// ArgsFromV builds an args.Args from a reference map, inserting keys in the given order.
func ArgsFromV(m ref.V, order []int) (*args.Args, error) {
	a := args.New()
	if order == nil {
		for i := range m.M {
			order = append(order, i)
		}
	}
	for _, i := range order {
		if err := a.Add(m.M[i].K, m.M[i].V.Node()); err != nil {
			return nil, err
		}
	}
	return a, nil
}

// Build realises the scenario.
func (s *Scenario) Build(r *rand.Rand) (*Built, error) {
	b := &Built{T0: time.Now()}
	ml := &MapLoader{M: map[cid.Cid]*delegation.Token{}, Errs: map[cid.Cid]bool{}}
	errs := map[cid.Cid]bool{}
	wr := container.NewWriter()
	links, orig := s.eff()
	type madeTok struct {
		d      *delegation.Token
		sealed []byte
		c      cid.Cid
	}
	made := map[int]madeTok{}
	for i, l := range links {
		if l.NonDlg {
			// an invocation stands where a delegation is referenced
			cmd, err := command.Parse(l.Cmd)
			if err != nil {
				return nil, fmt.Errorf("link %d command: %w", i, err)
			}
			iv, err := invocation.New(l.Iss.DID, l.Iss.DID, cmd, nil)
			if err != nil {
				return nil, fmt.Errorf("link %d stand-in invocation: %w", i, err)
			}
			sealed, c, err := iv.ToSealed(l.Iss.Priv)
			if err != nil {
				return nil, fmt.Errorf("link %d stand-in seal: %w", i, err)
			}
			b.Cids = append(b.Cids, c)
			b.Sealed = append(b.Sealed, sealed)
			wr.AddSealed(c, sealed)
			continue
		}
		var d *delegation.Token
		var sealed []byte
		var c cid.Cid
		if t, ok := made[orig[i]]; ok {
			d, sealed, c = t.d, t.sealed, t.c
		} else if s.Reuse != nil && i < s.ReuseN && i < len(s.Reuse.Dlgs) && s.Reuse.Dlgs[i] != nil {
			d, sealed, c = s.Reuse.Dlgs[i], s.Reuse.Sealed[i], s.Reuse.Cids[i]
		} else {
			var err error
			d, err = BuildDelegation(l, r)
			if err != nil {
				return nil, fmt.Errorf("link %d: %w", i, err)
			}
			sealed, c, err = d.ToSealed(l.Iss.Priv)
			if err != nil {
				return nil, fmt.Errorf("link %d seal: %w", i, err)
			}
		}
		made[orig[i]] = madeTok{d, sealed, c}
		b.Dlgs = append(b.Dlgs, d)
		if s.Links[i].AliasCID {
			// the store keeps the token under its true CID; the proof list says something else
			ml.M[c] = d
			wr.AddSealed(c, sealed)
			b.Cids = append(b.Cids, cid.NewCidV1(cid.Raw, c.Hash()))
			b.Sealed = append(b.Sealed, sealed)
			continue
		}
		b.Cids = append(b.Cids, c)
		b.Sealed = append(b.Sealed, sealed)
		if l.Missing {
			continue
		}
		if l.LoadErr {
			errs[c] = true
			ml.Errs[c] = true
		}
		ml.M[c] = d
		wr.AddSealed(c, sealed)
	}
	b.ml = ml
	b.errs = errs
	b.Loader = ml
	b.Plain = &MapLoader{M: ml.M, Errs: map[cid.Cid]bool{}}
	if s.Wire > 0 {
		var data []byte
		var rd container.Reader
		var err error
		switch s.Wire {
		case 1:
			if data, err = wr.ToCbor(); err == nil {
				rd, err = container.FromCbor(data)
			}
		case 2:
			if data, err = wr.ToCar(); err == nil {
				rd, err = container.FromCar(data)
			}
		case 3:
			if data, err = wr.ToCborBase64(); err == nil {
				rd, err = container.FromCborBase64(data)
			}
		case 4:
			if data, err = wr.ToCarBase64(); err == nil {
				rd, err = container.FromCarBase64Reader(strings.NewReader(string(data)))
			}
		}
		if err != nil {
			return nil, fmt.Errorf("container wire=%d: %w", s.Wire, err)
		}
		b.Container, b.WireFmt = data, s.Wire
		b.Plain = rd
		if len(errs) > 0 {
			b.Loader = &errLoader{inner: rd, errs: errs}
		} else {
			b.Loader = rd
		}
	}
	if s.Reseal {
		for i, d := range b.Dlgs {
			if d != nil && i < len(links) && links[i].Iss != nil {
				_, _, _ = d.ToSealed(links[i].Iss.Priv)
			}
		}
	}
	inv, err := s.MakeInvocation(b, s.Audience, r)
	if err != nil {
		return nil, err
	}
	b.Inv = inv
	return b, nil
}

// ReadContainer reads a wire scenario's container bytes afresh.
func ReadContainer(data []byte, format int) (container.Reader, error) {
	switch format {
	case 1:
		return container.FromCbor(data)
	case 2:
		return container.FromCar(data)
	case 3:
		return container.FromCborBase64(data)
	}
	return container.FromCarBase64Reader(strings.NewReader(string(data)))
}

// MakeInvocation builds (and for wire scenarios seals and decodes) the invocation of a
// built chain, with the given audience.
func (s *Scenario) MakeInvocation(b *Built, audience *gen.Principal, r *rand.Rand) (*invocation.Token, error) {
	cmd, err := command.Parse(s.Cmd)
	if err != nil {
		return nil, err
	}
	var order []int
	for i := range s.Args.M {
		order = append(order, i)
	}
	r.Shuffle(len(order), func(i, j int) { order[i], order[j] = order[j], order[i] })
	a, err := ArgsFromV(s.Args, order)
	if err != nil {
		return nil, fmt.Errorf("args: %w", err)
	}
	var opts []invocation.Option
	switch s.ArgsMode {
	case 1:
		for _, i := range order {
			opts = append(opts, invocation.WithArgument(s.Args.M[i].K, s.Args.M[i].V.Node()))
		}
	case 2:
		opts = append(opts, invocation.WithArguments(a), invocation.WithArguments(a))
	case 3:
		if len(order) > 0 {
			opts = append(opts, invocation.WithArgument(s.Args.M[order[0]].K, s.Args.M[order[0]].V.Node()))
		}
		opts = append(opts, invocation.WithArguments(a))
	default:
		opts = append(opts, invocation.WithArguments(a))
	}
	if audience != nil {
		opts = append(opts, invocation.WithAudience(audience.DID))
	}
	if s.InvExpAbs != nil {
		opts = append(opts, invocation.WithExpiration(*s.InvExpAbs))
	} else if s.InvExp != nil {
		opts = append(opts, invocation.WithExpirationIn(*s.InvExp))
	}
	if s.MetaPlain {
		opts = append(opts, invocation.WithMeta("note", "irrelevant"), invocation.WithMeta("n", 7))
	}
	if s.MetaEnc {
		opts = append(opts, invocation.WithEncryptedMetaString("secret", "hidden value", gen.Bytes(r, 32)))
	}
	if s.NonceLen > 0 {
		opts = append(opts, invocation.WithNonce(gen.Bytes(r, s.NonceLen)))
	}
	if s.Cause && len(b.Cids) > 0 {
		c := b.Cids[0]
		opts = append(opts, invocation.WithCause(&c))
	}
	switch s.Iat {
	case 1:
		opts = append(opts, invocation.WithoutInvokedAt())
	case 2:
		opts = append(opts, invocation.WithInvokedAtIn(-48*time.Hour))
	case 3:
		opts = append(opts, invocation.WithInvokedAtIn(48*time.Hour))
	}
	inv, err := invocation.New(s.Invoker.DID, s.Subject.DID, cmd, b.Cids, opts...)
	if err != nil {
		return nil, fmt.Errorf("invocation: %w", err)
	}
	if s.Wire > 0 {
		sealed, _, err := inv.ToSealed(s.Invoker.Priv)
		if err != nil {
			return nil, fmt.Errorf("invocation seal: %w", err)
		}
		b.InvSeal = sealed
		dec, _, err := invocation.FromSealed(sealed)
		if err != nil {
			return nil, fmt.Errorf("invocation unseal: %w", err)
		}
		return dec, nil
	}
	return inv, nil
}

// ---- description (for samples, replay files and distinct keys) -----------------------------

func pname(p *gen.Principal) string {
	if p == nil {
		return "-"
	}
	return p.Name
}

func absT(t *time.Time) string {
	if t == nil {
		return "-"
	}
	return fmt.Sprintf("unix %d", t.Unix())
}

// FarFuture / FarPast: instants more than 292 years (the range of time.Duration and of a
// difference of UnixNano values) away from any plausible "now", inside the range tokens accept.
var FarFuture = []time.Time{time.Date(2330, 1, 1, 0, 0, 0, 0, time.UTC), time.Date(3000, 6, 1, 12, 0, 0, 0, time.UTC), time.Date(9999, 12, 31, 23, 59, 59, 0, time.UTC), time.Unix(1<<53-1, 0)}
var FarPast = []time.Time{time.Date(1700, 1, 1, 0, 0, 0, 0, time.UTC), time.Date(1, 1, 1, 0, 0, 0, 0, time.UTC), time.Unix(-(1<<53 - 1), 0), time.Unix(0, 0)}

func T(t time.Time) *time.Time { return &t }

func dur(d *time.Duration) string {
	if d == nil {
		return "-"
	}
	return d.String()
}

// Describe renders the scenario in full.
func (s *Scenario) Describe() map[string]any {
	links := []any{}
	eff, orig := s.eff()
	for i, l := range eff {
		m := map[string]any{
			"iss": pname(l.Iss), "aud": pname(l.Aud), "sub": pname(l.Sub), "cmd": l.Cmd, "pol": l.Pol.String(),
			"nbf": dur(l.Nbf), "exp": dur(l.Exp), "missing": l.Missing, "loaderr": l.LoadErr, "not_a_delegation": l.NonDlg,
		}
		if orig[i] != i {
			m["same_token_as_position"] = orig[i]
		}
		links = append(links, m)
	}
	return map[string]any{
		"invoker": pname(s.Invoker), "subject": pname(s.Subject), "audience": pname(s.Audience), "cmd": s.Cmd,
		"args": s.Args.String(), "proofs_leaf_to_root": links, "inv_exp": dur(s.InvExp), "wire": s.Wire,
		"meta_plain": s.MetaPlain, "meta_enc": s.MetaEnc, "nonce_len": s.NonceLen, "cause": s.Cause, "iat": s.Iat, "args_mode": s.ArgsMode,
		"deviations": s.Deviations,
	}
}

// Pattern is the normalised principal pattern (principals renamed in order of appearance),
// used as the distinct-case key.
func (s *Scenario) Pattern() string {
	names := map[*gen.Principal]string{}
	nm := func(p *gen.Principal) string {
		if p == nil {
			return "-"
		}
		if n, ok := names[p]; ok {
			return n
		}
		n := string(rune('A' + len(names)))
		names[p] = n
		return n
	}
	var b strings.Builder
	fmt.Fprintf(&b, "inv=%s sub=%s aud=%s", nm(s.Invoker), nm(s.Subject), nm(s.Audience))
	eff, orig := s.eff()
	for i, l := range eff {
		fmt.Fprintf(&b, " [%s>%s/%s", nm(l.Iss), nm(l.Aud), nm(l.Sub))
		if orig[i] != i {
			fmt.Fprintf(&b, " =#%d", orig[i])
		}
		if l.Missing {
			b.WriteString(" missing")
		}
		if l.LoadErr {
			b.WriteString(" loaderr")
		}
		if l.NonDlg {
			b.WriteString(" non-delegation")
		}
		b.WriteString("]")
	}
	return b.String()
}

// ---- construction helpers --------------------------------------------------------------------

// Conformant draws a rule-conforming chain of n links over the given principals:
// principals[0] is the subject (root issuer), then intermediaries, the invoker is the last
// audience. Repeats are allowed (self-delegation, repeated principals).
func Conformant(r *rand.Rand, n int, poolPct int) *Scenario {
	// principals along the chain from root to invoker: p[0]=subject, p[n]=invoker
	ps := make([]*gen.Principal, n+1)
	for i := range ps {
		switch {
		case i > 0 && r.IntN(6) == 0:
			ps[i] = ps[r.IntN(i)] // repeated principal (incl. self-delegation)
		default:
			ps[i] = gen.PickPrincipal(r, poolPct)
		}
	}
	s := &Scenario{Subject: ps[0], Invoker: ps[n], Cmd: "/a/b/c", Args: ref.Map()}
	// links listed leaf first: link k delegates ps[n-1-k] -> ps[n-k]
	for k := 0; k < n; k++ {
		s.Links = append(s.Links, Link{Iss: ps[n-1-k], Aud: ps[n-k], Sub: ps[0], Cmd: "/a/b/c"})
	}
	return s
}

// DID helper
func DIDOf(p *gen.Principal) did.DID {
	if p == nil {
		return did.Undef
	}
	return p.DID
}

var cmdSegs = []string{"a", "b", "c", "ab", "crud", "read", "x-y"}

// DescendingCommands draws n+1 commands: [0] the invoked one, then the links leaf to root,
// each covering the previous one (equal allowed).
func DescendingCommands(r *rand.Rand, n int) []string {
	depth := r.IntN(6)
	segs := make([]string, depth)
	for i := range segs {
		segs[i] = cmdSegs[r.IntN(len(cmdSegs))]
	}
	out := make([]string, n+1)
	for k := 0; k <= n; k++ {
		out[k] = ref.CmdFromSegments(segs)
		if len(segs) > 0 && r.IntN(3) == 0 {
			segs = segs[:len(segs)-(1+r.IntN(len(segs)))]
		}
	}
	return out
}

var comfortable = []time.Duration{time.Hour, 24 * time.Hour, 30 * 24 * time.Hour, 10 * 365 * 24 * time.Hour}

func D(d time.Duration) *time.Duration { return &d }

// FullConformant draws a chain that satisfies every delegation rule, with commands that
// attenuate, satisfiable policies of every statement kind over generated arguments,
// comfortable or absent time windows and arbitrary authorization-irrelevant fields.
func FullConformant(r *rand.Rand, n int, poolPct int) *Scenario {
	s := Conformant(r, n, poolPct)
	cmds := DescendingCommands(r, n)
	s.Cmd = cmds[0]
	for k := range s.Links {
		s.Links[k].Cmd = cmds[k+1]
	}
	s.Args = gen.ArgsMap(r)
	var paths []gen.Path
	gen.Paths(s.Args, nil, &paths, 3)
	// places addressed relative to the end or by an open slice: what they select depends on
	// the length of the value
	paths = append(paths, gen.RelPaths(r, s.Args, paths, 6)...)
	for k := range s.Links {
		ns := 0
		switch r.IntN(4) {
		case 0:
			ns = 0
		case 1, 2:
			ns = 1 + r.IntN(2)
		default:
			ns = 1 + r.IntN(4)
		}
		for j := 0; j < ns; j++ {
			if st, ok := gen.StmtWithTruth(r, s.Args, paths, 2, true); ok {
				s.Links[k].Pol = append(s.Links[k].Pol, st)
			}
		}
		s.Links[k].PolIPLD = r.IntN(3) == 0
		s.Links[k].PolSpare = r.IntN(3) == 0
		if r.IntN(2) == 0 {
			s.Links[k].Exp = D(comfortable[r.IntN(len(comfortable))])
		}
		if r.IntN(3) == 0 {
			s.Links[k].Nbf = D(-comfortable[r.IntN(len(comfortable))])
		} else if r.IntN(5) == 0 {
			// active since a moment ago: the bound (with its sub-second part) lies before any clock
			// reading taken after construction
			s.Links[k].Nbf = D(-time.Duration(r.IntN(400)) * time.Millisecond)
		}
		if r.IntN(6) == 0 {
			s.Links[k].ExpAbs = T(FarFuture[r.IntN(len(FarFuture))])
		}
	}
	if r.IntN(2) == 0 {
		s.InvExp = D(comfortable[r.IntN(len(comfortable))])
	}
	if r.IntN(8) == 0 {
		s.InvExpAbs = T(FarFuture[r.IntN(len(FarFuture))])
	}
	s.MetaPlain = r.IntN(3) == 0
	s.MetaEnc = r.IntN(4) == 0
	if r.IntN(3) == 0 {
		s.NonceLen = 12 + r.IntN(53)
	}
	s.Cause = r.IntN(4) == 0
	s.Iat = r.IntN(4)
	s.Wire = r.IntN(5)
	s.ArgsMode = r.IntN(4)
	s.Reseal = r.IntN(3) == 0
	return s
}
