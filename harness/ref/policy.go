package ref

import (
	"math"
	"strings"
)

// Stmt is a policy statement of the reference AST.
type Stmt struct {
	Kind string // == < <= > >= like not and or all any
	Sel  Sel    // comparison, like, all, any
	Val  V      // comparison
	Pat  string // like
	Subs []Stmt // not (1), and/or (n), all/any (1)
}

type Policy []Stmt

var CmpKinds = []string{"==", "<", "<=", ">", ">="}
var AllKinds = []string{"==", "<", "<=", ">", ">=", "like", "not", "and", "or", "all", "any"}

// Tri is the verdict of the classical reading.
type Tri int

const (
	False Tri = iota
	True
	// Unresolved: some selector (anywhere, no short-circuit) did not produce a value, or
	// the case is one the property leaves open.
	Unresolved
)

func (t Tri) String() string { return [...]string{"false", "true", "unresolved"}[t] }

// Why an evaluation is unresolved (worst reason seen).
type Why int

const (
	WNone        Why = iota
	WOptional        // an optional selector yielded no value
	WMissing         // a non-optional selector failed
	WUnspecified     // outside what the property pins (NaN, empty or, non-list quantifier target, ...)
)

// Eval evaluates one statement classically: every operand is evaluated (no short-circuit).
func Eval(s Stmt, d V) (Tri, Why) {
	switch s.Kind {
	case "==", "<", "<=", ">", ">=", "like":
		o, v := Select(s.Sel, d)
		switch o {
		case OError:
			return Unresolved, WMissing
		case ONoValue:
			return Unresolved, WOptional
		case OUnspec:
			return Unresolved, WUnspecified
		}
		switch s.Kind {
		case "==":
			if hasNaN(s.Val) || hasNaN(v) {
				// NaN equals nothing, itself included (IEEE 754, Go's ==): whichever side holds one -
				// alone or inside a list or map - the two values are not equal
				return False, WNone
			}
			if hasUint(s.Val) || hasUint(v) {
				// an integer above MaxInt64 next to a value of another scalar kind or another
				// integer value is certainly different; anything else with such integers is left open
				a, b := s.Val, v
				scalar := func(x V) bool { return x.K != KList && x.K != KMap }
				if scalar(a) && scalar(b) && !(a.K == KUint && b.K == KUint && a.U == b.U) {
					return False, WNone
				}
				return Unresolved, WUnspecified
			}
			return b2t(Equal(s.Val, v)), WNone
		case "like":
			if v.K != KString {
				return False, WNone
			}
			ok, valid := GlobMatch(s.Pat, v.S)
			if !valid {
				return Unresolved, WUnspecified
			}
			return b2t(ok), WNone
		default:
			// numbers of the same kind only
			if s.Val.K == KInt && v.K == KInt {
				return b2t(cmpOK(s.Kind, cmpInt(v.I, s.Val.I))), WNone
			}
			if s.Val.K == KFloat && v.K == KFloat {
				if math.IsNaN(v.F) || math.IsNaN(s.Val.F) {
					// no ordering holds with NaN, under the classical reading as well as under the
					// implementation's documented one (non-finite operands never satisfy an ordering)
					return False, WNone
				}
				if math.IsInf(v.F, 0) || math.IsInf(s.Val.F, 0) {
					return Unresolved, WUnspecified // classical: ordered; documented choice: false
				}
				return b2t(cmpOK(s.Kind, cmpFloat(v.F, s.Val.F))), WNone
			}
			if s.Val.K == KUint || v.K == KUint {
				// one operand above MaxInt64, the other an ordinary integer: the classical order is
				// known; the implementation's documented reading (out-of-range integers satisfy no
				// ordering) agrees with it exactly where the classical answer is "false"
				if v.K == KUint && s.Val.K == KInt { // datum is the larger one
					if s.Kind == "<" || s.Kind == "<=" {
						return False, WNone
					}
				}
				if s.Val.K == KUint && v.K == KInt { // datum is the smaller one
					if s.Kind == ">" || s.Kind == ">=" {
						return False, WNone
					}
				}
				if (v.K == KUint && s.Val.K != KInt && s.Val.K != KUint) || (s.Val.K == KUint && v.K != KInt && v.K != KUint) {
					return False, WNone // other kinds never order
				}
				return Unresolved, WUnspecified
			}
			return False, WNone
		}
	case "not":
		t, w := Eval(s.Subs[0], d)
		if t == Unresolved {
			return t, w
		}
		return b2t(t == False), WNone
	case "and", "or":
		if s.Kind == "or" && len(s.Subs) == 0 {
			return Unresolved, WUnspecified
		}
		res := s.Kind == "and"
		worst := WNone
		for _, c := range s.Subs {
			t, w := Eval(c, d)
			if t == Unresolved {
				if w > worst {
					worst = w
				}
				continue
			}
			if s.Kind == "and" {
				res = res && t == True
			} else {
				res = res || t == True
			}
		}
		if worst != WNone {
			return Unresolved, worst
		}
		return b2t(res), WNone
	case "all", "any":
		o, v := Select(s.Sel, d)
		switch o {
		case OError:
			return Unresolved, WMissing
		case ONoValue:
			return Unresolved, WOptional
		case OUnspec:
			return Unresolved, WUnspecified
		}
		if v.K != KList {
			return Unresolved, WUnspecified
		}
		res := s.Kind == "all"
		worst := WNone
		for _, e := range v.L {
			t, w := Eval(s.Subs[0], e)
			if t == Unresolved {
				if w > worst {
					worst = w
				}
				continue
			}
			if s.Kind == "all" {
				res = res && t == True
			} else {
				res = res || t == True
			}
		}
		if worst != WNone {
			return Unresolved, worst
		}
		return b2t(res), WNone
	}
	panic("bad statement kind " + s.Kind)
}

// EvalPolicy is the conjunction of the statements.
func EvalPolicy(p Policy, d V) (Tri, Why) {
	res := true
	worst := WNone
	for _, s := range p {
		t, w := Eval(s, d)
		if t == Unresolved {
			if w > worst {
				worst = w
			}
			continue
		}
		res = res && t == True
	}
	if worst != WNone {
		return Unresolved, worst
	}
	return b2t(res), WNone
}

func b2t(b bool) Tri {
	if b {
		return True
	}
	return False
}

func cmpInt(a, b int64) int {
	switch {
	case a < b:
		return -1
	case a > b:
		return 1
	}
	return 0
}

func cmpFloat(a, b float64) int {
	switch {
	case a < b:
		return -1
	case a > b:
		return 1
	}
	return 0
}

func cmpOK(kind string, c int) bool {
	switch kind {
	case "<":
		return c < 0
	case "<=":
		return c <= 0
	case ">":
		return c > 0
	case ">=":
		return c >= 0
	}
	panic("bad cmp")
}

func hasNaN(v V) bool {
	switch v.K {
	case KFloat:
		return math.IsNaN(v.F)
	case KList:
		for _, e := range v.L {
			if hasNaN(e) {
				return true
			}
		}
	case KMap:
		for _, e := range v.M {
			if hasNaN(e.V) {
				return true
			}
		}
	}
	return false
}

func hasUint(v V) bool {
	switch v.K {
	case KUint:
		return true
	case KList:
		for _, e := range v.L {
			if hasUint(e) {
				return true
			}
		}
	case KMap:
		for _, e := range v.M {
			if hasUint(e.V) {
				return true
			}
		}
	}
	return false
}

// SameKeyOrder tells whether two values that are Equal-candidates list the keys of every
// pair of corresponding maps in the same order. Equality of maps whose entries are stored
// in different orders is left open (the data model says maps are unordered, the wire
// format orders them; the oracle does not judge that corner).
func SameKeyOrder(a, b V) bool {
	if a.K != b.K {
		return true
	}
	switch a.K {
	case KList:
		if len(a.L) != len(b.L) {
			return true
		}
		for i := range a.L {
			if !SameKeyOrder(a.L[i], b.L[i]) {
				return false
			}
		}
	case KMap:
		if len(a.M) != len(b.M) {
			return true
		}
		same := true
		for i := range a.M {
			if a.M[i].K != b.M[i].K {
				same = false
			}
		}
		if !same {
			// only matters if they hold the same key set
			for _, e := range a.M {
				if _, ok := b.Get(e.K); !ok {
					return true
				}
			}
			return false
		}
		for i := range a.M {
			if !SameKeyOrder(a.M[i].V, b.M[i].V) {
				return false
			}
		}
	}
	return true
}

// GlobMatch is the reference glob: unescaped * = any sequence, \x = literal x, anything
// else stands for itself. valid=false for a pattern ending in a lone backslash.
func GlobMatch(pat, s string) (match bool, valid bool) {
	type tok struct {
		star bool
		c    byte
	}
	var toks []tok
	for i := 0; i < len(pat); i++ {
		switch pat[i] {
		case '*':
			toks = append(toks, tok{star: true})
		case '\\':
			if i+1 >= len(pat) {
				return false, false
			}
			i++
			toks = append(toks, tok{c: pat[i]})
		default:
			toks = append(toks, tok{c: pat[i]})
		}
	}
	// dp[j]: toks[:i] matches s[:j]
	dp := make([]bool, len(s)+1)
	dp[0] = true
	for _, t := range toks {
		nd := make([]bool, len(s)+1)
		if t.star {
			acc := false
			for j := 0; j <= len(s); j++ {
				acc = acc || dp[j]
				nd[j] = acc
			}
		} else {
			for j := 1; j <= len(s); j++ {
				nd[j] = dp[j-1] && s[j-1] == t.c
			}
		}
		dp = nd
	}
	return dp[len(s)], true
}

// GlobValid tells whether a pattern is well-formed (does not end in a lone backslash).
func GlobValid(pat string) bool {
	_, v := GlobMatch(pat, "")
	return v
}

// ToV renders a statement in its IPLD list form.
func (s Stmt) ToV() V {
	switch s.Kind {
	case "==", "<", "<=", ">", ">=":
		return List(Str(s.Kind), Str(s.Sel.Text()), s.Val)
	case "like":
		return List(Str(s.Kind), Str(s.Sel.Text()), Str(s.Pat))
	case "not":
		return List(Str(s.Kind), s.Subs[0].ToV())
	case "and", "or":
		l := V{K: KList, L: []V{}}
		for _, c := range s.Subs {
			l.L = append(l.L, c.ToV())
		}
		return List(Str(s.Kind), l)
	case "all", "any":
		return List(Str(s.Kind), Str(s.Sel.Text()), s.Subs[0].ToV())
	}
	panic("bad kind")
}

func (p Policy) ToV() V {
	l := V{K: KList, L: []V{}}
	for _, s := range p {
		l.L = append(l.L, s.ToV())
	}
	return l
}

func (s Stmt) String() string   { return s.ToV().String() }
func (p Policy) String() string { return p.ToV().String() }

// Kinds lists the statement kinds occurring in a policy (for coverage keys).
func (p Policy) Kinds() string {
	seen := map[string]bool{}
	var walk func(s Stmt)
	walk = func(s Stmt) {
		seen[s.Kind] = true
		for _, c := range s.Subs {
			walk(c)
		}
	}
	for _, s := range p {
		walk(s)
	}
	var out []string
	for _, k := range AllKinds {
		if seen[k] {
			out = append(out, k)
		}
	}
	return strings.Join(out, ",")
}

// EvalK is the strong (Kleene) three-valued reading: a false operand makes a conjunction
// (and / all / a policy) false and a true operand makes a disjunction (or / any) true
// whatever the other operands are; otherwise unresolved operands leave it unresolved. It is
// what order-independence plus "adding an operand to an and (an element under all) never
// turns a failing match into a passing one" imply for the failing side, and is used where a
// workload goes beyond the fragment in which every selector resolves.
func EvalK(s Stmt, d V) Tri {
	switch s.Kind {
	case "not":
		t := EvalK(s.Subs[0], d)
		if t == Unresolved {
			return t
		}
		return b2t(t == False)
	case "and", "or":
		if s.Kind == "or" && len(s.Subs) == 0 {
			return Unresolved
		}
		unres := false
		for _, c := range s.Subs {
			t := EvalK(c, d)
			switch {
			case t == Unresolved:
				unres = true
			case s.Kind == "and" && t == False:
				return False
			case s.Kind == "or" && t == True:
				return True
			}
		}
		if unres {
			return Unresolved
		}
		return b2t(s.Kind == "and")
	case "all", "any":
		o, v := Select(s.Sel, d)
		if o != OValue || v.K != KList {
			return Unresolved
		}
		unres := false
		for _, e := range v.L {
			t := EvalK(s.Subs[0], e)
			switch {
			case t == Unresolved:
				unres = true
			case s.Kind == "all" && t == False:
				return False
			case s.Kind == "any" && t == True:
				return True
			}
		}
		if unres {
			return Unresolved
		}
		return b2t(s.Kind == "all")
	}
	t, _ := Eval(s, d)
	return t
}
