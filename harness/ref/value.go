// Package ref holds the reference models the monitors compare go-ucan against. They are
// written from the property texts / the UCAN specification, not from the go-ucan sources,
// and work on their own value tree so that no go-ucan code is on the oracle side.
package ref

import (
	"fmt"
	"math"
	"sort"
	"strconv"
	"strings"

	"github.com/ipfs/go-cid"
	"github.com/ipld/go-ipld-prime/datamodel"
	"github.com/ipld/go-ipld-prime/fluent/qp"
	cidlink "github.com/ipld/go-ipld-prime/linking/cid"
	"github.com/ipld/go-ipld-prime/node/basicnode"
)

type Kind int

const (
	KNull Kind = iota
	KBool
	KInt
	KUint // integer above MaxInt64 (only reachable through CBOR)
	KFloat
	KString
	KBytes
	KList
	KMap
	KLink
)

var kindNames = [...]string{"null", "bool", "int", "uint", "float", "string", "bytes", "list", "map", "link"}

func (k Kind) String() string { return kindNames[k] }

// V is a value of the IPLD data model.
type V struct {
	K Kind
	B bool
	I int64
	U uint64
	F float64
	S string
	Y []byte
	L []V
	M []KV // in insertion order
	C cid.Cid
}

type KV struct {
	K string
	V V
}

func Null() V              { return V{K: KNull} }
func Bool(b bool) V        { return V{K: KBool, B: b} }
func Int(i int64) V        { return V{K: KInt, I: i} }
func Uint(u uint64) V      { return V{K: KUint, U: u} }
func Float(f float64) V    { return V{K: KFloat, F: f} }
func Str(s string) V       { return V{K: KString, S: s} }
func Bytes(b []byte) V     { return V{K: KBytes, Y: b} }
func List(l ...V) V        { return V{K: KList, L: l} }
func Link(c cid.Cid) V     { return V{K: KLink, C: c} }
func Map(kv ...KV) V       { return V{K: KMap, M: kv} }
func E(k string, v V) KV   { return KV{k, v} }
func (v V) IsNumber() bool { return v.K == KInt || v.K == KFloat || v.K == KUint }

// Get returns the value under a map key.
func (v V) Get(k string) (V, bool) {
	for _, e := range v.M {
		if e.K == k {
			return e.V, true
		}
	}
	return V{}, false
}

// SortedMap returns the map with keys in plain lexicographic order.
func (v V) SortedMap() V {
	m := append([]KV(nil), v.M...)
	sort.SliceStable(m, func(i, j int) bool { return m[i].K < m[j].K })
	return V{K: KMap, M: m}
}

// Node renders the value as a go-ipld-prime basicnode tree (map order preserved).
func (v V) Node() datamodel.Node {
	n, err := qp.BuildList(basicnode.Prototype.Any, 1, func(la datamodel.ListAssembler) {
		qp.ListEntry(la, v.assemble())
	})
	if err != nil {
		panic(fmt.Sprintf("ref.V.Node: %v", err))
	}
	r, _ := n.LookupByIndex(0)
	return r
}

func (v V) assemble() qp.Assemble {
	switch v.K {
	case KNull:
		return qp.Null()
	case KBool:
		return qp.Bool(v.B)
	case KInt:
		return qp.Int(v.I)
	case KUint:
		return qp.Node(basicnode.NewUint(v.U))
	case KFloat:
		return qp.Float(v.F)
	case KString:
		return qp.String(v.S)
	case KBytes:
		return qp.Bytes(v.Y)
	case KLink:
		return qp.Link(cidlink.Link{Cid: v.C})
	case KList:
		return qp.List(int64(len(v.L)), func(la datamodel.ListAssembler) {
			for _, e := range v.L {
				qp.ListEntry(la, e.assemble())
			}
		})
	case KMap:
		return qp.Map(int64(len(v.M)), func(ma datamodel.MapAssembler) {
			for _, e := range v.M {
				qp.MapEntry(ma, e.K, e.V.assemble())
			}
		})
	}
	panic("bad kind")
}

// FromNode converts an IPLD node to a V.
func FromNode(n datamodel.Node) (V, error) {
	if n == nil {
		return V{}, fmt.Errorf("nil node")
	}
	switch n.Kind() {
	case datamodel.Kind_Null:
		return Null(), nil
	case datamodel.Kind_Bool:
		b, err := n.AsBool()
		return Bool(b), err
	case datamodel.Kind_Int:
		if un, ok := n.(datamodel.UintNode); ok {
			u, err := un.AsUint()
			if err == nil && u > math.MaxInt64 {
				return Uint(u), nil
			}
		}
		i, err := n.AsInt()
		return Int(i), err
	case datamodel.Kind_Float:
		f, err := n.AsFloat()
		return Float(f), err
	case datamodel.Kind_String:
		s, err := n.AsString()
		return Str(s), err
	case datamodel.Kind_Bytes:
		b, err := n.AsBytes()
		return Bytes(append([]byte(nil), b...)), err
	case datamodel.Kind_Link:
		l, err := n.AsLink()
		if err != nil {
			return V{}, err
		}
		cl, ok := l.(cidlink.Link)
		if !ok {
			return V{}, fmt.Errorf("unknown link type %T", l)
		}
		return Link(cl.Cid), nil
	case datamodel.Kind_List:
		out := V{K: KList, L: []V{}}
		it := n.ListIterator()
		for !it.Done() {
			_, e, err := it.Next()
			if err != nil {
				return V{}, err
			}
			ev, err := FromNode(e)
			if err != nil {
				return V{}, err
			}
			out.L = append(out.L, ev)
		}
		return out, nil
	case datamodel.Kind_Map:
		out := V{K: KMap, M: []KV{}}
		it := n.MapIterator()
		for !it.Done() {
			k, e, err := it.Next()
			if err != nil {
				return V{}, err
			}
			ks, err := k.AsString()
			if err != nil {
				return V{}, err
			}
			ev, err := FromNode(e)
			if err != nil {
				return V{}, err
			}
			out.M = append(out.M, KV{ks, ev})
		}
		return out, nil
	}
	return V{}, fmt.Errorf("invalid kind %v", n.Kind())
}

// Equal is equality in the IPLD data model: same kind, same content; maps compare as
// unordered sets of entries; floats compare by ==, except that two NaN are equal as
// *data* when bitsNaN is set (used by round-trip oracles, not by the policy model).
func Equal(a, b V) bool { return equal(a, b, false) }

// SameData is Equal but treats NaN as equal to NaN.
func SameData(a, b V) bool { return equal(a, b, true) }

func equal(a, b V, nanEq bool) bool {
	if a.K != b.K {
		return false
	}
	switch a.K {
	case KNull:
		return true
	case KBool:
		return a.B == b.B
	case KInt:
		return a.I == b.I
	case KUint:
		return a.U == b.U
	case KFloat:
		if nanEq && math.IsNaN(a.F) && math.IsNaN(b.F) {
			return true
		}
		return a.F == b.F
	case KString:
		return a.S == b.S
	case KBytes:
		return string(a.Y) == string(b.Y)
	case KLink:
		return a.C.Equals(b.C)
	case KList:
		if len(a.L) != len(b.L) {
			return false
		}
		for i := range a.L {
			if !equal(a.L[i], b.L[i], nanEq) {
				return false
			}
		}
		return true
	case KMap:
		if len(a.M) != len(b.M) {
			return false
		}
		for _, e := range a.M {
			o, ok := b.Get(e.K)
			if !ok || !equal(e.V, o, nanEq) {
				return false
			}
		}
		return true
	}
	return false
}

// String is a compact diagnostic notation.
func (v V) String() string {
	var b strings.Builder
	v.write(&b)
	return b.String()
}

func (v V) write(b *strings.Builder) {
	switch v.K {
	case KNull:
		b.WriteString("null")
	case KBool:
		b.WriteString(strconv.FormatBool(v.B))
	case KInt:
		b.WriteString(strconv.FormatInt(v.I, 10))
	case KUint:
		b.WriteString(strconv.FormatUint(v.U, 10))
		b.WriteString("u")
	case KFloat:
		s := strconv.FormatFloat(v.F, 'g', -1, 64)
		if !strings.ContainsAny(s, ".eIN") {
			s += ".0"
		}
		b.WriteString(s)
	case KString:
		b.WriteString(strconv.Quote(v.S))
	case KBytes:
		fmt.Fprintf(b, "h'%x'", v.Y)
	case KLink:
		fmt.Fprintf(b, "link(%s)", v.C)
	case KList:
		b.WriteByte('[')
		for i, e := range v.L {
			if i > 0 {
				b.WriteByte(',')
			}
			e.write(b)
		}
		b.WriteByte(']')
	case KMap:
		b.WriteByte('{')
		for i, e := range v.M {
			if i > 0 {
				b.WriteByte(',')
			}
			b.WriteString(strconv.Quote(e.K))
			b.WriteByte(':')
			e.V.write(b)
		}
		b.WriteByte('}')
	}
}

// Depth of nesting.
func (v V) Depth() int {
	d := 0
	for _, e := range v.L {
		if x := e.Depth(); x > d {
			d = x
		}
	}
	for _, e := range v.M {
		if x := e.V.Depth(); x > d {
			d = x
		}
	}
	return d + 1
}

// MaxSafe is 2^53-1, the largest integer UCAN allows.
const MaxSafe = int64(1)<<53 - 1
