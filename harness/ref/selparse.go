package ref

import (
	"strconv"
	"strings"
	"unicode"
	"unicode/utf8"
)

// ParseSel is an independent recursive-descent parser of the selector grammar:
//
//	selector := "." | ".?" | segment+
//	segment  := ( "." | "." name | bracket ) "?"*
//	bracket  := "[]" | "[" int "]" | "[" int? ":" int? "]" (at least one bound) | "[\"" raw "\"]"
//	name     := (letter | "_") (letter | digit | "$" | "_" | "-")*
//
// Two identity segments in a row ("..", i.e. recursive descent) are rejected. The text
// between the outer quotes of a quoted field is taken raw; ok=false also for texts with a
// quote or backslash inside a quoted name (those are outside what this model judges:
// decided=false).
func ParseSel(s string) (sel Sel, ok bool, decided bool) {
	if s == "" || s[0] != '.' {
		return nil, false, true
	}
	if strings.ContainsRune(s, '\\') {
		return nil, false, false
	}
	i := 0
	n := len(s)
	lastIdentity := false
	for i < n {
		var g Seg
		switch s[i] {
		case '.':
			// name?
			j := i + 1
			for j < n {
				r, size := rune(s[j]), 1
				if r >= 0x80 {
					rr, sz := decodeRune(s[j:])
					r, size = rr, sz
				}
				first := j == i+1
				if isNameRune(r, first) {
					j += size
					continue
				}
				break
			}
			if j == i+1 {
				g = Seg{Kind: SIdentity}
			} else {
				g = Seg{Kind: SField, Name: s[i+1 : j]}
			}
			i = j
		case '[':
			if i+1 < n && s[i+1] == '"' {
				// quoted field: raw text up to the closing "]
				end := strings.Index(s[i+2:], `"]`)
				if end < 0 {
					return nil, false, true
				}
				name := s[i+2 : i+2+end]
				if strings.ContainsRune(name, '"') {
					return nil, false, false
				}
				if strings.ContainsRune(name, ':') {
					return nil, false, true // the implementation's documented restriction
				}
				g = Seg{Kind: SField, Name: name, Quoted: true}
				i = i + 2 + end + 2
			} else {
				end := strings.IndexByte(s[i:], ']')
				if end < 0 {
					return nil, false, true
				}
				body := s[i+1 : i+end]
				i = i + end + 1
				switch {
				case body == "":
					g = Seg{Kind: SIter}
				case strings.Contains(body, ":"):
					parts := strings.Split(body, ":")
					if len(parts) != 2 || (parts[0] == "" && parts[1] == "") {
						return nil, false, true
					}
					g = Seg{Kind: SSlice}
					for k, p := range parts {
						if p == "" {
							continue
						}
						v, good := parseBound(p)
						if !good {
							return nil, false, true
						}
						if k == 0 {
							g.Lo = I64(v)
						} else {
							g.Hi = I64(v)
						}
					}
				default:
					v, good := parseBound(body)
					if !good {
						return nil, false, true
					}
					g = Seg{Kind: SIndex, Idx: v}
				}
			}
		default:
			return nil, false, true
		}
		for i < n && s[i] == '?' {
			g.Opt = true
			i++
		}
		if g.Kind == SIdentity {
			if lastIdentity {
				return nil, false, true
			}
			lastIdentity = true
		} else {
			lastIdentity = false
		}
		sel = append(sel, g)
	}
	return sel, true, true
}

func parseBound(p string) (int64, bool) {
	q := p
	if strings.HasPrefix(q, "-") {
		q = q[1:]
	}
	if q == "" {
		return 0, false
	}
	for _, c := range q {
		if c < '0' || c > '9' {
			return 0, false
		}
	}
	v, err := strconv.ParseInt(p, 10, 64)
	if err != nil {
		return 0, false
	}
	const maxSafe = int64(1)<<53 - 1
	if v > maxSafe || v < -maxSafe {
		return 0, false
	}
	return v, true
}

func isNameRune(r rune, first bool) bool {
	if r == '_' || (r >= 'a' && r <= 'z') || (r >= 'A' && r <= 'Z') || (r >= 0x80 && unicode.IsLetter(r)) {
		return true
	}
	if first {
		return false
	}
	return (r >= '0' && r <= '9') || r == '$' || r == '-'
}

func decodeRune(s string) (rune, int) {
	r, size := utf8.DecodeRuneInString(s)
	if r == utf8.RuneError {
		return 0, 1
	}
	return r, size
}

// Meaning drops what does nothing: identity segments (and the optional flag on them).
func (s Sel) Meaning() Sel {
	var out Sel
	for _, g := range s {
		if g.Kind == SIdentity {
			continue
		}
		g.Quoted = false
		out = append(out, g)
	}
	return out
}

// SameMeaning compares two selectors segment by segment, ignoring identity segments and
// the spelling of fields.
func SameMeaning(a, b Sel) bool {
	a, b = a.Meaning(), b.Meaning()
	if len(a) != len(b) {
		return false
	}
	for i := range a {
		x, y := a[i], b[i]
		if x.Kind != y.Kind || x.Opt != y.Opt {
			return false
		}
		switch x.Kind {
		case SField:
			if x.Name != y.Name {
				return false
			}
		case SIndex:
			if x.Idx != y.Idx {
				return false
			}
		case SSlice:
			if (x.Lo == nil) != (y.Lo == nil) || (x.Hi == nil) != (y.Hi == nil) {
				return false
			}
			if x.Lo != nil && *x.Lo != *y.Lo {
				return false
			}
			if x.Hi != nil && *x.Hi != *y.Hi {
				return false
			}
		}
	}
	return true
}
