package ref

import (
	"encoding/binary"
	"errors"
	"fmt"
	"math"
)

// Item is a CBOR data item with its encoding choices kept explicit, so that the same
// data can be re-emitted with other (non-canonical) encodings.
type Item struct {
	Major byte   // 0..7
	Arg   uint64 // argument (value, length, tag number, simple value or float bits)
	Width int    // how the argument is encoded: 0 = in the initial byte, else 1,2,4,8 following bytes
	Indef bool   // indefinite length (majors 2,3,4,5)
	Data  []byte // majors 2,3 (definite) content
	Items []*Item
	// majors 2,3 indefinite: Items are the chunks; 4: elements; 5: k,v,k,v,...; 6: one item
}

var errTrunc = errors.New("cbor: truncated")

// ParseCBOR parses exactly one item and returns the rest.
func ParseCBOR(b []byte) (*Item, []byte, error) {
	return parseCBOR(b, 0)
}

func parseCBOR(b []byte, depth int) (*Item, []byte, error) {
	if depth > 2000 {
		return nil, nil, errors.New("cbor: too deep")
	}
	if len(b) == 0 {
		return nil, nil, errTrunc
	}
	ib := b[0]
	it := &Item{Major: ib >> 5}
	ai := ib & 0x1f
	b = b[1:]
	switch {
	case ai < 24:
		it.Arg = uint64(ai)
	case ai == 24:
		if len(b) < 1 {
			return nil, nil, errTrunc
		}
		it.Arg, it.Width, b = uint64(b[0]), 1, b[1:]
	case ai == 25:
		if len(b) < 2 {
			return nil, nil, errTrunc
		}
		it.Arg, it.Width, b = uint64(binary.BigEndian.Uint16(b)), 2, b[2:]
	case ai == 26:
		if len(b) < 4 {
			return nil, nil, errTrunc
		}
		it.Arg, it.Width, b = uint64(binary.BigEndian.Uint32(b)), 4, b[4:]
	case ai == 27:
		if len(b) < 8 {
			return nil, nil, errTrunc
		}
		it.Arg, it.Width, b = binary.BigEndian.Uint64(b), 8, b[8:]
	case ai == 31:
		if it.Major < 2 || it.Major > 5 {
			return nil, nil, errors.New("cbor: bad indefinite")
		}
		it.Indef = true
	default:
		return nil, nil, errors.New("cbor: reserved additional info")
	}
	switch it.Major {
	case 2, 3:
		if it.Indef {
			for {
				if len(b) == 0 {
					return nil, nil, errTrunc
				}
				if b[0] == 0xff {
					b = b[1:]
					break
				}
				c, rest, err := parseCBOR(b, depth+1)
				if err != nil {
					return nil, nil, err
				}
				if c.Major != it.Major || c.Indef {
					return nil, nil, errors.New("cbor: bad chunk")
				}
				it.Items = append(it.Items, c)
				b = rest
			}
		} else {
			if uint64(len(b)) < it.Arg {
				return nil, nil, errTrunc
			}
			it.Data = b[:it.Arg]
			b = b[it.Arg:]
		}
	case 4, 5:
		n := it.Arg
		if it.Major == 5 {
			n *= 2
		}
		if !it.Indef && n > uint64(len(b)) {
			return nil, nil, errTrunc
		}
		for i := uint64(0); it.Indef || i < n; i++ {
			if it.Indef {
				if len(b) == 0 {
					return nil, nil, errTrunc
				}
				if b[0] == 0xff {
					b = b[1:]
					break
				}
			}
			c, rest, err := parseCBOR(b, depth+1)
			if err != nil {
				return nil, nil, err
			}
			it.Items = append(it.Items, c)
			b = rest
		}
		if it.Major == 5 && len(it.Items)%2 != 0 {
			return nil, nil, errors.New("cbor: odd map")
		}
	case 6:
		c, rest, err := parseCBOR(b, depth+1)
		if err != nil {
			return nil, nil, err
		}
		it.Items = []*Item{c}
		b = rest
	}
	return it, b, nil
}

func head(major byte, arg uint64, width int) []byte {
	min := 0
	switch {
	case arg < 24:
		min = 0
	case arg <= 0xff:
		min = 1
	case arg <= 0xffff:
		min = 2
	case arg <= 0xffffffff:
		min = 4
	default:
		min = 8
	}
	if width < min && major != 7 {
		width = min
	}
	switch width {
	case 0:
		return []byte{major<<5 | byte(arg)}
	case 1:
		return []byte{major<<5 | 24, byte(arg)}
	case 2:
		return binary.BigEndian.AppendUint16([]byte{major<<5 | 25}, uint16(arg))
	case 4:
		return binary.BigEndian.AppendUint32([]byte{major<<5 | 26}, uint32(arg))
	default:
		return binary.BigEndian.AppendUint64([]byte{major<<5 | 27}, arg)
	}
}

// Encode emits the item with the encoding choices recorded in it.
func (it *Item) Encode() []byte {
	var out []byte
	switch it.Major {
	case 0, 1, 7:
		return head(it.Major, it.Arg, it.Width)
	case 2, 3:
		if it.Indef {
			out = []byte{it.Major<<5 | 31}
			for _, c := range it.Items {
				out = append(out, c.Encode()...)
			}
			return append(out, 0xff)
		}
		out = head(it.Major, uint64(len(it.Data)), it.Width)
		return append(out, it.Data...)
	case 4, 5:
		n := uint64(len(it.Items))
		if it.Major == 5 {
			n /= 2
		}
		if it.Indef {
			out = []byte{it.Major<<5 | 31}
		} else {
			out = head(it.Major, n, it.Width)
		}
		for _, c := range it.Items {
			out = append(out, c.Encode()...)
		}
		if it.Indef {
			out = append(out, 0xff)
		}
		return out
	case 6:
		out = head(6, it.Arg, it.Width)
		return append(out, it.Items[0].Encode()...)
	}
	panic("bad major")
}

// Clone deep-copies an item tree.
func (it *Item) Clone() *Item {
	o := *it
	o.Data = append([]byte(nil), it.Data...)
	o.Items = make([]*Item, len(it.Items))
	for i, c := range it.Items {
		o.Items[i] = c.Clone()
	}
	return &o
}

// Walk visits every node (pre-order) with its index in that order.
func (it *Item) Walk(f func(n *Item)) {
	f(it)
	for _, c := range it.Items {
		c.Walk(f)
	}
}

// Nodes lists every node in pre-order.
func (it *Item) Nodes() []*Item {
	var out []*Item
	it.Walk(func(n *Item) { out = append(out, n) })
	return out
}

// Variant describes one single-knob re-encoding.
type Variant struct {
	Kind  string
	Bytes []byte
}

// Reencodings produces every single-knob re-encoding of the item tree at every node
// (length prefix / integer widened to each larger width; definite -> indefinite for each
// array, map, byte and text string; each map's pairs rotated and reversed; each 64-bit
// float narrowed when exact; null -> undefined), plus the all-knobs-at-once variant.
func Reencodings(root *Item) []Variant {
	var out []Variant
	n := len(root.Nodes())
	emit := func(kind string, mutate func(x *Item) bool, idx int) {
		c := root.Clone()
		x := c.Nodes()[idx]
		if mutate(x) {
			out = append(out, Variant{kind, c.Encode()})
		}
	}
	knobs := allKnobs()
	for i := 0; i < n; i++ {
		for _, k := range knobs {
			k := k
			emit(k.kind, k.f, i)
		}
	}
	// all knobs at once
	c := root.Clone()
	changed := false
	for _, x := range c.Nodes() {
		for _, k := range []string{"widen-8", "indefinite", "map-reverse", "float-narrow", "null-undefined"} {
			for _, kn := range knobs {
				if kn.kind == k && kn.f(x) {
					changed = true
				}
			}
		}
	}
	if changed {
		out = append(out, Variant{"all-knobs", c.Encode()})
	}
	return out
}

type knob struct {
	kind string
	f    func(x *Item) bool
}

func allKnobs() []knob {
	var ks []knob
	for _, wd := range []int{1, 2, 4, 8} {
		wd := wd
		ks = append(ks, knob{fmt.Sprintf("widen-%d", wd), func(x *Item) bool {
			if x.Major == 7 || x.Indef {
				return false
			}
			cur := x.Width
			arg := x.Arg
			if x.Major == 2 || x.Major == 3 {
				arg = uint64(len(x.Data))
			}
			if x.Major == 4 {
				arg = uint64(len(x.Items))
			}
			if x.Major == 5 {
				arg = uint64(len(x.Items) / 2)
			}
			// minimal width of arg
			min := 0
			switch {
			case arg < 24:
			case arg <= 0xff:
				min = 1
			case arg <= 0xffff:
				min = 2
			case arg <= 0xffffffff:
				min = 4
			default:
				min = 8
			}
			if cur < min {
				cur = min
			}
			if wd <= cur {
				return false
			}
			x.Width = wd
			return true
		}})
	}
	ks = append(ks, knob{"indefinite", func(x *Item) bool {
		if x.Indef {
			return false
		}
		switch x.Major {
		case 4, 5:
			x.Indef = true
			return true
		case 2, 3:
			ch := &Item{Major: x.Major, Data: x.Data}
			x.Indef, x.Items, x.Data = true, []*Item{ch}, nil
			return true
		}
		return false
	}})
	ks = append(ks, knob{"indefinite-split", func(x *Item) bool {
		if x.Indef || (x.Major != 2 && x.Major != 3) || len(x.Data) < 2 {
			return false
		}
		h := len(x.Data) / 2
		if x.Major == 3 {
			// keep chunks valid UTF-8: split on a rune boundary
			for h > 0 && h < len(x.Data) && x.Data[h]&0xc0 == 0x80 {
				h--
			}
			if h == 0 {
				return false
			}
		}
		x.Indef, x.Items = true, []*Item{{Major: x.Major, Data: x.Data[:h]}, {Major: x.Major, Data: x.Data[h:]}}
		x.Data = nil
		return true
	}})
	ks = append(ks, knob{"map-reverse", func(x *Item) bool {
		if x.Major != 5 || len(x.Items) < 4 {
			return false
		}
		n := len(x.Items) / 2
		out := make([]*Item, 0, len(x.Items))
		for i := n - 1; i >= 0; i-- {
			out = append(out, x.Items[2*i], x.Items[2*i+1])
		}
		x.Items = out
		return true
	}})
	ks = append(ks, knob{"map-rotate", func(x *Item) bool {
		if x.Major != 5 || len(x.Items) < 6 {
			return false
		}
		x.Items = append(append([]*Item{}, x.Items[2:]...), x.Items[:2]...)
		return true
	}})
	ks = append(ks, knob{"float-narrow", func(x *Item) bool {
		if x.Major != 7 || x.Width != 8 {
			return false
		}
		f := math.Float64frombits(x.Arg)
		if float64(float32(f)) != f {
			return false
		}
		x.Arg, x.Width = uint64(math.Float32bits(float32(f))), 4
		return true
	}})
	ks = append(ks, knob{"null-undefined", func(x *Item) bool {
		if x.Major != 7 || x.Width != 0 || x.Arg != 22 {
			return false
		}
		x.Arg = 23
		return true
	}})
	return ks
}
