package ref

import (
	"crypto/ecdsa"
	"crypto/elliptic"
	"crypto/sha256"
	"crypto/x509"
	"encoding/binary"
	"errors"
	"fmt"
	"strings"

	"github.com/ipfs/go-cid"
	"github.com/ipld/go-ipld-prime"
	"github.com/ipld/go-ipld-prime/codec/dagcbor"
	"github.com/ipld/go-ipld-prime/codec/dagjson"
	"github.com/libp2p/go-libp2p/core/crypto"
	"github.com/libp2p/go-libp2p/core/crypto/pb"
	"github.com/mr-tron/base58"
	mh "github.com/multiformats/go-multihash"
)

const (
	TagDelegation = "ucan/dlg@1.0.0-rc.1"
	TagInvocation = "ucan/inv@1.0.0-rc.1"
)

func uvar(vals ...uint64) []byte {
	var b []byte
	for _, v := range vals {
		b = binary.AppendUvarint(b, v)
	}
	return b
}

// VarsigHeader is the constant header the envelope carries for a key type
// (varsig prefix 0x34, signature algorithm, hash, payload encoding dag-cbor 0x71).
func VarsigHeader(t pb.KeyType) []byte {
	switch t {
	case pb.KeyType_Ed25519:
		return uvar(0x34, 0xed, 0x71)
	case pb.KeyType_RSA:
		return uvar(0x34, 0x1205, 0x12, 0x100, 0x71)
	case pb.KeyType_Secp256k1:
		return uvar(0x34, 0xe7, 0x12, 0x71)
	case pb.KeyType_ECDSA:
		return uvar(0x34, 0xd01200, 0x12, 0x71)
	}
	return nil
}

// AllVarsigHeaders lists the four headers by name.
func AllVarsigHeaders() map[string][]byte {
	return map[string][]byte{
		"ed25519": VarsigHeader(pb.KeyType_Ed25519), "rsa": VarsigHeader(pb.KeyType_RSA),
		"secp256k1": VarsigHeader(pb.KeyType_Secp256k1), "ecdsa": VarsigHeader(pb.KeyType_ECDSA),
	}
}

// KeyFromDIDKey extracts the public key of a did:key string, independently of go-ucan.
func KeyFromDIDKey(s string) (crypto.PubKey, error) {
	if !strings.HasPrefix(s, "did:key:z") {
		return nil, errors.New("not a base58btc did:key")
	}
	b, err := base58.Decode(s[len("did:key:z"):])
	if err != nil {
		return nil, err
	}
	code, n := binary.Uvarint(b)
	if n <= 0 {
		return nil, errors.New("bad multicodec varint")
	}
	m := b[n:]
	switch code {
	case 0xed:
		return crypto.UnmarshalEd25519PublicKey(m)
	case 0xe7:
		if len(m) != 33 {
			return nil, errors.New("secp256k1 key not compressed")
		}
		return crypto.UnmarshalSecp256k1PublicKey(m)
	case 0x1200, 0x1201, 0x1202:
		curve := map[uint64]elliptic.Curve{0x1200: elliptic.P256(), 0x1201: elliptic.P384(), 0x1202: elliptic.P521()}[code]
		x, y := elliptic.UnmarshalCompressed(curve, m)
		if x == nil {
			return nil, errors.New("bad compressed point")
		}
		pkix, err := x509.MarshalPKIXPublicKey(&ecdsaPub{Curve: curve, X: x, Y: y})
		if err != nil {
			return nil, err
		}
		return crypto.UnmarshalECDSAPublicKey(pkix)
	case 0x1205:
		k, err := x509.ParsePKCS1PublicKey(m)
		if err != nil {
			return nil, err
		}
		pkix, err := x509.MarshalPKIXPublicKey(k)
		if err != nil {
			return nil, err
		}
		return crypto.UnmarshalRsaPublicKey(pkix)
	}
	return nil, fmt.Errorf("unsupported multicodec 0x%x", code)
}

// EncodeDagCbor encodes a value as canonical DAG-CBOR.
func EncodeDagCbor(v V) ([]byte, error) { return ipld.Encode(v.Node(), dagcbor.Encode) }

// EncodeDagJson encodes a value as DAG-JSON.
func EncodeDagJson(v V) ([]byte, error) { return ipld.Encode(v.Node(), dagjson.Encode) }

// DecodeDagCbor decodes DAG-CBOR bytes to a value.
func DecodeDagCbor(b []byte) (V, error) {
	n, err := ipld.Decode(b, dagcbor.Decode)
	if err != nil {
		return V{}, err
	}
	return FromNode(n)
}

// SigPayload builds {h: header, tag: payload}.
func SigPayload(header []byte, tag string, payload V) V {
	return Map(E("h", Bytes(header)), E(tag, payload))
}

// SignEnvelope builds [signature, {h, tag: payload}] signed with priv over the canonical
// DAG-CBOR encoding of the SigPayload. header=nil uses the header of the key's type.
func SignEnvelope(priv crypto.PrivKey, header []byte, tag string, payload V) (V, error) {
	if header == nil {
		header = VarsigHeader(priv.Type())
	}
	sp := SigPayload(header, tag, payload)
	data, err := EncodeDagCbor(sp)
	if err != nil {
		return V{}, err
	}
	sig, err := priv.Sign(data)
	if err != nil {
		return V{}, err
	}
	return List(Bytes(sig), sp), nil
}

// EnvelopeInfo is what an independent reading of a sealed token yields.
type EnvelopeInfo struct {
	Sig     []byte
	Header  []byte
	Tag     string
	Payload V
	Iss     string
}

// ReadEnvelope parses [sig, {h, tag: payload}] (exactly that shape).
func ReadEnvelope(v V) (*EnvelopeInfo, error) {
	if v.K != KList || len(v.L) != 2 {
		return nil, errors.New("not an envelope")
	}
	return ReadEnvelopeLenient(v)
}

// ReadEnvelopeLenient reads the signature and the signed part from the first two list
// elements and ignores further (unsigned) elements.
func ReadEnvelopeLenient(v V) (*EnvelopeInfo, error) {
	if v.K != KList || len(v.L) < 2 || v.L[0].K != KBytes || v.L[1].K != KMap || len(v.L[1].M) != 2 {
		return nil, errors.New("not an envelope")
	}
	info := &EnvelopeInfo{Sig: v.L[0].Y}
	for _, e := range v.L[1].M {
		switch {
		case e.K == "h" && e.V.K == KBytes:
			info.Header = e.V.Y
		case strings.HasPrefix(e.K, "ucan/"):
			info.Tag = e.K
			info.Payload = e.V
		default:
			return nil, errors.New("unexpected SigPayload key " + e.K)
		}
	}
	if info.Header == nil || info.Tag == "" || info.Payload.K != KMap {
		return nil, errors.New("incomplete SigPayload")
	}
	iss, ok := info.Payload.Get("iss")
	if !ok || iss.K != KString {
		return nil, errors.New("no iss")
	}
	info.Iss = iss.S
	return info, nil
}

// VerifyEnvelope checks, independently of go-ucan, that the envelope's signature verifies
// under the key in the payload's iss and the scheme announced by the header, over the
// canonical encoding of the decoded {h, tag: payload}.
func VerifyEnvelope(v V) (*EnvelopeInfo, error) {
	info, err := ReadEnvelopeLenient(v)
	if err != nil {
		return nil, err
	}
	key, err := KeyFromDIDKey(info.Iss)
	if err != nil {
		return info, fmt.Errorf("issuer key: %w", err)
	}
	if string(VarsigHeader(key.Type())) != string(info.Header) {
		return info, errors.New("header does not announce the issuer's key type")
	}
	data, err := EncodeDagCbor(v.L[1])
	if err != nil {
		return info, err
	}
	ok, err := key.Verify(data, info.Sig)
	if err != nil || !ok {
		return info, fmt.Errorf("signature does not verify (%v)", err)
	}
	return info, nil
}

// CID of sealed bytes: CIDv1, dag-cbor (0x71), sha2-256.
func CID(b []byte) cid.Cid {
	h := sha256.Sum256(b)
	m, _ := mh.Encode(h[:], mh.SHA2_256)
	return cid.NewCidV1(0x71, m)
}

// SplitCAR returns the byte offsets at which a CARv1 stream may be cut between two
// sections (after the header and after each block), and the block payloads.
func SplitCAR(b []byte) (cuts []int, blocks [][]byte, err error) {
	off := 0
	first := true
	for off < len(b) {
		l, n := binary.Uvarint(b[off:])
		if n <= 0 || l == 0 || off+n+int(l) > len(b) {
			return nil, nil, errors.New("bad CAR section")
		}
		sec := b[off+n : off+n+int(l)]
		off += n + int(l)
		cuts = append(cuts, off)
		if first {
			first = false
			continue
		}
		// section = cid ‖ data ; CIDv1 dag-cbor sha2-256 is 36 bytes
		cl, _, cerr := cid.CidFromBytes(sec)
		if cerr != nil {
			return nil, nil, cerr
		}
		blocks = append(blocks, sec[cl:])
	}
	return cuts, blocks, nil
}

type ecdsaPub = ecdsa.PublicKey
