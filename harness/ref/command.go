package ref

import (
	"strings"
	"unicode"
)

// IsUpperCase: the Unicode derived property Uppercase (general category Lu, or
// Other_Uppercase: Roman numerals, circled / squared capital letters).
func IsUpperCase(r rune) bool {
	return unicode.IsUpper(r) || unicode.Is(unicode.Other_Uppercase, r)
}

// CaseUnambiguous tells whether the readings of "upper-case letter" agree on r: the Unicode
// property Uppercase, and "changed by lower-casing" (the UCAN spec's "commands MUST be
// lower-case"). Title-case letters, capital letters without a lower-case form and the like
// are ambiguous and never judged.
func CaseUnambiguous(r rune) bool {
	return (unicode.ToLower(r) != r) == IsUpperCase(r) && !unicode.IsTitle(r)
}

// CmdValid: leading slash, no trailing slash (except "/"), no upper-case letters.
func CmdValid(s string) bool {
	if !strings.HasPrefix(s, "/") {
		return false
	}
	if len(s) > 1 && strings.HasSuffix(s, "/") {
		return false
	}
	for _, r := range s {
		if IsUpperCase(r) {
			return false
		}
	}
	return true
}

// CmdSegments of a valid command.
func CmdSegments(s string) []string {
	if s == "/" {
		return nil
	}
	return strings.Split(s[1:], "/")
}

// CmdCovers: a's segments are a prefix of b's segments.
func CmdCovers(a, b string) bool {
	sa, sb := CmdSegments(a), CmdSegments(b)
	if len(sa) > len(sb) {
		return false
	}
	for i := range sa {
		if sa[i] != sb[i] {
			return false
		}
	}
	return true
}

// CmdFromSegments builds the command text.
func CmdFromSegments(segs []string) string {
	if len(segs) == 0 {
		return "/"
	}
	return "/" + strings.Join(segs, "/")
}
