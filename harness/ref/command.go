package ref

import (
	"strings"
	"unicode"
)

// CmdValid: leading slash, no trailing slash (except "/"), no upper-case letters.
func CmdValid(s string) bool {
	if !strings.HasPrefix(s, "/") {
		return false
	}
	if len(s) > 1 && strings.HasSuffix(s, "/") {
		return false
	}
	for _, r := range s {
		if unicode.IsUpper(r) {
			return false
		}
	}
	return true
}

// CmdSegments of a valid command.
func CmdSegments(s string) []string {
	if s == "/" {
		return nil
	}
	return strings.Split(s[1:], "/")
}

// CmdCovers: a's segments are a prefix of b's segments.
func CmdCovers(a, b string) bool {
	sa, sb := CmdSegments(a), CmdSegments(b)
	if len(sa) > len(sb) {
		return false
	}
	for i := range sa {
		if sa[i] != sb[i] {
			return false
		}
	}
	return true
}

// CmdFromSegments builds the command text.
func CmdFromSegments(segs []string) string {
	if len(segs) == 0 {
		return "/"
	}
	return "/" + strings.Join(segs, "/")
}
