package ref

import (
	"fmt"
	"strconv"
	"strings"
	"unicode"
	"unicode/utf8"
)

type SegKind int

const (
	SIdentity SegKind = iota
	SField
	SIndex
	SSlice
	SIter
)

var segNames = [...]string{"identity", "field", "index", "slice", "iter"}

func (k SegKind) String() string { return segNames[k] }

// Seg is one selector segment.
type Seg struct {
	Kind   SegKind
	Name   string // SField
	Quoted bool   // SField: written ["name"] instead of .name
	Idx    int64  // SIndex
	Lo, Hi *int64 // SSlice (nil = absent)
	Opt    bool
}

type Sel []Seg

func I64(i int64) *int64 { return &i }

// PlainFieldOK tells whether a name can be written in the .name form.
func PlainFieldOK(name string) bool {
	if name == "" {
		return false
	}
	for i, r := range name {
		letter := r == '_' || (r >= 'a' && r <= 'z') || (r >= 'A' && r <= 'Z') || (r > 127 && unicode.IsLetter(r))
		if i == 0 {
			if !letter {
				return false
			}
			continue
		}
		if !(letter || (r >= '0' && r <= '9') || r == '$' || r == '-') {
			return false
		}
	}
	return true
}

// Text renders the selector in the textual grammar.
func (s Sel) Text() string {
	if len(s) == 0 {
		return "."
	}
	var b strings.Builder
	for i, g := range s {
		switch g.Kind {
		case SIdentity:
			b.WriteString(".")
			if g.Opt && len(s) == 1 {
				b.WriteString("?")
			}
			continue
		case SField:
			if g.Quoted {
				if i == 0 {
					b.WriteString(".")
				}
				b.WriteString(`["` + g.Name + `"]`)
			} else {
				b.WriteString("." + g.Name)
			}
		case SIndex:
			if i == 0 {
				b.WriteString(".")
			}
			b.WriteString("[" + strconv.FormatInt(g.Idx, 10) + "]")
		case SSlice:
			if i == 0 {
				b.WriteString(".")
			}
			b.WriteString("[")
			if g.Lo != nil {
				b.WriteString(strconv.FormatInt(*g.Lo, 10))
			}
			b.WriteString(":")
			if g.Hi != nil {
				b.WriteString(strconv.FormatInt(*g.Hi, 10))
			}
			b.WriteString("]")
		case SIter:
			if i == 0 {
				b.WriteString(".")
			}
			b.WriteString("[]")
		}
		if g.Opt {
			b.WriteString("?")
		}
	}
	return b.String()
}

func (g Seg) String() string { return Sel{g}.Text() }

// Outcome of the reference selector interpreter.
type Outcome int

const (
	OValue   Outcome = iota // a value was selected
	ONoValue                // an optional field/index segment failed: "no value"
	OError                  // a non-optional segment failed
	OUnspec                 // the property does not pin this combination
)

var outNames = [...]string{"value", "no-value", "error", "unspecified"}

func (o Outcome) String() string { return outNames[o] }

// Select is the reference interpreter: segments one after the other. Once an optional
// field/index segment has yielded "no value", the remaining segments are resolved against
// "no value": identity keeps it, every non-optional segment fails on it (an error, as the
// property says of any failing non-optional segment), an optional field/index keeps "no
// value"; an optional slice/iterator on "no value" is not pinned by the property.
func Select(s Sel, d V) (Outcome, V) {
	cur := d
	novalue := false
	for _, g := range s {
		if novalue {
			switch {
			case g.Kind == SIdentity:
				continue
			case !g.Opt:
				return OError, V{}
			case g.Kind == SField || g.Kind == SIndex:
				continue
			default:
				return OUnspec, V{}
			}
		}
		next, ok := step(g, cur)
		if ok {
			cur = next
			continue
		}
		// the segment failed
		if !g.Opt {
			return OError, V{}
		}
		switch g.Kind {
		case SField, SIndex:
			novalue = true
		default:
			return OUnspec, V{}
		}
	}
	if novalue {
		return ONoValue, V{}
	}
	return OValue, cur
}

// Step applies one segment to a value; ok=false means the segment fails on it.
func Step(g Seg, cur V) (V, bool) { return step(g, cur) }

func step(g Seg, cur V) (V, bool) {
	switch g.Kind {
	case SIdentity:
		return cur, true
	case SField:
		if cur.K != KMap {
			return V{}, false
		}
		v, ok := cur.Get(g.Name)
		return v, ok
	case SIndex:
		switch cur.K {
		case KList:
			i, ok := pyIndex(g.Idx, int64(len(cur.L)))
			if !ok {
				return V{}, false
			}
			return cur.L[i], true
		case KBytes:
			i, ok := pyIndex(g.Idx, int64(len(cur.Y)))
			if !ok {
				return V{}, false
			}
			return Int(int64(cur.Y[i])), true
		}
		return V{}, false
	case SSlice:
		switch cur.K {
		case KList:
			lo, hi := PySlice(g.Lo, g.Hi, int64(len(cur.L)))
			return V{K: KList, L: append([]V{}, cur.L[lo:hi]...)}, true
		case KBytes:
			lo, hi := PySlice(g.Lo, g.Hi, int64(len(cur.Y)))
			return Bytes(append([]byte{}, cur.Y[lo:hi]...)), true
		case KString:
			if !utf8.ValidString(cur.S) {
				return V{}, false
			}
			r := []rune(cur.S)
			lo, hi := PySlice(g.Lo, g.Hi, int64(len(r)))
			return Str(string(r[lo:hi])), true
		}
		return V{}, false
	case SIter:
		switch cur.K {
		case KList:
			return cur, true
		case KMap:
			out := V{K: KList, L: []V{}}
			for _, e := range cur.M {
				out.L = append(out.L, e.V)
			}
			return out, true
		}
		return V{}, false
	}
	panic(fmt.Sprintf("bad segment kind %d", g.Kind))
}

func pyIndex(i, n int64) (int64, bool) {
	if i < 0 {
		i += n
	}
	if i < 0 || i >= n {
		return 0, false
	}
	return i, true
}

// PySlice is Python's slice.indices() for step 1: returns clamped [lo,hi) with lo<=hi.
func PySlice(lo, hi *int64, n int64) (int64, int64) {
	l, h := int64(0), n
	if lo != nil {
		l = *lo
		if l < 0 {
			l += n
			if l < 0 {
				l = 0
			}
		} else if l > n {
			l = n
		}
	}
	if hi != nil {
		h = *hi
		if h < 0 {
			h += n
			if h < 0 {
				h = 0
			}
		} else if h > n {
			h = n
		}
	}
	if h < l {
		h = l
	}
	return l, h
}
