package props

import (
	"fmt"
	"strings"
	"sync"
	"sync/atomic"

	"verifharness/chain"
	"verifharness/gen"
	"verifharness/mon"
	"verifharness/ref"
)

var c02Universe = []string{"/", "/a", "/a/b", "/a/b/c", "/a/c", "/ab", "/b", "/a/bc", "/ab/c", "/a//b", "/a/σ", "/a/ς"}

func init() {
	register(&mon.Prop{
		ID:         "C02",
		Level:      "exploration",
		Exhaustive: true,
		Rule: "exhaustive: every assignment of commands from U={/,/a,/a/b,/a/b/c,/a/c,/ab,/b,/a/bc,/ab/c,/a//b (an empty interior segment),/a/σ,/a/ς (distinct lower-case letters that Unicode case folding identifies)} (equal, parent, child, sibling, shared-textual-prefix - with and without further segments - and top relations all present) to the invocation and the n links of an otherwise conforming chain, n<=3 (quick: 12^2+12^3+12^4 = 22608 chains), n<=4 in thorough (+248832), plus seeded random chains of n<=8 links over random commands of depth<=5; a third of the chains go through seal -> container -> reader. " +
			"Oracle: ExecutionAllowed==nil => every link's command is covered by the next one towards the root and the first covers the invoked command (reference segment-prefix model). " +
			"non-trivial = at least one adjacent pair of different commands; distinct = the command tuple.",
		Assumptions: []string{
			"reference predicate chain.CommandsOK over ref.CmdCovers",
			"principals, policies and time bounds are kept conforming so that a verdict is attributable to the command rule",
		},
		Shards:          shards(8, 16),
		RaceShards:      shards(1, 2),
		RaceIsViolation: true,
		Run:             runC02,
		MinEvals:        floor(22000, 250000),
		MinDistinct:     floor(20000, 240000),
		RequiredCells: func(string) []string {
			var cells []string
			for _, pos := range []string{"inv", "middle", "root"} {
				for _, rel := range []string{"equal", "parent", "child", "sibling", "textual-prefix", "top"} {
					cells = append(cells, "pair/"+pos+"/"+rel)
				}
			}
			return append(cells, "purity/chain-verdicts/history", "purity/chain-verdicts/concurrent", "purity/chain-verdicts/concurrent-focused", "chain-purity/ExecutionAllowed/same-proofs-command-parent/model=deny", "chain-purity/ExecutionAllowed/same-proofs-command-sibling/model=deny", "chain-purity/ExecutionAllowed/same-proofs-command-child/model=allow", "allowed", "denied", "wire", "hook", "long-chain", "scale", "shared-lower-links", "special-segments", "principals/one-self-issued-link", "principals/one-principal-throughout")
		},
	})
}

// c02Pattern counts the scenarios built; the principal pattern rotates with it.
var c02Pattern atomic.Int64

func c02Scenario(cmds []string) *chain.Scenario {
	return c02ScenarioP(cmds, int(c02Pattern.Add(1)))
}

// c02PatOf remembers the pattern a built chain was drawn with (a chain that shares its lower
// links with an earlier one must use the same principals).
var c02PatOf sync.Map

func c02ScenarioP(cmds []string, ctr int) *chain.Scenario {
	// cmds[0] = invoked command, cmds[1..n] = links leaf to root
	n := len(cmds) - 1
	// who the principals along the chain are has nothing to do with which commands cover which:
	// half of the chains have all-distinct principals, a quarter hold one SELF-ISSUED link
	// (issuer = audience) at a rotating position - root, middle or leaf -, and a quarter are
	// issued by one principal throughout
	at := func(i int) *gen.Principal { return gen.Ed(i % 10) } // position 0 = subject .. n = invoker
	switch ctr % 4 {
	case 2:
		j := (ctr / 4) % n // the link from position j to j+1 is self-issued
		at = func(i int) *gen.Principal {
			if i > j {
				i--
			}
			return gen.Ed(i % 10)
		}
	case 3:
		at = func(int) *gen.Principal { return gen.Ed(0) }
	}
	s := &chain.Scenario{Subject: at(0), Invoker: at(n), Cmd: cmds[0], Args: ref.Map()}
	if strings.HasPrefix(cmds[0], "/ucan") {
		// commands of the specification's own namespace come with the arguments the specification
		// gives them (a link to the token they are about)
		s.Args = ref.Map(ref.E("ucan", ref.Link(gen.LinkPool()[0])), ref.E("ucans", ref.List(ref.Link(gen.LinkPool()[0]))))
	}
	for k := 0; k < n; k++ {
		s.Links = append(s.Links, chain.Link{Iss: at(n - 1 - k), Aud: at(n - k), Sub: at(0), Cmd: cmds[k+1]})
	}
	return s
}

func c02Run(w *mon.W, cmds []string, wire int) { c02RunH(w, cmds, wire, false) }

func c02RunH(w *mon.W, cmds []string, wire int, hook bool) { c02RunR(w, cmds, wire, hook, nil, 0) }

// c02RunR: with reuse != nil the first reuseN links are the very delegations (objects, CIDs) of
// an earlier chain.
func c02RunR(w *mon.W, cmds []string, wire int, hook bool, reuse *chain.Built, reuseN int) *chain.Built {
	remember := reuse == nil && reuseN == -1 // the caller is going to build a second chain on this one
	if remember {
		reuseN = 0
	}
	ctr := int(c02Pattern.Add(1))
	if reuse != nil {
		if v, ok := c02PatOf.Load(reuse); ok {
			ctr = v.(int)
		}
	}
	s := c02ScenarioP(cmds, ctr)
	s.Reuse, s.ReuseN = reuse, reuseN
	s.Wire = wire
	b, err := s.Build(w.Rng)
	if err != nil {
		w.Inconclusive("C02 scenario could not be realised: " + err.Error())
		return nil
	}
	if remember {
		c02PatOf.Store(b, ctr)
	}
	want, why := s.CommandsOK()
	if ok, pwhy := s.PrincipalsOK(); !ok {
		w.Inconclusive("C02 generator bug: principals not conforming: " + pwhy)
		return nil
	}
	e := allowed(b.Inv, b.Loader, hook)
	w.Eval(1)
	if hook {
		w.Cover("hook")
	}
	selfIssued := 0
	for _, l := range s.Links {
		if l.Iss == l.Aud {
			selfIssued++
		}
	}
	switch {
	case selfIssued == 0:
		w.Cover("principals/all-distinct-neighbours")
	case selfIssued == len(s.Links):
		w.Cover("principals/one-principal-throughout")
	default:
		w.Cover("principals/one-self-issued-link")
	}
	if len(cmds) > 9 {
		w.Cover("long-chain")
	}
	nontrivial := false
	for i := 0; i+1 < len(cmds); i++ {
		pos := "middle"
		if i == 0 {
			pos = "inv"
		} else if i+2 == len(cmds) {
			pos = "root"
		}
		// relation of the covering candidate (cmds[i+1]) to the covered one (cmds[i])
		w.Cover("pair/" + pos + "/" + cmdRel(cmds[i+1], cmds[i]))
		if cmds[i] != cmds[i+1] {
			nontrivial = true
		}
	}
	if wire > 0 {
		w.Cover("wire")
	}
	if nontrivial {
		w.Distinct(strings.Join(cmds, " "))
	}
	if e == nil {
		w.Cover("allowed")
		if !want {
			var i int
			fmt.Sscanf(strings.TrimPrefix(why, "cmd@"), "%d", &i)
			rel := cmdRel(cmds[i+1], cmds[i])
			pos := "middle"
			if i == 0 {
				pos = "inv"
			} else if i+2 == len(cmds) {
				pos = "root"
			}
			d := s.Describe()
			d["commands_inv_then_leaf_to_root"] = cmds
			w.Violate(fmt.Sprintf("widened/%s/%s", pos, rel),
				fmt.Sprintf("ExecutionAllowed = nil although link %d (%q) does not cover %q (commands, invocation first then leaf to root: %q)", i, cmds[i+1], cmds[i], cmds), d)
		}
	} else {
		w.Cover("denied")
		if want {
			// the <= direction belongs to C05; counted here, judged there
			w.Count("conforming_but_denied(judged_by_C05)", 1)
		}
	}
	if w.WantSample() && nontrivial && len(cmds) >= 3 {
		w.Sample(map[string]any{"commands_inv_then_leaf_to_root": cmds, "allowed": e == nil, "model_allows": want, "wire": wire, "error": errStr(e)})
	}
	return b
}

func runC02(w *mon.W) {
	if purityGate(w, c02Purity) {
		return
	}
	maxN := w.Pick(3, 4)
	idx := 0
	for n := 1; n <= maxN; n++ {
		cmds := make([]string, n+1)
		var rec func(k int)
		rec = func(k int) {
			if k == n+1 {
				idx++
				if w.Mine(idx) {
					wire := 0
					if idx%3 == 0 {
						wire = 1 + (idx/3)%4
					}
					c02Run(w, append([]string{}, cmds...), wire)
				}
				return
			}
			for _, c := range c02Universe {
				cmds[k] = c
				rec(k + 1)
			}
		}
		rec(0)
	}
	// a second small lattice, exhaustive for n <= 2: segments that mean something special elsewhere
	// (wildcards of earlier UCAN versions and of shells, relative path segments, an encoded
	// slash) are ordinary segments here; two thirds of these chains go through the decoders
	special := []string{"/", "/a", "/a/b", "/a/*", "/*", "/a/**", "/a/.", "/a/..", "/a/%2f", "/a/b/*", "/ucan", "/ucan/revoke", "/ucan/attest"}
	for n := 1; n <= 2; n++ {
		cmds := make([]string, n+1)
		var rec func(k int)
		rec = func(k int) {
			if k == n+1 {
				idx++
				if w.Mine(idx) {
					wire := 0
					if idx%3 != 0 {
						wire = 1 + (idx/3)%4
					}
					w.Cover("special-segments")
					c02Run(w, append([]string{}, cmds...), wire)
				}
				return
			}
			for _, c := range special {
				cmds[k] = c
				rec(k + 1)
			}
		}
		rec(0)
	}
	// random longer chains over random commands
	segs := []string{"a", "b", "c", "ab", "bc", "x"}
	randCmd := func() string {
		d := w.Rng.IntN(6)
		ss := make([]string, d)
		for i := range ss {
			ss[i] = gen.Pick(w.Rng, segs)
		}
		return ref.CmdFromSegments(ss)
	}
	for i := 0; i < w.Share(w.Pick(2400, 12000)); i++ {
		n := 1 + w.Rng.IntN(8)
		cmds := make([]string, n+1)
		if w.Rng.IntN(2) == 0 {
			// descending path with an occasional violation
			cur := randCmd()
			for k := 0; k <= n; k++ {
				cmds[k] = cur
				sg := ref.CmdSegments(cur)
				switch w.Rng.IntN(5) {
				case 0, 1:
					if len(sg) > 0 {
						cur = ref.CmdFromSegments(sg[:len(sg)-1])
					}
				case 2:
					if w.Rng.IntN(4) == 0 {
						cur = randCmd()
					}
				}
			}
		} else {
			for k := range cmds {
				cmds[k] = randCmd()
			}
		}
		c02RunH(w, cmds, w.Rng.IntN(5), w.Rng.IntN(3) == 0)
	}
	// scale family: long chains (9..48 links), deep commands (up to 40 segments), long and
	// non-ASCII segments (up to 300 bytes); conforming descending paths with zero or one
	// widening link at a random position
	bigSeg := func() string {
		switch w.Rng.IntN(5) {
		case 0:
			return strings.Repeat(gen.Pick(w.Rng, []string{"a", "é", "ほ", "x-"}), 1+w.Rng.IntN(150))
		case 1:
			return gen.Pick(w.Rng, []string{"é", "è", "ほげ", "ふが", "σ", ".", ".."})
		}
		return gen.Pick(w.Rng, segs)
	}
	for i := 0; i < w.Share(w.Pick(600, 3000)); i++ {
		n := 9 + w.Rng.IntN(40)
		if i%4 == 0 {
			n = 1 + w.Rng.IntN(8)
		}
		depth := 1 + w.Rng.IntN(40)
		sg := make([]string, depth)
		for k := range sg {
			sg[k] = bigSeg()
		}
		cmds := make([]string, n+1)
		for k := 0; k <= n; k++ {
			cmds[k] = ref.CmdFromSegments(sg)
			if len(sg) > 0 && w.Rng.IntN(n+1) < depth {
				sg = sg[:len(sg)-1]
			}
		}
		switch w.Rng.IntN(3) {
		case 0:
			// one widening link: position k gets a command that does not cover its predecessor
			k := 1 + w.Rng.IntN(n)
			prev := ref.CmdSegments(cmds[k-1])
			switch {
			case len(prev) > 0 && w.Rng.IntN(2) == 0:
				// sibling in the last segment (shares a textual prefix)
				alt := append(append([]string{}, prev[:len(prev)-1]...), prev[len(prev)-1]+"x")
				cmds[k] = ref.CmdFromSegments(alt)
			default:
				cmds[k] = ref.CmdFromSegments(append(append([]string{}, prev...), "deeper"))
			}
		}
		c02RunH(w, cmds, w.Rng.IntN(5), w.Rng.IntN(3) == 0)
		w.Cover("scale")
	}
	// chains that SHARE their lower links: a chain is checked (allowed or not), then a second
	// chain made of the very same first k delegations (same objects, same CIDs) under other upper
	// links - a root that does not cover what the shared delegation grants, or one that does.
	// What was learnt about the shared delegations while checking the first chain may not carry
	// over to the second.
	for i := 0; i < w.Share(w.Pick(600, 8000)); i++ {
		n := 2 + w.Rng.IntN(4)
		first := make([]string, n+1)
		cur := randCmd()
		for k := 0; k <= n; k++ {
			first[k] = cur
			if sg := ref.CmdSegments(cur); len(sg) > 0 && w.Rng.IntN(2) == 0 {
				cur = ref.CmdFromSegments(sg[:len(sg)-1])
			}
		}
		b1 := c02RunR(w, first, 0, w.Rng.IntN(3) == 0, nil, -1)
		if b1 == nil {
			continue
		}
		keep := 1 + w.Rng.IntN(n-1) // links 0..keep-1 are shared
		second := append([]string{}, first...)
		for k := keep + 1; k <= n; k++ {
			switch w.Rng.IntN(3) {
			case 0:
				second[k] = randCmd()
			case 1:
				second[k] = ref.CmdFromSegments(append(ref.CmdSegments(second[k-1]), "x"))
			default:
				second[k] = "/other/" + gen.Pick(w.Rng, segs)
			}
		}
		c02RunR(w, second, 0, w.Rng.IntN(3) == 0, b1, keep)
		c02PatOf.Delete(b1)
		w.Cover("shared-lower-links")
	}
}
