package props

import (
	"bytes"
	"fmt"
	"strings"
	"sync"
	"time"

	"github.com/ipld/go-ipld-prime/codec/dagcbor"
	"github.com/ipld/go-ipld-prime/node/basicnode"

	"github.com/ucan-wg/go-ucan/pkg/command"
	"github.com/ucan-wg/go-ucan/pkg/container"
	"github.com/ucan-wg/go-ucan/pkg/policy"
	"github.com/ucan-wg/go-ucan/token/delegation"
	"github.com/ucan-wg/go-ucan/token/invocation"

	"verifharness/gen"
	"verifharness/mon"
)

// c20Pristine: tokens straight from the constructors that NOTHING has touched yet - not even
// a first seal (the scenario engine seals what it builds). Bounds given as durations carry a
// sub-second part, metadata and arguments are in insertion order. Each read-only operation is
// the FIRST operation on its own fresh token, between two snapshots (phase A); in phase B the
// first encodings of a fresh token run while other goroutines read it (race detector in the
// -race shards, snapshots compared afterwards in every build).
func c20Pristine(w *mon.W) {
	cmd := command.MustParse("/pristine/cmd")
	type dlgOp struct {
		name string
		f    func(d *delegation.Token, iss *gen.Principal)
	}
	dlgOps := []dlgOp{
		{"ToSealed", func(d *delegation.Token, iss *gen.Principal) { _, _, _ = d.ToSealed(iss.Priv) }},
		{"ToSealedWriter", func(d *delegation.Token, iss *gen.Principal) {
			var b bytes.Buffer
			_, _ = d.ToSealedWriter(&b, iss.Priv)
		}},
		{"ToDagCbor", func(d *delegation.Token, iss *gen.Principal) { _, _ = d.ToDagCbor(iss.Priv) }},
		{"ToDagJson", func(d *delegation.Token, iss *gen.Principal) { _, _ = d.ToDagJson(iss.Priv) }},
		{"Encode", func(d *delegation.Token, iss *gen.Principal) { _, _ = d.Encode(iss.Priv, dagcbor.Encode) }},
		{"ToDagJsonWriter", func(d *delegation.Token, iss *gen.Principal) { var b bytes.Buffer; _ = d.ToDagJsonWriter(&b, iss.Priv) }},
		{"ToSealed(foreign key)", func(d *delegation.Token, iss *gen.Principal) { _, _, _ = d.ToSealed(c20ForeignKey(iss).Priv) }},
		{"IsValidNow+IsValidAt", func(d *delegation.Token, iss *gen.Principal) {
			_ = d.IsValidNow()
			_ = d.IsValidAt(time.Unix(1<<33, 5))
		}},
		{"Policy.String+Meta.String", func(d *delegation.Token, iss *gen.Principal) {
			_ = d.Policy().String()
			_ = d.Meta().String()
			_ = fmt.Sprint(d.Meta())
			_ = fmt.Sprintf("%v %+v", d, d.Meta())
		}},
		{"container.AddSealed+ToCar", func(d *delegation.Token, iss *gen.Principal) {
			if b, c, err := d.ToSealed(iss.Priv); err == nil {
				wr := container.NewWriter()
				wr.AddSealed(c, b)
				_, _ = wr.ToCar()
			}
		}},
	}
	mkDlg := func(i int) (*delegation.Token, *gen.Principal) {
		iss, aud := gen.Ed(i), gen.Ed(i+1)
		pol, _ := policy.Construct(policy.Equal(".a", basicnode.NewInt(int64(i))), policy.Like(".s", "x*"))
		opts := []delegation.Option{delegation.WithSubject(iss.DID), delegation.WithExpirationIn(time.Hour + 123456789*time.Nanosecond), delegation.WithNotBeforeIn(-time.Hour - 987654321*time.Nanosecond),
			delegation.WithMeta("zeta", "z"), delegation.WithMeta("alpha", int64(i)), delegation.WithMeta("blob", bytes.Repeat([]byte{1, 2, 3, 4, 5}, 30)), delegation.WithEncryptedMetaString("secret-long", strings.Repeat("a longer secret, ", 8), bytes.Repeat([]byte{9}, 32)), delegation.WithEncryptedMetaString("secret", "s3cr3t", bytes.Repeat([]byte{9}, 32))}
		d, err := delegation.New(iss.DID, aud.DID, cmd, pol, opts...)
		if err != nil {
			return nil, nil
		}
		return d, iss
	}
	mkInv := func(i int) (*invocation.Token, *gen.Principal) {
		iss := gen.Ed(i)
		inv, err := invocation.New(iss.DID, iss.DID, cmd, nil, invocation.WithExpirationIn(time.Hour+123456789*time.Nanosecond), invocation.WithInvokedAtIn(-time.Minute-55555*time.Nanosecond),
			invocation.WithArgument("zz", 1), invocation.WithArgument("aa", "two"), invocation.WithMeta("m2", 2), invocation.WithMeta("m1", 1), invocation.WithMeta("blob", bytes.Repeat([]byte{1, 2, 3, 4, 5}, 30)))
		if err != nil {
			return nil, nil
		}
		return inv, iss
	}
	type invOp struct {
		name string
		f    func(t *invocation.Token, iss *gen.Principal)
	}
	invOps := []invOp{
		{"ToSealed", func(t *invocation.Token, iss *gen.Principal) { _, _, _ = t.ToSealed(iss.Priv) }},
		{"ToSealedWriter", func(t *invocation.Token, iss *gen.Principal) {
			var b bytes.Buffer
			_, _ = t.ToSealedWriter(&b, iss.Priv)
		}},
		{"ToDagCbor", func(t *invocation.Token, iss *gen.Principal) { _, _ = t.ToDagCbor(iss.Priv) }},
		{"ToDagJson", func(t *invocation.Token, iss *gen.Principal) { _, _ = t.ToDagJson(iss.Priv) }},
		{"Encode", func(t *invocation.Token, iss *gen.Principal) { _, _ = t.Encode(iss.Priv, dagcbor.Encode) }},
		{"IsValidNow+IsValidAt", func(t *invocation.Token, iss *gen.Principal) {
			_ = t.IsValidNow()
			_ = t.IsValidAt(time.Unix(1<<33, 5))
		}},
		{"Arguments.String+ToIPLD", func(t *invocation.Token, iss *gen.Principal) {
			_ = t.Arguments().String()
			_, _ = t.Arguments().ToIPLD()
		}},
	}
	reps := w.Pick(3, 12)
	for rep := 0; rep < reps; rep++ {
		for oi, o := range dlgOps {
			d, iss := mkDlg(rep*31 + oi + w.Shard*7)
			if d == nil {
				w.Inconclusive("C20 pristine delegation could not be built")
				continue
			}
			before := snapshotDlg(d)
			pi := mon.Guard(func() { o.f(d, iss) })
			after := snapshotDlg(d)
			w.Eval(1)
			w.Cover("pristine/phaseA")
			w.Distinct("pristine", "dlg", o.name, rep)
			if pi == nil && before != after {
				w.Violate("pristine/mutates/Delegation."+o.name, fmt.Sprintf("the first %s on a delegation fresh from the constructor changes the token: %s", o.name, firstDiff(before, after)),
					map[string]any{"op": o.name, "snapshot_before": mon.Trunc(before, 2000), "snapshot_after": mon.Trunc(after, 2000)})
			}
		}
		for oi, o := range invOps {
			t, iss := mkInv(rep*31 + oi + w.Shard*7)
			if t == nil {
				w.Inconclusive("C20 pristine invocation could not be built")
				continue
			}
			before := snapshotInv(t)
			pi := mon.Guard(func() { o.f(t, iss) })
			after := snapshotInv(t)
			w.Eval(1)
			w.Distinct("pristine", "inv", o.name, rep)
			if pi == nil && before != after {
				w.Violate("pristine/mutates/Invocation."+o.name, fmt.Sprintf("the first %s on an invocation fresh from the constructor changes the token: %s", o.name, firstDiff(before, after)),
					map[string]any{"op": o.name, "snapshot_before": mon.Trunc(before, 2000), "snapshot_after": mon.Trunc(after, 2000)})
			}
		}
		// phase B on a fresh token: the first encodings while others read
		d, iss := mkDlg(rep*31 + 17 + w.Shard*7)
		t, iss2 := mkInv(rep*31 + 18 + w.Shard*7)
		if d == nil || t == nil {
			continue
		}
		beforeD, beforeT := snapshotDlg(d), snapshotInv(t)
		var wg sync.WaitGroup
		start := make(chan struct{})
		var diffs [8]string
		for g := 0; g < 8; g++ {
			g := g
			wg.Add(1)
			go func() {
				defer wg.Done()
				<-start
				for i := 0; i < 6; i++ {
					switch g % 4 {
					case 0:
						mon.Guard(func() { dlgOps[(g+i)%6].f(d, iss) })
					case 1:
						mon.Guard(func() { invOps[(g+i)%5].f(t, iss2) })
					case 2:
						if s := snapshotDlg(d); s != beforeD && diffs[g] == "" {
							diffs[g] = "delegation: " + firstDiff(beforeD, s)
						}
					default:
						if s := snapshotInv(t); s != beforeT && diffs[g] == "" {
							diffs[g] = "invocation: " + firstDiff(beforeT, s)
						}
					}
				}
			}()
		}
		close(start)
		wg.Wait()
		w.Eval(48)
		w.Cover("pristine/phaseB")
		if s := snapshotDlg(d); s != beforeD {
			diffs[2] = "delegation (afterwards): " + firstDiff(beforeD, s)
		}
		if s := snapshotInv(t); s != beforeT {
			diffs[3] = "invocation (afterwards): " + firstDiff(beforeT, s)
		}
		for _, df := range diffs {
			if df != "" {
				w.Violate("pristine/changes-under-concurrent-first-encoding", "a token fresh from the constructor reads differently while / after it is encoded for the first time by other goroutines: "+df, map[string]any{"detail": df, "race_build": w.Race})
				break
			}
		}
	}
}
