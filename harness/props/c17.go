package props

import (
	"bytes"
	"encoding/base64"
	"encoding/binary"
	"fmt"
	"io"
	"sort"
	"strings"
	"testing/iotest"

	"github.com/ipfs/go-cid"
	mh "github.com/multiformats/go-multihash"

	"github.com/ucan-wg/go-ucan/pkg/container"
	"github.com/ucan-wg/go-ucan/token"
	"github.com/ucan-wg/go-ucan/token/delegation"
	"github.com/ucan-wg/go-ucan/token/invocation"

	"verifharness/gen"
	"verifharness/mon"
	"verifharness/ref"
)

func init() {
	register(&mon.Prop{
		ID:    "C17",
		Level: "exploration",
		Rule: "token sets T with |T| in {0,1,2,5,40} (mixed delegations/invocations, all key kinds, insertion order permuted); FULL matrix 4 formats x {bytes, stream} writer x {bytes, stream} reader for every T, set cardinalities across the framing thresholds (23/24/25, 257; thorough 255..257, 1023..1025, 4097, 65535..65537) with a corruption planted in the last / a late entry, plus a size sweep (a token padded so that its CAR section has every length within +-3 of 512, 1024, ... 16384 (65536 in thorough) bytes, in both insertion orders): reading must succeed, the key set must equal {CID of sealed bytes} (computed by the harness), every token must equal the direct decode of its sealed bytes and be retrievable through GetToken / GetDelegation / GetInvocation / GetAll*. " +
			"single-entry corruptions of containers built by the harness's own CAR/CBOR encoders: each entry in turn bit-flipped in payload and in signature (CAR: with the stale CID and with a recomputed CID), replaced by non-token bytes, truncated; CAR: entry under another entry's CID, section length off by one, the file cut right after a section's length prefix / inside its CID / inside its data / inside the header; CBOR: the file cut at several offsets, CBOR: wrong version key, extra key, non-bytes entry, non-map root; reading must fail, never return a partial or mislabelled set. " +
			"Purity (also in a -race build): a sample of these calls on shared objects is repeated in reverse / shuffled order and from 16..32 goroutines at once; every outcome must equal the first one and the race detector must stay silent. " +
			"non-trivial = |T|>=2; distinct = (set digest, format, writer, reader) / (set digest, corruption, entry).",
		Assumptions: []string{
			"CID = CIDv1(dag-cbor, sha2-256) computed by ref.CID; CAR/CBOR container framing re-implemented in the harness (ref.BuildCAR / ref.EncodeDagCbor) to plant corruptions",
			"a CAR block stored under a CID with another codec / hash function / CID version that does hash to its data may be refused or accepted, but if accepted the token must be filed under the CID of its sealed bytes",
		},
		Shards:          shards(8, 16),
		RaceShards:      shards(1, 2),
		RaceIsViolation: true,
		Run:             runC17,
		MinEvals:        floor(1800, 50000),
		MinDistinct:     floor(800, 20000),
		RequiredCells: func(string) []string {
			cells := []string{"base64-text-edit/cbor64", "base64-text-edit/car64", "purity/container/history", "purity/container/concurrent", "large", "large/n=24", "large/n=257", "corrupt/large-late-entry", "size-sweep", "foreign-cid/raw-codec", "foreign-cid/sha2-512", "foreign-cid/cidv0", "size=0", "size=1", "size=2", "size=5", "size=40", "get/delegation", "get/invocation", "get/all"}
			for _, f := range containerNames {
				for _, wv := range []string{"bytes", "stream"} {
					for _, rv := range []string{"bytes", "stream"} {
						cells = append(cells, "rw/"+f+"/w="+wv+"/r="+rv)
					}
				}
			}
			for _, c := range []string{"car/bitflip-payload-stale-cid", "car/bitflip-payload-recomputed-cid", "car/bitflip-signature-recomputed-cid", "car/tag-changed-recomputed-cid", "cbor/tag-changed", "car/stub-section", "car/non-token", "car/truncated-entry", "car/wrong-cid", "car/length-off-by-one", "car/cut-after-length-prefix", "car/cut-inside-cid", "car/cut-inside-data", "car/cut-inside-header", "cbor/cut", "cbor/bitflip-payload", "cbor/bitflip-signature", "cbor/non-token", "cbor/truncated-entry", "cbor/wrong-version", "cbor/extra-key", "cbor/non-bytes-entry", "cbor/non-map-root"} {
				cells = append(cells, "corrupt/"+c)
			}
			return cells
		},
	})
}

type sealedTok struct {
	spec   *gen.TokenSpec
	sealed []byte
	cid    cid.Cid
	fields ref.V
}

func makeSealedSet(w *mon.W, n int, anyAlgPct int, noBig ...bool) []sealedTok {
	var out []sealedTok
	for len(out) < n {
		typ := []string{"dlg", "inv"}[w.Rng.IntN(2)]
		s := gen.RandomSpec(w.Rng, typ, gen.SpecOpts{AnyAlgPct: anyAlgPct, NoBig: len(noBig) > 0 && noBig[0]})
		tk, err := s.Build()
		if err != nil {
			continue
		}
		sealed, _, err := tk.ToSealed(s.Iss.Priv)
		if err != nil {
			continue
		}
		t0, _, err := token.FromSealed(sealed)
		if err != nil {
			continue
		}
		out = append(out, sealedTok{s, sealed, ref.CID(sealed), gen.Fields(t0)})
	}
	return out
}

func writeContainer(wr container.Writer, format int, stream bool) ([]byte, error) {
	if !stream {
		switch format {
		case 0:
			return wr.ToCbor()
		case 1:
			return wr.ToCar()
		case 2:
			return wr.ToCborBase64()
		default:
			return wr.ToCarBase64()
		}
	}
	var buf bytes.Buffer
	var err error
	switch format {
	case 0:
		err = wr.ToCborWriter(&buf)
	case 1:
		err = wr.ToCarWriter(&buf)
	case 2:
		err = wr.ToCborBase64Writer(&buf)
	default:
		err = wr.ToCarBase64Writer(&buf)
	}
	return buf.Bytes(), err
}

func readContainer(data []byte, format int, stream bool, rd func([]byte) io.Reader) (container.Reader, error) {
	if !stream {
		switch format {
		case 0:
			return container.FromCbor(data)
		case 1:
			return container.FromCar(data)
		case 2:
			return container.FromCborBase64(data)
		default:
			return container.FromCarBase64(data)
		}
	}
	r := rd(data)
	switch format {
	case 0:
		return container.FromCborReader(r)
	case 1:
		return container.FromCarReader(r)
	case 2:
		return container.FromCborBase64Reader(r)
	default:
		return container.FromCarBase64Reader(r)
	}
}

func setDigest(set []sealedTok) string {
	var ks []string
	for _, t := range set {
		ks = append(ks, t.cid.String())
	}
	sort.Strings(ks)
	return fmt.Sprint(ks)
}

// checkReader compares what a reader holds with the set that was written.
func checkReader(w *mon.W, rd container.Reader, set []sealedTok, where string, c func() map[string]any) {
	want := map[string]sealedTok{}
	for _, t := range set {
		want[t.cid.KeyString()] = t
	}
	if len(rd) != len(want) {
		m := c()
		m["got_entries"] = len(rd)
		m["want_entries"] = len(want)
		w.Violate("roundtrip/size/"+where, fmt.Sprintf("%s: %d tokens were put in, the reader holds %d", where, len(want), len(rd)), m)
		return
	}
	nd, ni := 0, 0
	for k, tk := range rd {
		t, ok := want[k.KeyString()]
		if !ok {
			m := c()
			m["unexpected_key"] = k.String()
			w.Violate("roundtrip/mislabelled/"+where, fmt.Sprintf("%s: the reader files a token under %s, which is not the CID of any sealed token put in", where, k), m)
			return
		}
		if diff := c06Diff(t.fields, gen.Fields(tk)); diff != "" {
			m := c()
			m["cid"] = k.String()
			w.Violate("roundtrip/token-differs/"+where, fmt.Sprintf("%s: the token under %s differs from the direct decode of its sealed bytes in %q", where, k, diff), m)
			return
		}
		got, err := rd.GetToken(k)
		if err != nil || got != tk {
			w.Violate("roundtrip/gettoken/"+where, fmt.Sprintf("GetToken(%s) err=%v", k, err), c())
		}
		switch tk.(type) {
		case *delegation.Token:
			nd++
			d, err := rd.GetDelegation(k)
			w.Cover("get/delegation")
			if err != nil || d == nil {
				w.Violate("roundtrip/getdelegation/"+where, fmt.Sprintf("GetDelegation(%s) err=%v", k, err), c())
			}
		case *invocation.Token:
			ni++
			if _, err := rd.GetDelegation(k); err == nil {
				w.Violate("roundtrip/getdelegation-returns-invocation/"+where, "GetDelegation returned an invocation", c())
			}
		}
	}
	cd, ci := 0, 0
	for range rd.GetAllDelegations() {
		cd++
	}
	for range rd.GetAllInvocations() {
		ci++
	}
	w.Cover("get/all")
	if cd != nd || ci != ni {
		w.Violate("roundtrip/getall/"+where, fmt.Sprintf("GetAllDelegations/GetAllInvocations yield %d/%d, the set holds %d/%d", cd, ci, nd, ni), c())
	}
	inv, err := rd.GetInvocation()
	w.Cover("get/invocation")
	switch {
	case ni == 1 && (err != nil || inv == nil):
		w.Violate("roundtrip/getinvocation/"+where, fmt.Sprintf("GetInvocation with exactly one invocation: err=%v", err), c())
	case ni != 1 && err == nil:
		w.Violate("roundtrip/getinvocation/"+where, fmt.Sprintf("GetInvocation succeeded with %d invocations", ni), c())
	}
}

// BuildCAR assembles a CARv1 from (cid, data) blocks; lenDelta lets one section lie about
// its length.
func buildCAR(blocks [][2][]byte, lieAt, lenDelta int) []byte {
	var out []byte
	empty, _ := cid.Cast([]byte{1, 0x55, 0, 0})
	hdr, _ := ref.EncodeDagCbor(ref.Map(ref.E("roots", ref.List(ref.Link(empty))), ref.E("version", ref.Int(1))))
	out = binary.AppendUvarint(out, uint64(len(hdr)))
	out = append(out, hdr...)
	for i, b := range blocks {
		l := len(b[0]) + len(b[1])
		if i == lieAt {
			l += lenDelta
		}
		out = binary.AppendUvarint(out, uint64(l))
		out = append(out, b[0]...)
		out = append(out, b[1]...)
	}
	return out
}

func buildCborContainer(version string, entries []ref.V, extra bool) []byte {
	m := ref.Map(ref.E(version, ref.V{K: ref.KList, L: entries}))
	if extra {
		m.M = append(m.M, ref.KV{K: "x", V: ref.Int(1)})
	}
	b, _ := ref.EncodeDagCbor(m)
	return b
}

func runC17(w *mon.W) {
	if purityGate(w, c17Purity) {
		return
	}
	c17Base64Text(w)
	c17SizeSweep(w)
	c17Large(w)
	r := w.Rng
	sizes := []int{0, 1, 2, 5, 40}
	nsets := w.Share(w.Pick(120, 2000))
	readers := []struct {
		name string
		f    func([]byte) io.Reader
	}{
		{"plain", func(b []byte) io.Reader { return bytes.NewReader(b) }},
		{"one-byte", func(b []byte) io.Reader { return iotest.OneByteReader(bytes.NewReader(b)) }},
		{"data-err", func(b []byte) io.Reader { return iotest.DataErrReader(bytes.NewReader(b)) }},
		// a legal reader that now and then returns no data and no error, and short pieces otherwise
		{"empty-reads", func(b []byte) io.Reader { return &zeroReader{r: bytes.NewReader(b)} }},
		{"half", func(b []byte) io.Reader { return iotest.HalfReader(bytes.NewReader(b)) }},
	}
	for it := 0; it < nsets; it++ {
		n := sizes[it%len(sizes)]
		if n == 40 && it%(len(sizes)*4) != 4 {
			n = 3 + r.IntN(5)
		}
		set := makeSealedSet(w, n, 30)
		w.Cover(fmt.Sprintf("size=%d", len(set)))
		digest := setDigest(set)
		wr := container.NewWriter()
		for _, i := range r.Perm(len(set)) {
			wr.AddSealed(set[i].cid, set[i].sealed)
		}
		desc := func(format int, wstream, rstream bool, data []byte) func() map[string]any {
			return func() map[string]any {
				var toks []string
				for _, t := range set {
					toks = append(toks, mon.Hex(t.sealed))
				}
				return map[string]any{"format": containerNames[format], "writer_stream": wstream, "reader_stream": rstream, "sealed_tokens_hex": toks, "container_hex": mon.Hex(capBytes(data, 8192))}
			}
		}
		for format := 0; format < 4; format++ {
			for _, wstream := range []bool{false, true} {
				data, err := writeContainer(wr, format, wstream)
				w.Eval(1)
				wv := map[bool]string{false: "bytes", true: "stream"}
				if err != nil {
					w.Violate("write-fails/"+containerNames[format]+"/w="+wv[wstream], "writing a container failed: "+err.Error(), desc(format, wstream, false, nil)())
					continue
				}
				for _, rstream := range []bool{false, true} {
					rdr := readers[(it+format)%len(readers)]
					rd, err := readContainer(data, format, rstream, rdr.f)
					w.Eval(1)
					where := containerNames[format] + "/w=" + wv[wstream] + "/r=" + wv[rstream]
					w.Cover("rw/" + where)
					if len(set) >= 2 {
						w.Distinct(digest, where)
					}
					if err != nil {
						m := desc(format, wstream, rstream, data)()
						m["error"] = err.Error()
						w.Violate("roundtrip/read-fails/"+where, fmt.Sprintf("reading back a %s container written by the library fails (writer %s, reader %s): %v", containerNames[format], wv[wstream], wv[rstream], err), m)
						continue
					}
					checkReader(w, rd, set, where, desc(format, wstream, rstream, data))
				}
			}
		}
		if w.WantSample() && len(set) == 2 {
			b, _ := wr.ToCar()
			w.Sample(map[string]any{"tokens": []string{set[0].cid.String(), set[1].cid.String()}, "car_hex": mon.Hex(capBytes(b, 600)), "combinations": 16})
		}

		// ---- corruptions (on sets of 1..5 tokens)
		if len(set) == 0 || len(set) > 6 || it%2 == 1 {
			continue
		}
		victim := r.IntN(len(set))
		v := set[victim]
		corrupt := func(kind string) []byte {
			b := append([]byte{}, v.sealed...)
			switch kind {
			case "bitflip-payload":
				// the payload sits after the signature: flip a bit in the last third
				pos := len(b)*2/3 + r.IntN(len(b)/3)
				b[pos] ^= 1 << r.IntN(8)
			case "bitflip-signature":
				// the signature byte string starts at offset ~3
				pos := 4 + r.IntN(16)
				b[pos] ^= 1 << r.IntN(8)
			case "tag-changed":
				// one byte of the payload tag ("ucan/dlg@1.0.0-rc.1" -> e.g. "...rc.0"): a token of a
				// type the library does not know, and whose signature no longer verifies
				if i := bytes.Index(b, []byte("ucan/")); i >= 0 && i+19 <= len(b) {
					pos := i + 5 + r.IntN(14)
					if r.IntN(2) == 0 {
						pos = i + 18
					}
					b[pos] ^= 0x01
				}
			case "non-token":
				b = gen.Bytes(r, 40)
			case "truncated":
				b = b[:len(b)/2]
			}
			return b
		}
		expectFail := func(kind string, data []byte, format int) {
			for _, rstream := range []bool{false, true} {
				rd, err := readContainer(data, format, rstream, func(b []byte) io.Reader { return bytes.NewReader(b) })
				w.Eval(1)
				w.Cover("corrupt/" + kind)
				w.Distinct(digest, kind, victim, rstream)
				if err == nil {
					var keys []string
					for k := range rd {
						keys = append(keys, k.String())
					}
					w.Violate("corrupt-accepted/"+kind, fmt.Sprintf("a %s container with one corrupted entry (%s, entry %d of %d) is read without error (%d tokens returned)", containerNames[format], kind, victim, len(set), len(rd)),
						map[string]any{"format": containerNames[format], "corruption": kind, "entry": victim, "container_hex": mon.Hex(capBytes(data, 8192)), "returned_keys": keys, "reader_stream": rstream})
				}
			}
		}
		carBlocks := func(mod func(i int, c cid.Cid, d []byte) (cid.Cid, []byte)) [][2][]byte {
			var bl [][2][]byte
			for i, t := range set {
				c, d := t.cid, t.sealed
				if i == victim {
					c, d = mod(i, c, d)
				}
				bl = append(bl, [2][]byte{c.Bytes(), d})
			}
			return bl
		}
		entries := func(mod func() ref.V) []ref.V {
			var es []ref.V
			for i, t := range set {
				if i == victim {
					es = append(es, mod())
				} else {
					es = append(es, ref.Bytes(t.sealed))
				}
			}
			return es
		}
		// CAR
		expectFail("car/bitflip-payload-stale-cid", buildCAR(carBlocks(func(i int, c cid.Cid, d []byte) (cid.Cid, []byte) { return c, corrupt("bitflip-payload") }), -1, 0), 1)
		expectFail("car/bitflip-payload-recomputed-cid", buildCAR(carBlocks(func(i int, c cid.Cid, d []byte) (cid.Cid, []byte) {
			nd := corrupt("bitflip-payload")
			return ref.CID(nd), nd
		}), -1, 0), 1)
		expectFail("car/bitflip-signature-recomputed-cid", buildCAR(carBlocks(func(i int, c cid.Cid, d []byte) (cid.Cid, []byte) {
			nd := corrupt("bitflip-signature")
			return ref.CID(nd), nd
		}), -1, 0), 1)
		expectFail("car/tag-changed-recomputed-cid", buildCAR(carBlocks(func(i int, c cid.Cid, d []byte) (cid.Cid, []byte) {
			nd := corrupt("tag-changed")
			return ref.CID(nd), nd
		}), -1, 0), 1)
		expectFail("cbor/tag-changed", buildCborContainer("ctn-v1", entries(func() ref.V { return ref.Bytes(corrupt("tag-changed")) }), false), 0)
		// a correctly framed section that holds only the beginning of a CID, a bare CID, or a CID and
		// one byte (valid sections may follow it)
		for _, stub := range [][]byte{{0x01}, {0x01, 0x71}, {0x01, 0x71, 0x12}, {0x01, 0x71, 0x12, 0x20}, {0x12}, {0x12, 0x20}, v.cid.Bytes()[:20], v.cid.Bytes(), append(append([]byte{}, v.cid.Bytes()...), v.sealed[0])} {
			stub := stub
			expectFail("car/stub-section", buildCAR(carBlocks(func(i int, c cid.Cid, d []byte) (cid.Cid, []byte) { return cid.Undef, stub }), -1, 0), 1)
		}
		expectFail("car/non-token", buildCAR(carBlocks(func(i int, c cid.Cid, d []byte) (cid.Cid, []byte) {
			nd := corrupt("non-token")
			return ref.CID(nd), nd
		}), -1, 0), 1)
		expectFail("car/truncated-entry", buildCAR(carBlocks(func(i int, c cid.Cid, d []byte) (cid.Cid, []byte) {
			nd := corrupt("truncated")
			return ref.CID(nd), nd
		}), -1, 0), 1)
		{
			// under another CID that does not hash to the data
			otherCid := ref.CID([]byte("something else"))
			if len(set) > 1 {
				otherCid = set[(victim+1)%len(set)].cid
			}
			expectFail("car/wrong-cid", buildCAR(carBlocks(func(i int, c cid.Cid, d []byte) (cid.Cid, []byte) { return otherCid, d }), -1, 0), 1)
		}
		// a section CID that does hash to its data but is not the UCAN form (raw codec, sha2-512):
		// reading may fail, but if it succeeds every token must still be filed under the CID of its
		// sealed bytes
		for _, alt := range []string{"raw-codec", "sha2-512", "cidv0"} {
			alt := alt
			data := buildCAR(carBlocks(func(i int, c cid.Cid, d []byte) (cid.Cid, []byte) {
				switch alt {
				case "raw-codec":
					return cid.NewCidV1(0x55, c.Hash()), d
				case "sha2-512":
					h, _ := mh.Sum(d, mh.SHA2_512, -1)
					return cid.NewCidV1(0x71, h), d
				default:
					return cid.NewCidV0(c.Hash()), d
				}
			}), -1, 0)
			for _, rstream := range []bool{false, true} {
				rd, err := readContainer(data, 1, rstream, func(b []byte) io.Reader { return bytes.NewReader(b) })
				w.Eval(1)
				w.Cover("foreign-cid/" + alt)
				w.Distinct(digest, "foreign-cid", alt, victim, rstream)
				if err != nil {
					continue
				}
				checkReader(w, rd, set, "car-foreign-cid-"+alt, func() map[string]any {
					return map[string]any{"format": "car", "victim_entry_stored_under": alt, "entry": victim, "container_hex": mon.Hex(capBytes(data, 8192))}
				})
			}
		}
		expectFail("car/length-off-by-one", buildCAR(carBlocks(func(i int, c cid.Cid, d []byte) (cid.Cid, []byte) { return c, d }), victim, gen.Pick(r, []int{1, -1})), 1)
		// the container file itself cut inside a section: right after the section's length
		// prefix, inside its CID, inside its data (a cut exactly between two sections is C18's
		// legitimately undetectable case and is not injected here)
		{
			good := buildCAR(carBlocks(func(i int, c cid.Cid, d []byte) (cid.Cid, []byte) { return c, d }), -1, 0)
			cuts, _, err := ref.SplitCAR(good)
			if err == nil && len(cuts) >= 2 {
				for bi := 1; bi < len(cuts); bi++ {
					start, end := cuts[bi-1], cuts[bi]
					_, n := binary.Uvarint(good[start:])
					for name, at := range map[string]int{"car/cut-after-length-prefix": start + n, "car/cut-inside-cid": start + n + 5, "car/cut-inside-data": start + n + 36 + (end-start-n-36)/2, "car/cut-inside-length-prefix": start + 1} {
						if at <= start || at >= end || (name == "car/cut-inside-length-prefix" && n < 2) {
							continue
						}
						expectFail(name, good[:at], 1)
						if at%3 == 0 {
							expectFail(name, []byte(base64.StdEncoding.EncodeToString(good[:at])), 3)
						}
					}
				}
				// inside the header section
				expectFail("car/cut-inside-header", good[:cuts[0]/2], 1)
			}
			gc := buildCborContainer("ctn-v1", entries(func() ref.V { return ref.Bytes(v.sealed) }), false)
			for _, at := range []int{1, len(gc) / 3, len(gc) / 2, len(gc) - 1} {
				if at > 0 && at < len(gc) {
					expectFail("cbor/cut", gc[:at], 0)
				}
			}
		}
		// base64 CAR of a corrupted CAR
		{
			raw := buildCAR(carBlocks(func(i int, c cid.Cid, d []byte) (cid.Cid, []byte) { return c, corrupt("bitflip-payload") }), -1, 0)
			expectFail("car/bitflip-payload-stale-cid", []byte(base64.StdEncoding.EncodeToString(raw)), 3)
		}
		// CBOR
		for _, kind := range []string{"bitflip-payload", "bitflip-signature", "non-token", "truncated"} {
			name := kind
			if kind == "truncated" {
				name = "truncated-entry"
			}
			kind := kind
			expectFail("cbor/"+name, buildCborContainer("ctn-v1", entries(func() ref.V { return ref.Bytes(corrupt(kind)) }), false), 0)
		}
		good := entries(func() ref.V { return ref.Bytes(v.sealed) })
		expectFail("cbor/wrong-version", buildCborContainer("ctn-v2", good, false), 0)
		expectFail("cbor/extra-key", buildCborContainer("ctn-v1", good, true), 0)
		expectFail("cbor/non-bytes-entry", buildCborContainer("ctn-v1", entries(func() ref.V { return ref.Str(string(v.sealed[:10])) }), false), 0)
		{
			b, _ := ref.EncodeDagCbor(ref.V{K: ref.KList, L: good})
			expectFail("cbor/non-map-root", b, 0)
			expectFail("cbor/bitflip-payload", []byte(base64.StdEncoding.EncodeToString(buildCborContainer("ctn-v1", entries(func() ref.V { return ref.Bytes(corrupt("bitflip-payload")) }), false))), 2)
		}
		// sanity of the harness's own encoders: the uncorrupted forms must read back
		if rd, err := container.FromCar(buildCAR(carBlocks(func(i int, c cid.Cid, d []byte) (cid.Cid, []byte) { return c, d }), -1, 0)); err != nil || len(rd) != len(uniqueCids(set)) {
			w.Inconclusive(fmt.Sprintf("C17 harness CAR encoder is not read back by the library (err=%v)", err))
		}
		if rd, err := container.FromCbor(buildCborContainer("ctn-v1", good, false)); err != nil || len(rd) != len(uniqueCids(set)) {
			w.Inconclusive(fmt.Sprintf("C17 harness CBOR container encoder is not read back by the library (err=%v)", err))
		}
	}
}

// sizedToken builds a sealed delegation whose sealed length is exactly want bytes (padding a
// metadata string); ok=false if that length cannot be hit.
func sizedToken(w *mon.W, want int) (sealedTok, bool) {
	iss := gen.Ed(4)
	mk := func(pad int) (sealedTok, error) {
		s := gen.RandomSpec(w.Rng, "dlg", gen.SpecOpts{Issuer: iss, Minimal: true})
		s.Nonce = make([]byte, 12)
		s.Aud = gen.Ed(5)
		s.Cmd = "/a"
		s.Meta = ref.Map(ref.E("pad", ref.Str(strings.Repeat("p", pad))))
		tk, err := s.Build()
		if err != nil {
			return sealedTok{}, err
		}
		sealed, _, err := tk.ToSealed(iss.Priv)
		if err != nil {
			return sealedTok{}, err
		}
		t0, _, err := token.FromSealed(sealed)
		if err != nil {
			return sealedTok{}, err
		}
		return sealedTok{s, sealed, ref.CID(sealed), gen.Fields(t0)}, nil
	}
	base, err := mk(0)
	if err != nil || want <= len(base.sealed) {
		return sealedTok{}, false
	}
	pad := want - len(base.sealed)
	for try := 0; try < 6; try++ {
		t, err := mk(pad)
		if err != nil {
			return sealedTok{}, false
		}
		if len(t.sealed) == want {
			return t, true
		}
		pad += want - len(t.sealed)
		if pad < 0 {
			return sealedTok{}, false
		}
	}
	return sealedTok{}, false
}

// c17SizeSweep: containers holding a token whose CAR section (36-byte CID + sealed bytes) has
// every length within +-3 of a power-of-two boundary, through the full writer x reader matrix.
func c17SizeSweep(w *mon.W) {
	other := makeSealedSet(w, 1, 0, true)
	idx := 0
	for _, b := range []int{512, 1024, 2048, 4096, 8192, 16384, 32768, 65536} {
		if !w.Thorough() && b > 16384 {
			continue
		}
		for d := -3; d <= 3; d++ {
			idx++
			if !w.Mine(idx) {
				continue
			}
			section := b + d
			t, ok := sizedToken(w, section-36)
			if !ok {
				w.Count("size-sweep-length-not-reachable", 1)
				continue
			}
			set := []sealedTok{t, other[0]}
			for _, order := range [][]int{{0, 1}, {1, 0}} {
				wr := container.NewWriter()
				for _, i := range order {
					wr.AddSealed(set[i].cid, set[i].sealed)
				}
				for format := 0; format < 4; format++ {
					for _, wstream := range []bool{false, true} {
						data, err := writeContainer(wr, format, wstream)
						if err != nil {
							w.Violate("write-fails/size-sweep/"+containerNames[format], fmt.Sprintf("writing a container with a %d-byte section failed: %v", section, err), map[string]any{"section": section})
							continue
						}
						for _, rstream := range []bool{false, true} {
							rd, err := readContainer(data, format, rstream, func(b []byte) io.Reader { return bytes.NewReader(b) })
							w.Eval(1)
							w.Cover("size-sweep")
							w.Distinct("size-sweep", section, format, wstream, rstream)
							where := fmt.Sprintf("%s/section=%d", containerNames[format], section)
							desc := func() map[string]any {
								return map[string]any{"format": containerNames[format], "section_bytes": section, "sealed_bytes": len(t.sealed), "writer_stream": wstream, "reader_stream": rstream, "token_hex": mon.Hex(t.sealed)}
							}
							if err != nil {
								m := desc()
								m["error"] = err.Error()
								w.Violate("roundtrip/read-fails/size-sweep/"+containerNames[format], fmt.Sprintf("a %s container holding a token whose section is %d bytes cannot be read back: %v", containerNames[format], section, err), m)
								continue
							}
							checkReader(w, rd, set, where, desc)
						}
					}
				}
			}
		}
	}
}

func uniqueCids(set []sealedTok) map[string]bool {
	m := map[string]bool{}
	for _, t := range set {
		m[t.cid.KeyString()] = true
	}
	return m
}

// c17Large: set cardinalities on both sides of every length-encoding threshold of the
// container framings (CBOR array heads at 24 / 256 / 65536 entries) and beyond any plausible
// pre-allocation cap, through the writer x reader matrix; plus a corruption planted in the
// LAST entry and in one in the upper half of a harness-built CAR / CBOR container, which must
// make reading fail however many entries precede it.
func c17Large(w *mon.W) {
	cards := []int{23, 24, 25, 257}
	if w.Thorough() {
		cards = []int{23, 24, 25, 100, 255, 256, 257, 300, 1000, 1023, 1024, 1025, 4097, 65535, 65536, 65537}
	}
	r := w.Rng
	var pool []sealedTok
	grow := func(n int) bool {
		for len(pool) < n {
			typ := "dlg"
			if len(pool)%7 == 3 {
				typ = "inv"
			}
			iss := gen.Ed(len(pool))
			s := gen.RandomSpec(r, typ, gen.SpecOpts{Issuer: iss, Minimal: true})
			tk, err := s.Build()
			if err != nil {
				return false
			}
			sealed, _, err := tk.ToSealed(iss.Priv)
			if err != nil {
				return false
			}
			t0, _, err := token.FromSealed(sealed)
			if err != nil {
				return false
			}
			pool = append(pool, sealedTok{s, sealed, ref.CID(sealed), gen.Fields(t0)})
		}
		return true
	}
	for ci, n := range cards {
		if !w.Mine(ci) {
			continue
		}
		if !grow(n) {
			w.Inconclusive("C17 large set could not be built")
			return
		}
		set := pool[:n]
		wr := container.NewWriter()
		for _, i := range r.Perm(n) {
			wr.AddSealed(set[i].cid, set[i].sealed)
		}
		wv := map[bool]string{false: "bytes", true: "stream"}
		for format := 0; format < 4; format++ {
			for _, wstream := range []bool{false, true} {
				data, err := writeContainer(wr, format, wstream)
				w.Eval(1)
				if err != nil {
					w.Violate("write-fails/large/"+containerNames[format], fmt.Sprintf("writing a container of %d tokens failed: %v", n, err), map[string]any{"tokens": n})
					continue
				}
				for _, rstream := range []bool{false, true} {
					if n > 5000 && wstream != rstream {
						continue
					}
					rd, err := readContainer(data, format, rstream, func(b []byte) io.Reader { return bytes.NewReader(b) })
					w.Eval(1)
					w.Cover("large")
					w.Cover(fmt.Sprintf("large/n=%d", n))
					w.Distinct("large", n, format, wstream, rstream)
					where := fmt.Sprintf("%s/large/w=%s/r=%s", containerNames[format], wv[wstream], wv[rstream])
					desc := func() map[string]any {
						return map[string]any{"format": containerNames[format], "tokens": n, "writer_stream": wstream, "reader_stream": rstream, "note": "minimal Ed25519 tokens; first token hex", "first_token_hex": mon.Hex(set[0].sealed)}
					}
					if err != nil {
						m := desc()
						m["error"] = err.Error()
						total := 0
						for _, t := range set {
							total += len(t.sealed) + 8
						}
						m["total_sealed_bytes"] = total
						if strings.Contains(err.Error(), "demanded too many resources") && total >= 10<<20 && (format == 0 || format == 2) {
							// the dependency's DAG-CBOR decoder has a fixed allocation budget of 10 MiB per
							// document: a CBOR container holding more than that is written but cannot be read
							w.Violate("roundtrip/read-fails/allocation-budget/"+containerNames[format]+"/over-10MiB", fmt.Sprintf("a %s container of %d tokens (%d bytes of sealed tokens, more than the 10 MiB allocation budget of the DAG-CBOR decoder) written by the library cannot be read back: %v", containerNames[format], n, total, err), m)
							continue
						}
						w.Violate("roundtrip/read-fails/large/"+containerNames[format], fmt.Sprintf("a %s container of %d tokens written by the library cannot be read back: %v", containerNames[format], n, err), m)
						continue
					}
					checkReader(w, rd, set, where, desc)
				}
			}
		}
		// corruption late in a harness-built container
		for _, victim := range []int{n - 1, n/2 + r.IntN(n/2)} {
			bad := append([]byte{}, set[victim].sealed...)
			bad[len(bad)-3] ^= 0x10
			var bl [][2][]byte
			var es []ref.V
			for i, t := range set {
				d := t.sealed
				c := t.cid
				if i == victim {
					d = bad
					c = ref.CID(bad)
				}
				bl = append(bl, [2][]byte{c.Bytes(), d})
				es = append(es, ref.Bytes(d))
			}
			for format, data := range map[int][]byte{1: buildCAR(bl, -1, 0), 0: buildCborContainer("ctn-v1", es, false)} {
				for _, rstream := range []bool{false, true} {
					rd, err := readContainer(data, format, rstream, func(b []byte) io.Reader { return bytes.NewReader(b) })
					w.Eval(1)
					w.Cover("corrupt/large-late-entry")
					w.Distinct("large-corrupt", n, victim, format, rstream)
					if err == nil {
						w.Violate("corrupt-accepted/large/"+containerNames[format], fmt.Sprintf("a %s container of %d entries whose entry %d has a flipped payload bit (signature no longer verifies) is read without error (%d tokens returned)", containerNames[format], n, victim, len(rd)),
							map[string]any{"format": containerNames[format], "entries": n, "corrupted_entry": victim, "reader_stream": rstream, "corrupted_token_hex": mon.Hex(bad)})
					}
				}
			}
		}
	}
}

// c17Base64Text: one character of the base64 TEXT of a written container replaced - by padding,
// by a character of the URL alphabet, by white space, by something outside every alphabet - at
// the text offsets where an entry starts (and next to them) and at random ones. Whatever a
// lenient text decoder makes of it, reading fails or returns the whole set; never a part of it.
func c17Base64Text(w *mon.W) {
	r := w.Rng
	for it := 0; it < w.Share(w.Pick(24, 200)); it++ {
		n := 2 + r.IntN(4)
		set := makeSealedSet(w, n, 0, true)
		wr := container.NewWriter()
		for _, t := range set {
			wr.AddSealed(t.cid, t.sealed)
		}
		full := setDigest(set)
		for _, format := range []int{2, 3} {
			text, err := writeContainer(wr, format, false)
			if err != nil {
				continue
			}
			var offs []int
			if raw, err := base64.StdEncoding.DecodeString(string(text)); err == nil {
				if format == 3 {
					if cuts, _, err := ref.SplitCAR(raw); err == nil {
						for _, b := range cuts {
							p := (4*b + 2) / 3
							offs = append(offs, p-1, p, p+1)
						}
					}
				} else {
					// CBOR container: the entries are byte strings inside one list; their starts are found
					// by looking for each sealed token
					for _, t := range set {
						if b := bytes.Index(raw, t.sealed); b > 0 {
							p := (4*b + 2) / 3
							offs = append(offs, p-4, p-1, p, p+1)
						}
					}
				}
			}
			for k := 0; k < 12; k++ {
				offs = append(offs, r.IntN(len(text)))
			}
			offs = append(offs, len(text)-1, len(text)-2, len(text)-3)
			for _, p := range offs {
				if p < 0 || p >= len(text) {
					continue
				}
				for _, ch := range []byte{'=', '-', '_', '\n', ' ', '*'} {
					if text[p] == ch {
						continue
					}
					mut := append([]byte{}, text...)
					mut[p] = ch
					for _, rstream := range []bool{false, true} {
						rd, err := readContainer(mut, format, rstream, func(b []byte) io.Reader { return bytes.NewReader(b) })
						w.Eval(1)
						w.Cover("base64-text-edit/" + containerNames[format])
						if err != nil {
							continue
						}
						var ks []string
						for c := range rd {
							ks = append(ks, c.String())
						}
						sort.Strings(ks)
						if fmt.Sprint(ks) != full {
							w.Violate("corrupt-accepted/base64-text-edit/"+containerNames[format], fmt.Sprintf("a %s container of %d tokens with text character %d replaced by %q is read without error and yields %d tokens", containerNames[format], len(set), p, ch, len(ks)),
								map[string]any{"format": containerNames[format], "offset": p, "replacement": string(ch), "tokens_written": len(set), "tokens_returned": len(ks), "stream_reader": rstream, "text": mon.Trunc(string(mut), 4000)})
						}
					}
				}
			}
			w.Distinct("base64-text", it, format)
		}
	}
}
