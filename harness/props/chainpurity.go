package props

// The chain-verdict monitor shared by C01, C02, C03 and C05: ExecutionAllowed as a function of
// (invocation, proofs). Families of calls that share their proof list, their delegation
// objects or their lower links are handed to mon.Purity - in order, reversed, shuffled, then
// from many goroutines (every other round focused on a few families at a time) - and every
// outcome is compared with the first one AND with the reference model's verdict for that call.

import (
	"fmt"
	"math/rand/v2"
	"runtime"
	"strings"
	"sync/atomic"
	"time"

	"github.com/ipfs/go-cid"
	"github.com/ucan-wg/go-ucan/pkg/args"
	"github.com/ucan-wg/go-ucan/token/delegation"
	"github.com/ucan-wg/go-ucan/token/invocation"

	"verifharness/chain"
	"verifharness/gen"
	"verifharness/mon"
	"verifharness/ref"
)

// yieldLoader gives the scheduler a chance at every lookup and dawdles now and then, so that
// checks running at the same time really overlap while one of them is inside the chain walk.
type yieldLoader struct {
	inner delegation.Loader
	n     atomic.Uint64
}

func (l *yieldLoader) GetDelegation(c cid.Cid) (*delegation.Token, error) {
	runtime.Gosched()
	if l.n.Add(1)%4 == 0 {
		time.Sleep(30 * time.Microsecond)
	}
	return l.inner.GetDelegation(c)
}

// ruleOf names the property a model denial belongs to.
func ruleOf(why string) string {
	switch {
	case strings.HasPrefix(why, "cmd@"):
		return "command"
	case strings.HasPrefix(why, "pol@"):
		return "policy"
	case strings.HasPrefix(why, "time"):
		return "time"
	}
	return "principals"
}

// chainPurity builds the families and runs the monitor. relevant says which disagreements with
// the reference model the calling property owns ("principals", "command", "policy", "time" for a
// call the model denies, "conforming" for a call it allows); outcomes that change from one call
// to the next are everybody's business and are always reported.
func chainPurity(w *mon.W, class string, relevant func(rule string) bool) {
	r := w.Rng
	var thunks []mon.Thunk
	add := func(group int, label string, s *chain.Scenario, inv *invocation.Token, ld delegation.Loader, note string) {
		want, why := s.Conforming()
		rule := "conforming"
		if !want {
			rule = ruleOf(why)
		}
		desc := fmt.Sprintf("%s; %s", note, mon.Trunc(fmt.Sprint(s.Describe()), 1400))
		for _, hook := range []bool{false, true} {
			hook := hook
			thunks = append(thunks, mon.Thunk{Label: label, Group: group, Desc: fmt.Sprintf("hook=%v %s", hook, desc), F: func() string {
				var e error
				if hook {
					e = inv.ExecutionAllowedWithArgsHook(ld, func(a args.ReadOnly) (*args.Args, error) { return a.WriteableClone(), nil })
				} else {
					e = inv.ExecutionAllowed(ld)
				}
				return classifyErr(e)
			}, Check: func(out string) string {
				if (out == "nil") == want || !relevant(rule) {
					return ""
				}
				if want {
					return "the chain satisfies every delegation rule (reference model): it must be allowed"
				}
				return "the reference model denies it: " + why
			}})
		}
		w.Cover("chain-purity/" + label + "/model=" + map[bool]string{true: "allow", false: "deny"}[want])
	}
	families := w.Pick(40, 160)
	for k := 0; k < families; k++ {
		group := k + 1
		n := 1 + r.IntN(5)
		s := chain.FullConformant(r, n, 10)
		if k%4 == 0 && n >= 2 {
			// (families with a second chain over the same lower delegations: the delegation next to the
			// invoker carries a policy, handed over as a slice with spare capacity, and so does the root)
			var paths []gen.Path
			gen.Paths(s.Args, nil, &paths, 3)
			for _, li := range []int{0, n - 1} {
				if len(s.Links[li].Pol) == 0 {
					if st, ok := gen.StmtWithTruth(r, s.Args, paths, 1, true); ok {
						s.Links[li].Pol = append(s.Links[li].Pol, st)
					}
				}
			}
			s.Links[0].PolSpare, s.Links[0].PolIPLD = true, false
		}
		switch k % 4 {
		case 1:
			deviate(r, s)
		case 2:
			// a widened command or a false statement somewhere
			if r.IntN(2) == 0 {
				s.Links[r.IntN(n)].Cmd = "/other"
			} else {
				s.Links[r.IntN(n)].Pol = append(s.Links[r.IntN(n)].Pol, ref.Stmt{Kind: "==", Sel: ref.Sel{{Kind: ref.SField, Name: "no-such-argument"}}, Val: ref.Int(1)})
			}
		case 3:
			if r.IntN(2) == 0 {
				s.Links[r.IntN(n)].Exp = chain.D(-time.Hour)
			}
		}
		if t, _ := s.PoliciesOK(s.Args); t == ref.Unresolved && k%4 != 2 {
			continue
		}
		b, err := s.Build(r)
		if err != nil {
			continue
		}
		ld := delegation.Loader(&yieldLoader{inner: b.Loader})
		add(group, "ExecutionAllowed", s, b.Inv, ld, "the scenario's own invocation")
		// a second invocation token over the same delegations and loader
		if inv2, err := s.MakeInvocation(b, nil, r); err == nil {
			s2 := *s
			s2.Audience = nil
			add(group, "ExecutionAllowed", &s2, inv2, ld, "a second invocation token over the same proofs")
		}
		// what a server does per request: the container and the invocation are decoded afresh from
		// their bytes inside the call; the outcome is the verdict together with the principals the
		// decoded chain names
		loadErr := false
		for _, l := range s.Links {
			loadErr = loadErr || l.LoadErr // (a failing store is a property of the loader object, not of the bytes)
		}
		if s.Wire > 0 && len(b.Container) > 0 && len(b.InvSeal) > 0 && !loadErr {
			data, format, invSeal, cids := b.Container, b.WireFmt, append([]byte{}, b.InvSeal...), b.Cids
			want, why := s.Conforming()
			rule := "conforming"
			if !want {
				rule = ruleOf(why)
			}
			thunks = append(thunks, mon.Thunk{Label: "ExecutionAllowed/decoded-per-call", Group: group, Desc: "container and invocation decoded inside the call; " + mon.Trunc(fmt.Sprint(s.Describe()), 1400), F: func() string {
				rd, err := chain.ReadContainer(data, format)
				if err != nil {
					return "container: " + classifyErr(err)
				}
				inv, _, err := invocation.FromSealed(invSeal)
				if err != nil {
					return "invocation: " + classifyErr(err)
				}
				out := classifyErr(inv.ExecutionAllowed(rd)) + " | inv " + inv.Issuer().String() + ">" + inv.Subject().String()
				for _, c := range cids {
					if d, err := rd.GetDelegation(c); err == nil {
						out += " | " + d.Issuer().String() + ">" + d.Audience().String() + "/" + d.Subject().String()
					} else {
						out += " | -"
					}
				}
				return out
			}, Check: func(out string) string {
				verdict, _, _ := strings.Cut(out, " | ")
				if (verdict == "nil") == want || !relevant(rule) {
					return ""
				}
				if want {
					return "the chain satisfies every delegation rule (reference model): it must be allowed"
				}
				return "the reference model denies it: " + why
			}})
			w.Cover("chain-purity/decoded-per-call")
		}
		// the same proofs presented for another question: another invoker, another subject, another
		// command, other arguments. Whatever was concluded for the first invocation says nothing
		// about these
		vary := func(label string, mod func(v *chain.Scenario) bool) {
			v := *s
			if !mod(&v) {
				return
			}
			if t, _ := v.PoliciesOK(v.Args); t == ref.Unresolved {
				return
			}
			inv, err := v.MakeInvocation(b, s.Audience, r)
			if err != nil {
				return
			}
			add(group, "ExecutionAllowed/same-proofs-"+label, &v, inv, ld, "same proof list, "+label+" changed")
		}
		vary("invoker", func(v *chain.Scenario) bool { v.Invoker = other(r, s.Invoker); return true })
		vary("subject", func(v *chain.Scenario) bool { v.Subject = other(r, s.Subject); return true })
		segs := ref.CmdSegments(s.Cmd)
		if len(segs) > 0 {
			vary("command-parent", func(v *chain.Scenario) bool { v.Cmd = ref.CmdFromSegments(segs[:len(segs)-1]); return true })
			vary("command-sibling", func(v *chain.Scenario) bool {
				v.Cmd = ref.CmdFromSegments(append(append([]string{}, segs[:len(segs)-1]...), segs[len(segs)-1]+"x"))
				return true
			})
		}
		vary("command-child", func(v *chain.Scenario) bool {
			v.Cmd = ref.CmdFromSegments(append(append([]string{}, segs...), "sub"))
			return true
		})
		// other arguments: up to two sets the model denies and up to three it still allows, among
		// them values of another length (a negative index or an open slice of a policy selector
		// then lands elsewhere, or on the same content at another offset)
		for tries, denied, okd := 0, 0, 0; tries < 40 && (denied < 2 || okd < 3); tries++ {
			var a ref.V
			if tries%2 == 0 {
				a = mutateArgs(r, s.Args)
			} else {
				a = resizeArgs(r, s.Args)
			}
			if !intsInRange(a) {
				continue
			}
			t, _ := s.PoliciesOK(a)
			if t == ref.Unresolved || (t == ref.True && okd >= 3) || (t == ref.False && denied >= 2) {
				continue
			}
			if t == ref.True {
				okd++
			} else {
				denied++
			}
			vary("arguments", func(v *chain.Scenario) bool { v.Args = a; return true })
		}
		// a second chain that shares the links next to the invoker - the same delegation objects -
		// and differs above them: other statements in the upper links
		if n >= 2 && k%4 == 0 {
			m := 1 + r.IntN(n-1)
			s3 := *s
			s3.Links = append([]chain.Link{}, s.Links...)
			s3.Reuse, s3.ReuseN = b, m
			up := m + r.IntN(n-m)
			l := s3.Links[up]
			l.Pol = append(ref.Policy{}, l.Pol...)
			var paths []gen.Path
			gen.Paths(s.Args, nil, &paths, 3)
			if st, ok := gen.StmtWithTruth(r, s.Args, paths, 1, k%8 == 0); ok {
				l.Pol = append(l.Pol, st)
			}
			s3.Links[up] = l
			if t, _ := s3.PoliciesOK(s3.Args); t != ref.Unresolved {
				if b3, err := s3.Build(r); err == nil {
					add(group, "ExecutionAllowed/shared-lower-links", &s3, b3.Inv, &yieldLoader{inner: b3.Loader}, fmt.Sprintf("shares the %d delegations next to the invoker with another chain of its family, link %d differs", m, up))
				}
			}
		}
	}
	w.Purity(class, thunks, pG(w), pR(w))
}

func c01Purity(w *mon.W) {
	chainPurity(w, "chain-verdicts", func(rule string) bool { return rule == "principals" })
}
func c02Purity(w *mon.W) {
	chainPurity(w, "chain-verdicts", func(rule string) bool { return rule == "command" })
}
func c03Purity(w *mon.W) {
	chainPurity(w, "chain-verdicts", func(rule string) bool { return rule == "policy" })
}
func c05Purity(w *mon.W) {
	chainPurity(w, "chain-verdicts", func(rule string) bool { return rule == "conforming" })
}

// resizeArgs lengthens one list, string or byte string of the arguments at its front or at
// its end.
func resizeArgs(r *rand.Rand, a ref.V) ref.V {
	out := cloneV(a)
	var places []*ref.V
	var walk func(v *ref.V, depth int)
	walk = func(v *ref.V, depth int) {
		switch v.K {
		case ref.KMap:
			for i := range v.M {
				walk(&v.M[i].V, depth+1)
			}
		case ref.KList:
			if depth > 0 {
				places = append(places, v)
			}
			for i := range v.L {
				walk(&v.L[i], depth+1)
			}
		case ref.KString, ref.KBytes:
			places = append(places, v)
		}
	}
	walk(&out, 0)
	if len(places) == 0 {
		return mutateArgs(r, a)
	}
	v := places[r.IntN(len(places))]
	front := r.IntN(2) == 0
	switch v.K {
	case ref.KList:
		e := ref.Int(int64(r.IntN(100)))
		if len(v.L) > 0 {
			e = cloneV(v.L[r.IntN(len(v.L))])
		}
		if front {
			v.L = append([]ref.V{e}, v.L...)
		} else {
			v.L = append(v.L, e)
		}
	case ref.KString:
		if front {
			v.S = "q" + v.S
		} else {
			v.S += "q"
		}
	case ref.KBytes:
		if front {
			v.Y = append([]byte{9}, v.Y...)
		} else {
			v.Y = append(append([]byte{}, v.Y...), 9)
		}
	}
	return out
}
