package props

import (
	"fmt"

	"github.com/ipld/go-ipld-prime"
	"github.com/ipld/go-ipld-prime/datamodel"
	"github.com/ipld/go-ipld-prime/node/bindnode"
	"github.com/ipld/go-ipld-prime/schema"

	"github.com/ucan-wg/go-ucan/pkg/args"

	"verifharness/chain"
	"verifharness/mon"
	"verifharness/ref"
)

// Arguments are IPLD nodes, and an application may hand in nodes of ANY implementation: the
// usual case besides plain nodes is a Go struct bound to an IPLD schema (bindnode). Such a
// node answers a lookup of an optional field that is not set with the placeholder
// datamodel.Absent and no error. What the policy is checked against is the data the node
// stands for - its representation, in which that field simply does not occur.
//
// Judged only where the type-level view and the representation agree about the VALUE that a
// statement looks at: scalars, lists of scalars, fields that are not there. A whole typed
// struct compared with a map literal is left out - go-ipld-prime's DeepEqual compares typed
// nodes at the type level (a struct with an unset optional field has one more entry than its
// representation), which the property does not speak about (DESIGN section 8, item 14).

type typedInner struct {
	X *int64
}

type typedUser struct {
	Name  string
	Role  *string
	Level *int64 // nullable
	Tags  *[]string
	Inner *typedInner
}

var typedSchema = func() *schema.TypeSystem {
	ts, err := ipld.LoadSchemaBytes([]byte(`
		type Inner struct {
			x optional Int
		}
		type User struct {
			name String
			role optional String
			level nullable Int
			tags optional [String]
			inner optional Inner
		}
	`))
	if err != nil {
		panic(err)
	}
	return ts
}()

// typedUsers: every combination of set / unset for the optional and nullable fields.
func typedUsers() []datamodel.Node {
	admin, guest := "admin", "guest"
	l7 := int64(7)
	x1 := int64(1)
	tags := []string{"a", "b"}
	none := []string{}
	var out []datamodel.Node
	for _, role := range []*string{nil, &admin, &guest} {
		for _, level := range []*int64{nil, &l7} {
			for _, tg := range []*[]string{nil, &tags, &none} {
				for _, in := range []*typedInner{nil, {}, {X: &x1}} {
					out = append(out, bindnode.Wrap(&typedUser{Name: "bob", Role: role, Level: level, Tags: tg, Inner: in}, typedSchema.TypeByName("User")))
				}
			}
		}
	}
	return out
}

func c03Typed(w *mon.W) {
	r := w.Rng
	f := func(names ...string) ref.Sel {
		s := ref.Sel{{Kind: ref.SField, Name: "user"}}
		for _, n := range names {
			s = append(s, ref.Seg{Kind: ref.SField, Name: n})
		}
		return s
	}
	stmts := []ref.Stmt{
		{Kind: "==", Sel: f("role"), Val: ref.Str("admin")},
		{Kind: "not", Subs: []ref.Stmt{{Kind: "==", Sel: f("role"), Val: ref.Str("guest")}}},
		{Kind: "like", Sel: f("role"), Pat: "a*"},
		{Kind: "not", Subs: []ref.Stmt{{Kind: "==", Sel: f("role"), Val: ref.Str("guest")}}},
		{Kind: "==", Sel: f("level"), Val: ref.Int(7)},
		{Kind: ">", Sel: f("level"), Val: ref.Int(3)},
		{Kind: "not", Subs: []ref.Stmt{{Kind: "==", Sel: f("level"), Val: ref.Int(3)}}},
		{Kind: "==", Sel: f("level"), Val: ref.Null()},
		{Kind: "not", Subs: []ref.Stmt{{Kind: "==", Sel: f("inner", "x"), Val: ref.Int(2)}}},
		{Kind: "==", Sel: f("inner", "x"), Val: ref.Int(1)},
		{Kind: "<", Sel: f("inner", "x"), Val: ref.Int(5)},
		{Kind: "all", Sel: f("tags"), Subs: []ref.Stmt{{Kind: "like", Sel: ref.Sel{}, Pat: "?"}}},
		{Kind: "any", Sel: f("tags"), Subs: []ref.Stmt{{Kind: "==", Sel: ref.Sel{}, Val: ref.Str("a")}}},
		{Kind: "not", Subs: []ref.Stmt{{Kind: "==", Sel: append(f("tags"), ref.Seg{Kind: ref.SIndex, Idx: 0}), Val: ref.Str("z")}}},
		{Kind: "not", Subs: []ref.Stmt{{Kind: "==", Sel: f("tags"), Val: ref.List()}}},
		{Kind: "or", Subs: []ref.Stmt{{Kind: "==", Sel: f("role"), Val: ref.Str("admin")}, {Kind: "not", Subs: []ref.Stmt{{Kind: "==", Sel: f("inner", "x"), Val: ref.Int(9)}}}}},
	}
	users := typedUsers()
	idx := 0
	for si, st := range stmts {
		for ui, u := range users {
			idx++
			if !w.Mine(idx) {
				continue
			}
			rep := u.(schema.TypedNode).Representation()
			uv, err := ref.FromNode(rep)
			if err != nil {
				w.Inconclusive("C03 typed arguments: representation not readable: " + err.Error())
				continue
			}
			data := ref.Map(ref.E("user", uv))
			n := 1 + r.IntN(3)
			s := chain.Conformant(r, n, 5)
			k := r.IntN(n)
			for j := range s.Links {
				s.Links[j].Pol = nil // the statement under test is the only one that can deny
			}
			s.Links[k].Pol = ref.Policy{st}
			s.Links[k].PolIPLD = idx%2 == 0
			s.Args = ref.Map(ref.E("user", ref.Map(ref.E("name", ref.Str("bob")), ref.E("role", ref.Str("admin")), ref.E("level", ref.Int(7)), ref.E("tags", ref.List(ref.Str("a"))), ref.E("inner", ref.Map(ref.E("x", ref.Int(1)))))))
			truth, _ := s.PoliciesOK(data)
			// a comparison whose NON-optional selector finds nothing in the data is an error,
			// never a satisfied statement (C12); the reference calls that 'unresolved' only
			// because a surrounding not / or would make the outcome a matter of reading
			switch st.Kind {
			case "==", "<", "<=", ">", ">=", "like":
				if o, _ := ref.Select(st.Sel, data); o == ref.OError {
					truth = ref.False
					w.Cover("typed-arguments/required-field-not-there")
				}
			}
			b, err := s.Build(r)
			if err != nil {
				w.Inconclusive("C03 typed scenario: " + err.Error())
				continue
			}
			for _, flavour := range []string{"typed", "representation"} {
				ha := args.New()
				node := u
				if flavour == "representation" {
					node = rep
				}
				var aerr error
				if pi := mon.Guard(func() { aerr = ha.Add("user", node) }); pi != nil || aerr != nil {
					w.Cover("typed-arguments/add-refused")
					continue
				}
				var e error
				pi := mon.Guard(func() {
					e = b.Inv.ExecutionAllowedWithArgsHook(b.Loader, func(args.ReadOnly) (*args.Args, error) { return ha, nil })
				})
				w.Eval(1)
				if pi != nil {
					w.Count("typed-arguments/panics(judged by C09)", 1)
					continue
				}
				w.Cover("typed-arguments/" + flavour)
				w.Cover("typed-arguments/reference-" + truth.String())
				w.Distinct("typed", si, ui, flavour)
				if e == nil && truth == ref.False {
					d := s.Describe()
					d["statement"] = st.String()
					d["arguments_checked"] = data.String()
					d["node_flavour"] = flavour
					w.Violate("unsound/schema-typed-argument/"+st.Kind+"/"+flavour, fmt.Sprintf("ExecutionAllowed = nil although the arguments the hook returned (%s node) stand for %s, which does not satisfy %s", flavour, data, st), d)
				}
			}
		}
	}
}
