package props

import (
	"bytes"
	"fmt"
	"github.com/ipld/go-ipld-prime"
	"github.com/ucan-wg/go-ucan/pkg/command"
	"github.com/ucan-wg/go-ucan/pkg/policy"
	"io"
	"math"
	"strings"
	"testing/iotest"
	"time"

	"github.com/ipld/go-ipld-prime/codec/dagcbor"
	"github.com/ipld/go-ipld-prime/codec/dagjson"

	"github.com/ucan-wg/go-ucan/token"
	"github.com/ucan-wg/go-ucan/token/delegation"
	"github.com/ucan-wg/go-ucan/token/invocation"

	"verifharness/gen"
	"verifharness/mon"
	"verifharness/ref"
)

func init() {
	register(&mon.Prop{
		ID:    "C07",
		Level: "exploration",
		Rule: "seeded token descriptions for both token types: every option present/absent (minimal, full and random combinations), nested argument and metadata values of every IPLD kind with finite numbers (incl. integral-valued floats, boundary integers, empty collections, null at and below the top level), policies of every statement kind, proof lists 0..5, nonce 12..64 bytes, time bounds incl. the extremes the constructors accept (2^53-1 s and beyond), issuers of all seven pool key kinds; each built through the constructors, then ToSealed/ToDagCbor/ToDagJson (+ writer variants) and decoded by {generic, typed} x {bytes, reader} decoders. " +
			"Oracle: a constructor-accepted token must seal and decode, every decoded variant must agree with the original on every field read through the accessors (time at whole seconds), generic == typed. " +
			"Purity (also in a -race build): a sample of these calls on shared objects is repeated in reverse / shuffled order and from 16..32 goroutines at once; every outcome must equal the first one and the race detector must stay silent. " +
			"non-trivial = token with at least one optional field or nested value; distinct = (field values digest, issuer algorithm, codec).",
		Assumptions: []string{
			"strings are valid UTF-8 and no generated map is {\"/\": ...} (DAG-JSON cannot represent those); NaN/Inf excluded by the property",
			"field comparison through gen.Fields (accessors only)",
		},
		Shards:          shards(8, 16),
		RaceShards:      shards(1, 2),
		RaceIsViolation: true,
		Run:             runC07,
		MinEvals:        floor(4000, 150000),
		MinDistinct:     floor(500, 15000),
		RequiredCells: func(string) []string {
			cells := []string{"purity/seal-unseal/history", "purity/seal-unseal/concurrent", "dlg", "inv", "minimal", "full", "time/beyond-2^53", "time/2^53-1", "null/top-level-meta", "null/top-level-arg", "float/integral", "float/integral-policy-bounds", "time/window-inside-one-second", "dec/generic", "dec/typed", "dec/reader", "codec/dagcbor", "codec/dagjson", "stream-of-tokens/dagcbor", "stream-of-tokens/dagjson"}
			for _, a := range gen.Algs {
				cells = append(cells, "alg/"+a)
			}
			return cells
		},
	})
}

type decVariant struct {
	name  string
	codec string
	f     func(b []byte) (token.Token, error)
}

func c07Decoders(typ string) []decVariant {
	out := []decVariant{
		{"token.FromSealed", "dagcbor", func(b []byte) (token.Token, error) { t, _, err := token.FromSealed(b); return t, err }},
		{"token.FromSealedReader", "dagcbor", func(b []byte) (token.Token, error) {
			t, _, err := token.FromSealedReader(bytes.NewReader(b))
			return t, err
		}},
		{"token.FromDagCbor", "dagcbor", token.FromDagCbor},
		{"token.FromDagCborReader", "dagcbor", func(b []byte) (token.Token, error) { return token.FromDagCborReader(bytes.NewReader(b)) }},
		{"token.Decode", "dagcbor", func(b []byte) (token.Token, error) { return token.Decode(b, dagcbor.Decode) }},
		{"token.DecodeReader", "dagcbor", func(b []byte) (token.Token, error) { return token.DecodeReader(bytes.NewReader(b), dagcbor.Decode) }},
		{"token.FromDagJson", "dagjson", token.FromDagJson},
		{"token.FromDagJsonReader", "dagjson", func(b []byte) (token.Token, error) { return token.FromDagJsonReader(bytes.NewReader(b)) }},
		{"token.Decode(json)", "dagjson", func(b []byte) (token.Token, error) { return token.Decode(b, dagjson.Decode) }},
	}
	wrapD := func(t *delegation.Token, err error) (token.Token, error) {
		if err != nil || t == nil {
			return nil, err
		}
		return t, nil
	}
	wrapI := func(t *invocation.Token, err error) (token.Token, error) {
		if err != nil || t == nil {
			return nil, err
		}
		return t, nil
	}
	if typ == "dlg" {
		out = append(out,
			decVariant{"delegation.FromSealed", "dagcbor", func(b []byte) (token.Token, error) { t, _, err := delegation.FromSealed(b); return wrapD(t, err) }},
			decVariant{"delegation.FromSealedReader", "dagcbor", func(b []byte) (token.Token, error) {
				t, _, err := delegation.FromSealedReader(bytes.NewReader(b))
				return wrapD(t, err)
			}},
			decVariant{"delegation.FromDagCbor", "dagcbor", func(b []byte) (token.Token, error) { return wrapD(delegation.FromDagCbor(b)) }},
			decVariant{"delegation.FromDagCborReader", "dagcbor", func(b []byte) (token.Token, error) { return wrapD(delegation.FromDagCborReader(bytes.NewReader(b))) }},
			decVariant{"delegation.Decode", "dagcbor", func(b []byte) (token.Token, error) { return wrapD(delegation.Decode(b, dagcbor.Decode)) }},
			decVariant{"delegation.DecodeReader", "dagcbor", func(b []byte) (token.Token, error) {
				return wrapD(delegation.DecodeReader(bytes.NewReader(b), dagcbor.Decode))
			}},
			decVariant{"delegation.FromIPLD", "dagcbor", func(b []byte) (token.Token, error) {
				n, err := ipld.Decode(b, dagcbor.Decode)
				if err != nil {
					return nil, err
				}
				return wrapD(delegation.FromIPLD(n))
			}},
			decVariant{"delegation.FromIPLD(json)", "dagjson", func(b []byte) (token.Token, error) {
				n, err := ipld.Decode(b, dagjson.Decode)
				if err != nil {
					return nil, err
				}
				return wrapD(delegation.FromIPLD(n))
			}},
			decVariant{"delegation.FromDagJson", "dagjson", func(b []byte) (token.Token, error) { return wrapD(delegation.FromDagJson(b)) }},
			decVariant{"delegation.FromDagJsonReader", "dagjson", func(b []byte) (token.Token, error) { return wrapD(delegation.FromDagJsonReader(bytes.NewReader(b))) }},
		)
	} else {
		out = append(out,
			decVariant{"invocation.FromSealed", "dagcbor", func(b []byte) (token.Token, error) { t, _, err := invocation.FromSealed(b); return wrapI(t, err) }},
			decVariant{"invocation.FromSealedReader", "dagcbor", func(b []byte) (token.Token, error) {
				t, _, err := invocation.FromSealedReader(bytes.NewReader(b))
				return wrapI(t, err)
			}},
			decVariant{"invocation.FromDagCbor", "dagcbor", func(b []byte) (token.Token, error) { return wrapI(invocation.FromDagCbor(b)) }},
			decVariant{"invocation.FromDagCborReader", "dagcbor", func(b []byte) (token.Token, error) { return wrapI(invocation.FromDagCborReader(bytes.NewReader(b))) }},
			decVariant{"invocation.Decode", "dagcbor", func(b []byte) (token.Token, error) { return wrapI(invocation.Decode(b, dagcbor.Decode)) }},
			decVariant{"invocation.DecodeReader", "dagcbor", func(b []byte) (token.Token, error) {
				return wrapI(invocation.DecodeReader(bytes.NewReader(b), dagcbor.Decode))
			}},
			decVariant{"invocation.FromIPLD", "dagcbor", func(b []byte) (token.Token, error) {
				n, err := ipld.Decode(b, dagcbor.Decode)
				if err != nil {
					return nil, err
				}
				return wrapI(invocation.FromIPLD(n))
			}},
			decVariant{"invocation.FromIPLD(json)", "dagjson", func(b []byte) (token.Token, error) {
				n, err := ipld.Decode(b, dagjson.Decode)
				if err != nil {
					return nil, err
				}
				return wrapI(invocation.FromIPLD(n))
			}},
			decVariant{"invocation.FromDagJson", "dagjson", func(b []byte) (token.Token, error) { return wrapI(invocation.FromDagJson(b)) }},
			decVariant{"invocation.FromDagJsonReader", "dagjson", func(b []byte) (token.Token, error) { return wrapI(invocation.FromDagJsonReader(bytes.NewReader(b))) }},
		)
	}
	return out
}

// valueTraits tells which delicate value classes a token description contains.
func valueTraits(v ref.V, top bool, t map[string]bool) {
	switch v.K {
	case ref.KFloat:
		if v.F == math.Trunc(v.F) && !math.IsInf(v.F, 0) {
			t["integral-float"] = true
		}
	case ref.KList:
		for _, e := range v.L {
			valueTraits(e, false, t)
		}
	case ref.KMap:
		for _, e := range v.M {
			if top && e.V.K == ref.KNull {
				t["top-null"] = true
			}
			valueTraits(e.V, false, t)
		}
	}
}

// payloadBytes: the bytes of strings and byte strings in a value (what the DAG-CBOR decoder
// charges against its allocation budget).
func payloadBytes(v ref.V) int {
	n := 0
	switch v.K {
	case ref.KString:
		n = len(v.S)
	case ref.KBytes:
		n = len(v.Y)
	case ref.KList:
		for _, e := range v.L {
			n += payloadBytes(e)
		}
	case ref.KMap:
		for _, e := range v.M {
			n += len(e.K) + payloadBytes(e.V)
		}
	}
	return n
}

func specTraits(s *gen.TokenSpec) map[string]bool {
	t := map[string]bool{}
	if payloadBytes(s.Meta)+payloadBytes(s.Args) > 10<<20 {
		t["over-10MiB"] = true
	}
	valueTraits(s.Meta, true, t)
	valueTraits(s.Args, true, t)
	for _, st := range s.Pol {
		valueTraits(st.ToV(), false, t)
	}
	for _, tm := range []*time.Time{s.Exp, s.Nbf, s.Iat} {
		if tm != nil && (tm.Unix() > ref.MaxSafe || tm.Unix() < -ref.MaxSafe) {
			t["time-beyond-2^53"] = true
		}
	}
	return t
}

func traitKey(t map[string]bool) string {
	var ks []string
	for k := range t {
		ks = append(ks, k)
	}
	sortStrings(ks)
	if len(ks) == 0 {
		return "plain"
	}
	return strings.Join(ks, "+")
}

func describeSpec(s *gen.TokenSpec) map[string]any {
	name := func(p *gen.Principal) string {
		if p == nil {
			return "-"
		}
		return p.Name + " " + p.DID.String()
	}
	tm := func(t *time.Time) any {
		if t == nil {
			return nil
		}
		return t.Unix()
	}
	return map[string]any{"type": s.Type, "iss": name(s.Iss), "aud": name(s.Aud), "sub": name(s.Sub), "cmd": s.Cmd, "pol": s.Pol.String(), "pol_via_ipld": s.PolIPLD,
		"args": s.Args.String(), "prf": fmt.Sprint(s.Prf), "meta": s.Meta.String(), "nonce": mon.Hex(s.Nonce), "nbf": tm(s.Nbf), "exp": tm(s.Exp), "iat": tm(s.Iat), "no_iat": s.NoIat, "cause": fmt.Sprint(s.Cause)}
}

func c07One(w *mon.W, s *gen.TokenSpec, label string) {
	traits := specTraits(s)
	tkey := traitKey(traits)
	tk, err := s.Build()
	w.Eval(1)
	if traits["time-beyond-2^53"] {
		w.Cover("time/beyond-2^53")
	}
	if err != nil {
		// rejected by the constructor: nothing to round-trip
		w.Count("constructor-rejected/"+tkey, 1)
		return
	}
	w.Cover(s.Type)
	w.Cover("alg/" + s.Iss.Alg)
	w.Cover(label)
	if traits["integral-float"] {
		w.Cover("float/integral")
	}
	f0 := gen.Fields(tk)
	desc := describeSpec(s)
	sealed, _, err := tk.ToSealed(s.Iss.Priv)
	w.Eval(1)
	if err != nil {
		desc["error"] = err.Error()
		w.Violate("seal-fails/dagcbor/"+s.Type+"/"+tkey, "a token accepted by the constructor cannot be sealed: "+err.Error(), desc)
		return
	}
	js, err := tk.ToDagJson(s.Iss.Priv)
	w.Eval(1)
	if err != nil {
		desc["error"] = err.Error()
		w.Violate("seal-fails/dagjson/"+s.Type+"/"+tkey, "a token accepted by the constructor cannot be encoded as DAG-JSON: "+err.Error(), desc)
		js = nil
	}
	// the other encoders of the same codec must be decodable alike (bytes may differ for randomised signatures)
	var buf bytes.Buffer
	if _, err := tk.ToSealedWriter(&buf, s.Iss.Priv); err != nil {
		w.Violate("seal-fails/writer/"+s.Type+"/"+tkey, "ToSealedWriter fails where ToSealed succeeds: "+err.Error(), desc)
	}
	if len(c07Kept) < 1500 {
		c07Kept = append(c07Kept, c07KeptTok{tk: tk, f0: f0, desc: describeSpecShort(s), sealed: sealed})
	}
	if iss := gen.AccessorIssues(tk); len(iss) > 0 {
		desc["issues"] = iss
		w.Violate("accessors-disagree/constructed/"+s.Type, "the accessors of a constructed token disagree with each other: "+iss[0], desc)
	}
	nontrivial := len(s.Meta.M) > 0 || len(s.Args.M) > 0 || len(s.Pol) > 0 || s.Exp != nil || s.Nbf != nil
	results := map[string]ref.V{}
	for _, d := range c07Decoders(s.Type) {
		in := sealed
		if d.codec == "dagjson" {
			if js == nil {
				continue
			}
			in = js
		}
		var t2 token.Token
		var derr error
		pi := mon.Guard(func() { t2, derr = d.f(in) })
		w.Eval(1)
		w.Cover("codec/" + d.codec)
		switch {
		case strings.HasPrefix(d.name, "token."):
			w.Cover("dec/generic")
		default:
			w.Cover("dec/typed")
		}
		if strings.Contains(d.name, "Reader") {
			w.Cover("dec/reader")
		}
		if nontrivial {
			w.Distinct(f0.String(), s.Iss.Alg, d.codec)
		}
		c := func() map[string]any {
			m := describeSpec(s)
			m["decoder"] = d.name
			m["input_hex"] = mon.Hex(capBytes(in, 4096))
			return m
		}
		if pi != nil {
			m := c()
			m["panic"] = pi.Value
			w.Violate("decode-panics/"+d.codec+"/"+tkey, d.name+" panicked on the library's own output: "+pi.Value, m)
			continue
		}
		if derr != nil {
			m := c()
			m["error"] = derr.Error()
			w.Violate(fmt.Sprintf("unseal-fails/%s/%s/%s/alg=%s", d.codec, s.Type, tkey, algClass(s.Iss.Alg, derr)),
				fmt.Sprintf("%s rejects the bytes the library produced for a constructor-accepted %s (%s): %v", d.name, s.Type, tkey, derr), m)
			continue
		}
		f2 := gen.Fields(t2)
		results[d.name] = f2
		// the keyed getters of the decoded token agree with what iteration yields
		if iss := gen.AccessorIssues(t2); len(iss) > 0 {
			m := c()
			m["issues"] = iss
			w.Violate("accessors-disagree/decoded/"+s.Type, fmt.Sprintf("the accessors of the token returned by %s disagree with each other: %s", d.name, iss[0]), m)
		}
		w.Cover("accessors-cross-checked")
		if diff := gen.FieldDiff(f0, f2); diff != "" {
			m := c()
			m["original_fields"] = f0.String()
			m["decoded_fields"] = f2.String()
			w.Violate(fmt.Sprintf("field-differs/%s/%s/%s/%s", d.codec, s.Type, diff, tkey),
				fmt.Sprintf("after %s the field %q differs from the constructed token (%s)", d.name, diff, tkey), m)
		}
	}
	// generic and typed decoders agree with each other
	var first ref.V
	var firstName string
	for n, f := range results {
		if firstName == "" {
			first, firstName = f, n
			continue
		}
		if diff := gen.FieldDiff(first, f); diff != "" {
			m := describeSpec(s)
			m["a"] = firstName
			m["b"] = n
			w.Violate("decoders-disagree/"+diff, fmt.Sprintf("%s and %s decode the same token differently (field %s)", firstName, n, diff), m)
			break
		}
	}
	if w.WantSample() && nontrivial && s.Type == "inv" && len(s.Args.M) > 1 {
		w.Sample(map[string]any{"spec": describeSpec(s), "fields": f0.String(), "sealed_hex": mon.Hex(capBytes(sealed, 600)), "decoders": len(results)})
	}
}

// algClass keeps the issuer algorithm in the signature only when the failure is about it.
func algClass(alg string, err error) string {
	if strings.Contains(err.Error(), "multicodec") || strings.Contains(err.Error(), "key") {
		return alg
	}
	return "any"
}

type c07KeptTok struct {
	tk     token.Token
	f0     ref.V
	desc   string
	sealed []byte
}

// c07Kept: tokens built earlier in this run, with the fields read from them at that time; they
// are read again at the very end (hundreds of constructions later): a constructed token does
// not change while other tokens are being built, and still agrees with what was sealed from it.
var c07Kept []c07KeptTok

func c07Recheck(w *mon.W) {
	// a few hundred more constructions (default nonces and all) between then and now
	for i := 0; i < 600; i++ {
		p := gen.Ed(i)
		if i%2 == 0 {
			_, _ = delegation.Root(p.DID, gen.Ed(i+1).DID, command.MustParse("/a"), policy.Policy{})
		} else {
			_, _ = invocation.New(p.DID, p.DID, command.MustParse("/a"), nil)
		}
	}
	for _, k := range c07Kept {
		now := gen.Fields(k.tk)
		w.Eval(1)
		w.Cover("constructed-token-reread-at-end")
		if diff := gen.FieldDiff(k.f0, now); diff != "" {
			w.Violate("constructed-token-changed-later/"+diff, fmt.Sprintf("a constructed token (%s) reports another %q after %d more tokens were built than right after its construction", k.desc, diff, len(c07Kept)), map[string]any{"token": k.desc, "then": k.f0.String(), "now": now.String()})
			continue
		}
		if t2, _, err := token.FromSealed(k.sealed); err == nil {
			if diff := gen.FieldDiff(now, gen.Fields(t2)); diff != "" {
				w.Violate("field-differs/dagcbor/late/"+diff, fmt.Sprintf("unsealed late, %s differs in %q from the constructed token it was sealed from", k.desc, diff), map[string]any{"token": k.desc})
			}
		}
	}
	c07Kept = nil
}

func runC07(w *mon.W) {
	if purityGate(w, c07Purity) {
		return
	}
	c07Kept = nil
	defer c07Recheck(w)
	c07Streams(w)
	r := w.Rng
	total := w.Share(w.Pick(1200, 20000))
	vo := gen.ValOpts{IntegralF: false, Links: true} // links (CIDs) as metadata, argument and policy values too
	for it := 0; it < total; it++ {
		typ := []string{"dlg", "inv"}[it%2]
		o := gen.SpecOpts{AnyAlgPct: 20, Val: vo}
		label := "random"
		switch it % 10 {
		case 0:
			o.Minimal = true
			label = "minimal"
		case 1:
			o.Full = true
			label = "full"
		}
		// make every algorithm an issuer regularly
		if it%7 == 0 {
			pool := gen.Pool()
			o.Issuer = pool[(it/7+w.Shard*((total+6)/7))%len(pool)] // shards continue where the previous one stopped
		}
		s := gen.RandomSpec(r, typ, o)
		c07One(w, s, label)
	}
	// size classes: one big value (the dependency's DAG-CBOR decoder has a fixed allocation
	// budget of 10 MiB per document: 9 MiB must round-trip, 11 MiB cannot be unsealed)
	for i, sz := range []int{64 << 10, 1 << 20, 9 << 20, 11 << 20} {
		if !w.Mine(i) {
			continue
		}
		for _, typ := range []string{"dlg", "inv"} {
			s := gen.RandomSpec(r, typ, gen.SpecOpts{Issuer: gen.Ed(i), Minimal: true})
			s.Meta = ref.Map(ref.E("big", ref.Str(strings.Repeat("x", sz))))
			w.Cover(fmt.Sprintf("size/%dKiB", sz>>10))
			c07One(w, s, "random")
		}
	}
	// targeted delicate classes (each shard, small)
	for i := 0; i < w.Pick(6, 40); i++ {
		typ := []string{"dlg", "inv"}[i%2]
		// integral-valued floats
		s := gen.RandomSpec(r, typ, gen.SpecOpts{Val: gen.ValOpts{IntegralF: true}})
		s.Meta = ref.Map(ref.E("f", ref.Float(float64(2+i))), ref.E("g", ref.Float(0.5)))
		if typ == "dlg" {
			// ... also as bounds of ordering statements and as == literals of the policy, nested too
			amt := ref.Sel{{Kind: ref.SField, Name: "amount"}}
			s.Pol = ref.Policy{{Kind: ">", Sel: amt, Val: ref.Float(float64(5 + i))}, {Kind: "<=", Sel: amt, Val: ref.Float(-3)},
				{Kind: "not", Subs: []ref.Stmt{{Kind: "or", Subs: []ref.Stmt{{Kind: ">=", Sel: amt, Val: ref.Float(1e6)}, {Kind: "==", Sel: amt, Val: ref.Float(0)}}}}},
				{Kind: "any", Sel: ref.Sel{{Kind: ref.SField, Name: "xs"}}, Subs: []ref.Stmt{{Kind: "<", Sel: ref.Sel{}, Val: ref.Float(100)}}}}
			w.Cover("float/integral-policy-bounds")
		}
		c07One(w, s, "random")
		// a window that opens and closes inside one whole second (a few seconds ahead)
		if typ == "dlg" {
			s = gen.RandomSpec(r, typ, gen.SpecOpts{Minimal: true})
			base := time.Now().Truncate(time.Second).Add(time.Duration(5+i) * time.Second)
			nb, ex := base.Add(100*time.Millisecond), base.Add(600*time.Millisecond)
			s.Nbf, s.Exp = &nb, &ex
			w.Cover("time/window-inside-one-second")
			c07One(w, s, "random")
		}
		// top-level null
		s = gen.RandomSpec(r, typ, gen.SpecOpts{})
		s.Meta = ref.Map(ref.E("n", ref.Null()))
		w.Cover("null/top-level-meta")
		c07One(w, s, "random")
		if typ == "inv" {
			s = gen.RandomSpec(r, typ, gen.SpecOpts{})
			s.Args = ref.Map(ref.E("n", ref.Null()), ref.E("x", ref.Int(1)))
			s.ArgsOrder = nil
			w.Cover("null/top-level-arg")
			c07One(w, s, "random")
		}
		// extreme time bounds
		s = gen.RandomSpec(r, typ, gen.SpecOpts{})
		t := time.Unix(ref.MaxSafe, 0)
		s.Exp = &t
		w.Cover("time/2^53-1")
		c07One(w, s, "random")
		s = gen.RandomSpec(r, typ, gen.SpecOpts{})
		t2 := time.Unix(ref.MaxSafe+1+int64(i), 0)
		s.Exp = &t2
		c07One(w, s, "random")
		if typ == "dlg" {
			s = gen.RandomSpec(r, typ, gen.SpecOpts{})
			t3 := time.Unix(ref.MaxSafe+5, 0)
			s.Nbf = &t3
			c07One(w, s, "random")
		} else {
			s = gen.RandomSpec(r, typ, gen.SpecOpts{})
			t3 := time.Unix(-ref.MaxSafe-5, 0)
			s.Iat = &t3
			s.NoIat = false
			c07One(w, s, "random")
		}
	}
}

// c07Streams: several tokens written one after the other onto ONE stream and read back one after
// the other with the reader-based decoders, told not to look beyond the end of a value: each
// call returns the next token, equal on every field, and leaves the stream at the start of the
// following one.
func c07Streams(w *mon.W) {
	r := w.Rng
	cborDec := dagcbor.DecodeOptions{AllowLinks: true, DontParseBeyondEnd: true}.Decode
	jsonDec := dagjson.DecodeOptions{ParseLinks: true, ParseBytes: true, DontParseBeyondEnd: true}.Decode
	for it := 0; it < w.Share(w.Pick(60, 600)); it++ {
		n := 2 + r.IntN(4)
		typ := []string{"dlg", "inv"}[it%2]
		js := it%4 >= 2
		var stream bytes.Buffer
		var want []ref.V
		var descs []string
		for k := 0; k < n; k++ {
			s := gen.RandomSpec(r, typ, gen.SpecOpts{AnyAlgPct: 20, NoBig: it%3 != 0})
			tk, err := s.Build()
			if err != nil {
				continue
			}
			var b []byte
			if js {
				b, err = tk.ToDagJson(s.Iss.Priv)
				if err == nil {
					if _, derr := token.FromDagJson(b); derr != nil {
						continue // (tokens DAG-JSON cannot carry back are C07's known findings)
					}
				}
			} else {
				b, err = tk.ToDagCbor(s.Iss.Priv)
				if err == nil {
					if _, derr := token.FromDagCbor(b); derr != nil {
						continue // (likewise: the main workload judges single tokens)
					}
				}
			}
			if err != nil {
				continue
			}
			stream.Write(b)
			want = append(want, gen.Fields(tk))
			descs = append(descs, describeSpecShort(s))
		}
		if len(want) < 2 {
			continue
		}
		dec := cborDec
		codecName := "dagcbor"
		if js {
			dec, codecName = jsonDec, "dagjson"
		}
		for vi, rd := range []func(io.Reader) (token.Token, error){
			func(x io.Reader) (token.Token, error) { return token.DecodeReader(x, dec) },
			func(x io.Reader) (token.Token, error) {
				if typ == "dlg" {
					t, err := delegation.DecodeReader(x, dec)
					if err != nil {
						return nil, err
					}
					return t, nil
				}
				t, err := invocation.DecodeReader(x, dec)
				if err != nil {
					return nil, err
				}
				return t, nil
			},
		} {
			src := io.Reader(bytes.NewReader(stream.Bytes()))
			if it%5 == 0 {
				src = iotest.OneByteReader(src)
			}
			for k := range want {
				t, err := rd(src)
				w.Eval(1)
				w.Cover("stream-of-tokens/" + codecName)
				w.Distinct("stream", it, vi, k)
				family := []string{"token", typ}[vi]
				if err != nil || t == nil {
					w.Violate(fmt.Sprintf("stream-of-tokens/read-fails/%s/%s/position=%s", codecName, family, map[bool]string{true: "first", false: "later"}[k == 0]),
						fmt.Sprintf("token %d of %d written back to back onto one stream cannot be read with %s.DecodeReader (decoder told not to parse beyond the end): %v", k+1, len(want), family, err),
						map[string]any{"tokens": descs, "position": k, "codec": codecName, "decoder": family + ".DecodeReader", "error": errStr(err), "stream_hex": mon.Hex(capBytes(stream.Bytes(), 4096))})
					break
				}
				if diff := gen.FieldDiff(want[k], gen.Fields(t)); diff != "" {
					w.Violate(fmt.Sprintf("stream-of-tokens/field-differs/%s/%s", codecName, family),
						fmt.Sprintf("token %d of %d read from one stream differs from the token written at that position in %q", k+1, len(want), diff),
						map[string]any{"tokens": descs, "position": k, "codec": codecName, "field": diff})
					break
				}
			}
		}
	}
}
