package props

import (
	"fmt"
	"reflect"
	"strings"
	"unicode"

	"github.com/ucan-wg/go-ucan/pkg/command"

	"verifharness/mon"
	"verifharness/ref"
)

func init() {
	register(&mon.Prop{
		ID:         "C15",
		Level:      "exploration",
		Exhaustive: true,
		Rule: "exhaustive: all valid commands with <=4 segments over segment alphabet {a,b,ab,''(non-final)} -> all ordered pairs (Covers vs segment-prefix model, Segments, reflexivity, antisymmetry, top), all ordered pairs of the 259 commands with <=3 segments over {é,è,ほ,ふ,a,éa} (UTF-8 encodings sharing lead bytes) and all triples of a 90-command subset (transitivity); " +
			"parser: all strings of <=6 runes over {/,a,B,é,É,space} plus seeded random Unicode strings (about 2000 runes of Latin, Greek, Cyrillic, Han, Deseret, Roman numerals, circled / full-width / mathematical letters on which the readings of 'upper-case letter' agree - Unicode property Uppercase == changed by lower-casing; each also offered once on its own); Join/New over non-empty slash-free segments. " +
			"Purity (also in a -race build): a sample of these calls on shared objects is repeated in reverse / shuffled order and from 16..32 goroutines at once; every outcome must equal the first one and the race detector must stay silent. " +
			"non-trivial = pair of different commands neither of which is '/', or a parser string containing '/' and another rune; distinct = the pair / the string.",
		Assumptions: []string{
			"reference: segment-prefix model ref.CmdCovers (25 lines), self-tested against the repository's TestCovers table",
			"invalid UTF-8, title-case letters, capital letters without a lower-case form and squared capitals are outside the generated alphabet (\"no upper-case letters\" is ambiguous there; counted in the evidence)",
		},
		Shards:          shards(4, 16),
		RaceShards:      shards(1, 2),
		RaceIsViolation: true,
		Run:             runC15,
		MinEvals:        floor(100000, 500000),
		MinDistinct:     floor(50000, 100000),
		RequiredCells: func(string) []string {
			return []string{"purity/command/history", "held-results-reread", "join/long-result", "purity/command/concurrent", "rel/equal", "rel/parent", "rel/child", "rel/textual-prefix", "rel/sibling", "rel/top", "parse/accept", "parse/reject-noslash", "parse/reject-trailing", "parse/reject-upper", "join", "join/with-empty-segments", "parse/after-join", "parse/after-join-fresh-process", "transitivity/chain", "non-ascii-pairs", "lookalike-pairs", "parse/alphabet/other-uppercase"}
		},
	})
	addSelfTest("R-cmd vs in-tree TestCovers vectors", selfTestCmd)
}

func selfTestCmd() error {
	// copied from pkg/command/command_test.go (TestCovers) and the parser tables
	covers := []struct {
		a, b string
		want bool
	}{
		{"/", "/", true}, {"/", "/foo", true}, {"/", "/foo/bar/baz", true},
		{"/foo", "/foo", true}, {"/foo", "/foo/bar", true}, {"/foo", "/foo/bar/baz", true},
		{"/foo/bar", "/foo/bar", true}, {"/foo/bar", "/foo/bar/baz", true},
		{"/foo", "/", false}, {"/foo/bar/baz", "/", false}, {"/foo/bar", "/foo", false},
		{"/foo", "/foobar", false}, {"/foo/bar", "/foo/baz", false}, {"/foo/bar", "/foo/barbaz", false},
	}
	for _, c := range covers {
		if ref.CmdCovers(c.a, c.b) != c.want {
			return fmt.Errorf("CmdCovers(%q,%q) != %v", c.a, c.b, c.want)
		}
	}
	valid := map[string]bool{"/": true, "/foo": true, "/foo/bar/baz": true, "": false, "foo": false, "/foo/": false, "/FOO": false, "/foo/Bar": false, "//": false, "/elem0/elem1/elem2": true}
	for s, want := range valid {
		if ref.CmdValid(s) != want {
			return fmt.Errorf("CmdValid(%q) != %v", s, want)
		}
	}
	return nil
}

func c15Commands() []string {
	alpha := []string{"a", "b", "ab", ""}
	var out []string
	var rec func(segs []string, n int)
	rec = func(segs []string, n int) {
		if len(segs) == n {
			if n > 0 && segs[n-1] == "" {
				return
			}
			out = append(out, ref.CmdFromSegments(segs))
			return
		}
		for _, a := range alpha {
			rec(append(append([]string{}, segs...), a), n)
		}
	}
	for n := 0; n <= 4; n++ {
		rec(nil, n)
	}
	return out
}

func cmdRel(a, b string) string {
	switch {
	case a == b:
		return "equal"
	case a == "/":
		return "top"
	case ref.CmdCovers(a, b):
		return "parent"
	case ref.CmdCovers(b, a):
		return "child"
	case strings.HasPrefix(b, a) || strings.HasPrefix(a, b):
		return "textual-prefix"
	}
	return "sibling"
}

func runC15(w *mon.W) {
	if purityGate(w, c15Purity) {
		return
	}
	// first thing in a fresh process: texts the parser must refuse are produced by New / Join
	// (which do not police their segments) and then offered to the parser - what Join has
	// produced is not thereby a valid command
	for _, segs := range [][]string{{"Crud", "Read"}, {"store/"}, {"a", "B"}, {"É"}, {"a/"}, {"Ⅳ"}, {"x", "Up", "y"}, {"msg", "Ⓐ"}} {
		for _, base := range []string{"/", "/crud"} {
			got := command.Command(base).Join(segs...)
			c15Parse(w, string(got))
			if base == "/" {
				c15Parse(w, string(command.New(segs...)))
			}
			w.Cover("parse/after-join-fresh-process")
		}
	}
	cmds := c15Commands()
	parsed := make([]command.Command, len(cmds))
	for i, s := range cmds {
		c, err := command.Parse(s)
		w.Eval(1)
		if err != nil || string(c) != s || c.String() != s {
			w.Violate("parse/valid-rejected-or-altered", fmt.Sprintf("Parse(%q) = %q, %v; want it returned unchanged", s, c, err), map[string]any{"input": s})
		}
		parsed[i] = command.Command(s)
		if got, want := parsed[i].Segments(), ref.CmdSegments(s); !sameStrings(got, want) {
			w.Violate("segments", fmt.Sprintf("Command(%q).Segments() = %q, want %q", s, got, want), map[string]any{"input": s})
		}
	}
	// all ordered pairs
	k := 0
	for i, a := range cmds {
		for j, b := range cmds {
			k++
			if !w.Mine(k) {
				continue
			}
			got := parsed[i].Covers(parsed[j])
			want := ref.CmdCovers(a, b)
			w.Eval(1)
			rel := cmdRel(a, b)
			w.Cover("rel/" + rel)
			if a != b && a != "/" && b != "/" {
				w.Distinct("pair", a, b)
			}
			if got != want {
				w.Violate(fmt.Sprintf("covers/rel=%s/got=%v", rel, got), fmt.Sprintf("Command(%q).Covers(%q) = %v, segment-prefix model says %v", a, b, got, want), map[string]any{"a": a, "b": b, "got": got, "want": want})
			}
			if i == j && !got {
				w.Violate("covers/not-reflexive", fmt.Sprintf("%q does not cover itself", a), map[string]any{"a": a})
			}
			if got && parsed[j].Covers(parsed[i]) && a != b {
				w.Violate("covers/not-antisymmetric", fmt.Sprintf("%q and %q cover each other", a, b), map[string]any{"a": a, "b": b})
			}
			if w.WantSample() && rel == "textual-prefix" {
				w.Sample(map[string]any{"a": a, "b": b, "covers": got, "model": want, "relation": rel})
			}
		}
	}
	// a second small universe: non-ASCII segments whose UTF-8 encodings share their lead bytes
	// (é/è = c3 a9 / c3 a8, ほ/ふ = e3 81 bb / e3 81 b5) next to ASCII ones, all ordered pairs
	{
		var u []string
		segs := []string{"é", "è", "ほ", "ふ", "a", "éa"}
		var rec2 func(cur []string, n int)
		rec2 = func(cur []string, n int) {
			if len(cur) == n {
				u = append(u, ref.CmdFromSegments(cur))
				return
			}
			for _, sg := range segs {
				rec2(append(append([]string{}, cur...), sg), n)
			}
		}
		for n := 0; n <= 3; n++ {
			rec2(nil, n)
		}
		kk := 0
		for _, a := range u {
			for _, b := range u {
				kk++
				if !w.Mine(kk) {
					continue
				}
				got := command.Command(a).Covers(command.Command(b))
				want := ref.CmdCovers(a, b)
				w.Eval(1)
				w.Cover("non-ascii-pairs")
				if a != b {
					w.Distinct("pair", a, b)
				}
				if got != want {
					w.Violate(fmt.Sprintf("covers/non-ascii/rel=%s/got=%v", cmdRel(a, b), got), fmt.Sprintf("Command(%q).Covers(%q) = %v, segment-prefix model says %v", a, b, got, want), map[string]any{"a": a, "b": b, "a_hex": mon.Hex([]byte(a)), "b_hex": mon.Hex([]byte(b))})
				}
				if got && a != b && command.Command(b).Covers(command.Command(a)) {
					w.Violate("covers/not-antisymmetric", fmt.Sprintf("%q and %q cover each other", a, b), map[string]any{"a": a, "b": b})
				}
			}
		}
	}
	// a third universe: segments that are different strings but equal under some normalisation a
	// comparison might (wrongly) apply - Unicode case folding (final sigma, micro sign, theta
	// symbol, long s, sharp s), NFC vs NFD, full-width forms, percent-encoding, zero-width
	// joiner, trailing dot / space - all ordered pairs of commands of <=2 such segments
	{
		segs := []string{"σ", "ς", "μ", "µ", "θ", "ϑ", "s", "ſ", "ß", "ss", "é", "e\u0301", "a", "ａ", "%61", "a\u200d", "a.", "a ", "k", "\u0138", ".", "..", "~",
			// wildcards of other systems and of earlier UCAN versions are ordinary segments
			"*", "**", "a*", "?"}
		u := []string{"/"}
		for _, x := range segs {
			u = append(u, "/"+x)
		}
		for _, x := range segs {
			for _, y := range segs {
				u = append(u, "/"+x+"/"+y)
			}
		}
		kk := 0
		for _, a := range u {
			for _, b := range u {
				kk++
				if !w.Mine(kk) {
					continue
				}
				ca, ea := command.Parse(a)
				cb, eb := command.Parse(b)
				if ea != nil || eb != nil {
					w.Violate("parse/rejects-valid/lookalike", fmt.Sprintf("Parse rejects a lower-case command: %q (%v) / %q (%v)", a, ea, b, eb), map[string]any{"a": a, "b": b})
					continue
				}
				got := ca.Covers(cb)
				want := ref.CmdCovers(a, b)
				w.Eval(1)
				w.Cover("lookalike-pairs")
				if a != b {
					w.Distinct("lookalike", a, b)
				}
				if got != want {
					w.Violate(fmt.Sprintf("covers/lookalike/rel=%s/got=%v", cmdRel(a, b), got), fmt.Sprintf("Command(%q).Covers(%q) = %v, segment-prefix model says %v (the two differ only up to a normalisation)", a, b, got, want), map[string]any{"a": a, "b": b, "a_hex": mon.Hex([]byte(a)), "b_hex": mon.Hex([]byte(b))})
				}
			}
		}
	}
	// top covers all
	for _, b := range parsed {
		if !command.Top().Covers(b) {
			w.Violate("covers/top", fmt.Sprintf("/ does not cover %q", b), map[string]any{"b": string(b)})
		}
	}
	// transitivity on triples of a subset (first 90 by a stride that keeps all lengths)
	var sub []int
	for i := 0; i < len(cmds) && len(sub) < 90; i += max(1, len(cmds)/90) {
		sub = append(sub, i)
	}
	t := 0
	for _, i := range sub {
		for _, j := range sub {
			if !parsed[i].Covers(parsed[j]) {
				t += len(sub)
				continue
			}
			for _, l := range sub {
				t++
				if !w.Mine(t) {
					continue
				}
				w.Eval(1)
				if parsed[j].Covers(parsed[l]) {
					w.Cover("transitivity/chain")
					if !parsed[i].Covers(parsed[l]) {
						w.Violate("covers/not-transitive", fmt.Sprintf("%q covers %q covers %q but not transitively", cmds[i], cmds[j], cmds[l]), map[string]any{"a": cmds[i], "b": cmds[j], "c": cmds[l]})
					}
				}
			}
		}
	}

	// parser: exhaustive small strings
	alpha := []rune{'/', 'a', 'B', 'é', 'É', ' '}
	idx := 0
	var rec func(cur []rune, n int)
	rec = func(cur []rune, n int) {
		if len(cur) == n {
			idx++
			if w.Mine(idx) {
				c15Parse(w, string(cur))
			}
			return
		}
		for _, a := range alpha {
			rec(append(cur, a), n)
		}
	}
	for n := 0; n <= 6; n++ {
		rec(nil, n)
	}
	// parser: random unicode
	var ualpha []rune
	for _, rg := range [][2]rune{{0x20, 0x7e}, {0xc0, 0x24f}, {0x370, 0x3ff}, {0x410, 0x44f}, {0x4e00, 0x4e10}, {0x1f00, 0x1fff}, {0x2160, 0x217f}, {0x24b6, 0x24e9}, {0xff21, 0xff5a}, {0x10400, 0x1044f}, {0x1d400, 0x1d433}, {0x1f130, 0x1f149}} {
		for r := rg[0]; r <= rg[1]; r++ {
			if !unicode.IsPrint(r) {
				continue
			}
			if ref.CaseUnambiguous(r) {
				ualpha = append(ualpha, r)
				if unicode.Is(unicode.Other_Uppercase, r) {
					w.Cover("parse/alphabet/other-uppercase")
				}
			} else {
				w.Count("parse/alphabet/ambiguous-case-not-judged", 1)
			}
		}
	}
	// every unambiguous rune once on its own, so that none depends on the random draw
	for i, r := range ualpha {
		if w.Mine(i) {
			c15Parse(w, "/"+string(r))
			c15Parse(w, "/a/"+string(r)+"b")
		}
	}
	for i := 0; i < w.Share(w.Pick(100000, 600000)); i++ {
		n := 1 + w.Rng.IntN(10)
		rs := make([]rune, n)
		for j := range rs {
			switch w.Rng.IntN(4) {
			case 0:
				rs[j] = '/'
			case 1:
				rs[j] = rune('a' + w.Rng.IntN(26))
			default:
				rs[j] = ualpha[w.Rng.IntN(len(ualpha))]
			}
		}
		if w.Rng.IntN(3) > 0 {
			rs[0] = '/'
		}
		c15Parse(w, string(rs))
	}

	// Join / New
	segAlpha := []string{"a", "b", "ab", "foo", "x-y", "é", "1", ".", "..", "...", "~", " ", "%2f", "a.b", "Up", "É", "a/", "/a", "Ⅳ", strings.Repeat("seg", 14), strings.Repeat("long-segment-", 8) + "end"}
	// results are kept and read again at the very end, after everything else this shard does and
	// a burst of unrelated commands: a Command is a value, what was returned once stays what it was
	type heldCmd struct {
		c         command.Command
		want, how string
	}
	var held []heldCmd
	defer func() {
		churn(300)
		for _, h := range held {
			w.Eval(1)
			if string(h.c) != h.want {
				w.Violate("held-result-changed/"+h.how, fmt.Sprintf("a command returned by %s read %q when it was returned and reads %q at the end of the run", h.how, h.want, string(h.c)), map[string]any{"returned": h.want, "now": string(h.c), "how": h.how})
			}
		}
		if len(held) > 0 {
			w.Cover("held-results-reread")
		}
	}()
	for i := 0; i < w.Share(w.Pick(5000, 50000)); i++ {
		base := cmds[w.Rng.IntN(len(cmds))]
		n := w.Rng.IntN(4)
		segs := make([]string, n)
		for j := range segs {
			segs[j] = segAlpha[w.Rng.IntN(len(segAlpha))]
		}
		got := command.Command(base).Join(segs...)
		want := ref.CmdFromSegments(append(append([]string{}, ref.CmdSegments(base)...), segs...))
		w.Eval(1)
		w.Cover("join")
		if string(got) != want {
			w.Violate("join", fmt.Sprintf("Command(%q).Join(%q) = %q, want %q", base, segs, got, want), map[string]any{"base": base, "segs": segs})
		}
		if len(held) < 6000 {
			held = append(held, heldCmd{got, strings.Clone(string(got)), "Join"})
			if len(got) > 64 {
				w.Cover("join/long-result")
			}
		}
		// Join does not police its segments; the parser still does, also for a text that Join (or
		// New) has just produced
		c15Parse(w, string(got))
		w.Cover("parse/after-join")
		slashFree := true
		for _, sg := range segs {
			if strings.Contains(sg, "/") {
				slashFree = false
			}
		}
		if slashFree && !sameStrings(got.Segments(), append(append([]string{}, ref.CmdSegments(base)...), segs...)) {
			w.Violate("join/segments", fmt.Sprintf("Command(%q).Join(%q).Segments() = %q", base, segs, got.Segments()), map[string]any{"base": base, "segs": segs})
		}
		if base == "/" {
			nw := command.New(segs...)
			if string(nw) != want {
				w.Violate("new", fmt.Sprintf("New(%q) = %q, want %q", segs, nw, want), map[string]any{"segs": segs})
			}
			if len(held) < 6000 {
				held = append(held, heldCmd{nw, strings.Clone(string(nw)), "New"})
			}
		}
		// with empty segments among them the exact result is not pinned by the property (dropped or
		// kept as empty segments), but what comes out must still be a command: Parse accepts it and
		// returns it unchanged, and it is covered by the base command
		segsValid := true
		for _, sg := range segs {
			if sg == "" || strings.Contains(sg, "/") || !ref.CmdValid("/"+sg) {
				segsValid = false
			}
		}
		if n > 0 && segsValid {
			withEmpty := append([]string{}, segs...)
			k := w.Rng.IntN(len(withEmpty) + 1)
			withEmpty = append(withEmpty[:k:k], append([]string{""}, withEmpty[k:]...)...)
			if w.Rng.IntN(3) == 0 {
				withEmpty = append(withEmpty, "")
			}
			for vi, got := range []command.Command{command.Command(base).Join(withEmpty...), command.New(withEmpty...)} {
				if vi == 1 && base != "/" {
					continue
				}
				w.Eval(1)
				w.Cover("join/with-empty-segments")
				p, err := command.Parse(string(got))
				if err != nil || p != got || !ref.CmdValid(string(got)) {
					w.Violate("join/result-not-a-command", fmt.Sprintf("Command(%q).Join(%q) = %q, which is not a valid command (Parse: %v)", base, withEmpty, got, err), map[string]any{"base": base, "segs": withEmpty, "result": string(got)})
				} else if !command.Command(base).Covers(got) {
					w.Violate("join/result-not-under-base", fmt.Sprintf("Command(%q).Join(%q) = %q is not covered by the base command", base, withEmpty, got), map[string]any{"base": base, "segs": withEmpty, "result": string(got)})
				}
			}
		}
	}
}

func c15Parse(w *mon.W, s string) {
	c, err := command.Parse(s)
	want := ref.CmdValid(s)
	w.Eval(1)
	if strings.Contains(s, "/") && len(s) > 1 {
		w.Distinct("parse", s)
	}
	switch {
	case want:
		w.Cover("parse/accept")
	case !strings.HasPrefix(s, "/"):
		w.Cover("parse/reject-noslash")
	case strings.HasSuffix(s, "/"):
		w.Cover("parse/reject-trailing")
	default:
		w.Cover("parse/reject-upper")
	}
	if (err == nil) != want {
		cls := "accepts-invalid"
		if want {
			cls = "rejects-valid"
		}
		w.Violate("parse/"+cls, fmt.Sprintf("Parse(%q) err=%v, model valid=%v", s, err, want), map[string]any{"input": s, "hex": mon.Hex([]byte(s))})
		return
	}
	if err == nil && string(c) != s {
		w.Violate("parse/altered", fmt.Sprintf("Parse(%q) returned %q", s, c), map[string]any{"input": s})
	}
	if command.IsValid(s) != want {
		w.Violate("isvalid", fmt.Sprintf("IsValid(%q) = %v", s, !want), map[string]any{"input": s})
	}
	if w.WantSample() && want && len(s) > 4 {
		w.Sample(map[string]any{"parse": s, "accepted": err == nil})
	}
}

func sameStrings(a, b []string) bool {
	if len(a) == 0 && len(b) == 0 {
		return true
	}
	return reflect.DeepEqual(a, b)
}
