package props

import (
	"errors"
	"fmt"
	"sync/atomic"

	"github.com/ipfs/go-cid"
	"math/rand/v2"
	"strings"

	"github.com/ucan-wg/go-ucan/pkg/args"
	"github.com/ucan-wg/go-ucan/token/delegation"
	"github.com/ucan-wg/go-ucan/token/invocation"

	"verifharness/chain"
	"verifharness/gen"
	"verifharness/mon"
)

func init() {
	register(&mon.Prop{
		ID:    "C01",
		Level: "exploration",
		Rule: "seeded scenarios: a rule-conforming chain of n links (quick n<=6, thorough n<=8; any subject; repeated principals / self-delegation) + 0..3 deviations drawn from {empty proofs, missing delegation, loader error, first audience != invoker, issuer(i) != audience(i+1), last link not self-issued, subject replaced / undefined at i, two links swapped, link duplicated, head/middle/tail truncated, chain rooted at a foreign subject}; every scenario is run with 5 invocation audiences {unset, subject, invoker, third party, a chain principal}; half of the scenarios go through seal -> container -> container.Reader as loader. " +
			"Oracles: allowed => reference principal predicate; the five audience variants agree; history independence: the same invocation token checked with the full loader, then a loader that lost one delegation, then the full loader again gives allowed / denied / allowed. " +
			"non-trivial = >=1 delegation and >=1 deviation or n>=2; distinct = (normalised principal pattern, deviation list, wire mode).",
		Assumptions: []string{
			"reference predicate chain.PrincipalsOK (30 lines, from the property text)",
			"commands, policies and time bounds are kept conforming in this workload so that a verdict is attributable to the principal rules",
		},
		Shards:          shards(8, 16),
		RaceShards:      shards(1, 2),
		RaceIsViolation: true,
		Run:             runC01,
		MinEvals:        floor(15000, 400000),
		MinDistinct:     floor(1500, 30000),
		RequiredCells: func(tier string) []string {
			cells := []string{"purity/chain-verdicts/history", "purity/chain-verdicts/concurrent", "purity/chain-verdicts/concurrent-focused", "chain-purity/ExecutionAllowed/same-proofs-invoker/model=deny", "chain-purity/ExecutionAllowed/same-proofs-subject/model=deny", "history/full-depleted-full", "deny/empty/-", "allow/audience=unset", "allow/audience=third", "hook", "long-chain"}
			for _, rule := range []string{"unloadable", "link", "subject"} {
				for _, pos := range []string{"first", "middle", "last"} {
					cells = append(cells, "deny/"+rule+"/"+pos)
				}
			}
			cells = append(cells, "deny/first-aud/first", "deny/root/last", "dev/foreign-root", "dev/swap", "dev/dup", "dev/repeat", "dev/repeat-at-end", "dev/alias-cid", "dev/repeat-alias-cid", "dev/truncate", "dev/non-delegation", "sloppy-loader/nil-nil", "sloppy-loader/panics", "sloppy-loader/token-and-error")
			for n := 1; n <= 6; n++ {
				cells = append(cells, fmt.Sprintf("allow/n=%d", n))
			}
			return cells
		},
	})
}

// other draws a principal different from all in avoid.
func other(r *rand.Rand, avoid ...*gen.Principal) *gen.Principal {
	for {
		p := gen.PickPrincipal(r, 5)
		ok := true
		for _, a := range avoid {
			if a == p {
				ok = false
			}
		}
		if ok {
			return p
		}
	}
}

func deviate(r *rand.Rand, s *chain.Scenario) {
	n := len(s.Links)
	if n == 0 {
		return
	}
	i := r.IntN(n)
	// bias positions to first / last
	switch r.IntN(4) {
	case 0:
		i = 0
	case 1:
		i = n - 1
	}
	switch r.IntN(15) {
	case 14:
		s.Links[i].NonDlg = true
		s.Deviations = append(s.Deviations, fmt.Sprintf("non-delegation@%d", i))
	case 0:
		s.Links = nil
		s.Deviations = append(s.Deviations, "empty")
	case 1:
		if r.IntN(3) == 0 {
			s.Links[i].AliasCID = true
			s.Deviations = append(s.Deviations, fmt.Sprintf("alias-cid@%d", i))
			return
		}
		s.Links[i].Missing = true
		s.Deviations = append(s.Deviations, fmt.Sprintf("missing@%d", i))
	case 2:
		s.Links[i].LoadErr = true
		s.Deviations = append(s.Deviations, fmt.Sprintf("loaderr@%d", i))
	case 3:
		s.Links[0].Aud = other(r, s.Invoker)
		s.Deviations = append(s.Deviations, "first-aud")
	case 4:
		if i == n-1 {
			i = r.IntN(n)
		}
		s.Links[i].Iss = other(r, s.Links[i].Iss)
		s.Deviations = append(s.Deviations, fmt.Sprintf("issuer@%d", i))
	case 5:
		if r.IntN(2) == 0 {
			s.Links[n-1].Iss = other(r, s.Links[n-1].Iss)
			s.Deviations = append(s.Deviations, "root-issuer")
		} else {
			s.Links[n-1].Sub = nil
			s.Deviations = append(s.Deviations, "root-powerline")
		}
	case 6:
		s.Links[i].Sub = other(r, s.Subject)
		s.Deviations = append(s.Deviations, fmt.Sprintf("subject@%d", i))
	case 7:
		s.Links[i].Sub = nil
		s.Deviations = append(s.Deviations, fmt.Sprintf("powerline@%d", i))
	case 8:
		if n < 2 {
			return
		}
		j := r.IntN(n)
		if j == i {
			j = (i + 1) % n
		}
		s.Links[i], s.Links[j] = s.Links[j], s.Links[i]
		s.Deviations = append(s.Deviations, fmt.Sprintf("swap@%d,%d", i, j))
	case 9:
		l := s.Links[i]
		name := "dup"
		if r.IntN(3) > 0 {
			// the very same token listed again (the same CID twice in the proof list) - next to
			// itself, or at the end of the list
			if s.Links[i].ID == 0 {
				s.Links[i].ID = 1 + r.IntN(1<<30)
			}
			l = s.Links[i]
			l.RepeatID, l.ID = l.ID, 0
			name = "repeat"
			if r.IntN(2) == 0 {
				// ... the second time under another CID of the same bytes, unknown to the loader
				l.AliasCID = true
				name = "repeat-alias-cid"
			}
			if r.IntN(2) == 0 {
				s.Links = append(s.Links, l)
				s.Deviations = append(s.Deviations, fmt.Sprintf("repeat-at-end@%d", i))
				return
			}
		}
		s.Links = append(s.Links[:i+1], append([]chain.Link{l}, s.Links[i+1:]...)...)
		s.Deviations = append(s.Deviations, fmt.Sprintf("%s@%d", name, i))
	case 10:
		s.Links = append(s.Links[:i:i], s.Links[i+1:]...)
		s.Deviations = append(s.Deviations, fmt.Sprintf("truncate@%d", i))
	case 13:
		// only the root link is about (and issued by) a foreign subject
		y := other(r, s.Subject)
		s.Links[n-1].Sub = y
		s.Links[n-1].Iss = y
		s.Deviations = append(s.Deviations, "root-foreign")
	case 11, 12:
		// the whole chain is rooted at (and names) a foreign subject
		y := other(r, s.Subject)
		for k := range s.Links {
			s.Links[k].Sub = y
		}
		s.Links[n-1].Iss = y
		s.Deviations = append(s.Deviations, "foreign-root")
	}
}

func posClass(why string, n int) (rule, pos string) {
	rule, at, ok := strings.Cut(why, "@")
	if !ok {
		switch rule {
		case "first-aud":
			return rule, "first"
		case "root":
			return rule, "last"
		}
		return rule, "-"
	}
	var i int
	fmt.Sscanf(at, "%d", &i)
	switch {
	case i == 0:
		pos = "first"
	case i >= n-1 || (rule == "link" && i >= n-2):
		pos = "last"
	default:
		pos = "middle"
	}
	return rule, pos
}

var hookFlavour atomic.Int64
var allowedMode atomic.Int64

// AllowedHistory counts what allowed() did around the judged calls (reported in the evidence
// through the counters of the calling property).
var AllowedHistory [6]atomic.Int64

// allowed runs the check whose verdict is judged. The verdict of a check is a function of the
// invocation, the loader and the arguments - not of what was checked before - so the judged
// call is preceded, in rotation, by calls that must not matter:
//
//	1: the same check against a loader that fails at its 1st / 2nd / 3rd lookup (a store that
//	   is still filling up): denied, and forgotten;
//	2: the same check once more (the judged verdict is the second one);
//	3: a check through an argument hook that misbehaves - returns (nil, nil), an argument map
//	   listing a key twice, an error, or panics (recovered here).
//
// With hook, the judged call goes through the args-hook variant with a hook that hands the
// token's own arguments back - as a clone, or as a clone into which the same arguments (or a
// second clone of them) were merged again, which changes nothing.
func allowed(inv *invocation.Token, ld delegation.Loader, hook bool) error {
	mode := allowedMode.Add(1) % 5
	AllowedHistory[mode].Add(1)
	switch mode {
	case 1:
		fail := &nthFailLoader{inner: ld, failAt: 1 + int(allowedMode.Load()/5)%3}
		mon.Guard(func() { _ = judged(inv, fail, hook) })
	case 2:
		mon.Guard(func() { _ = judged(inv, ld, hook) })
	case 3:
		fl := allowedMode.Load() / 5 % 4
		mon.Guard(func() {
			_ = inv.ExecutionAllowedWithArgsHook(ld, func(a args.ReadOnly) (*args.Args, error) {
				switch fl {
				case 0:
					return nil, nil
				case 1:
					c := a.WriteableClone()
					if len(c.Keys) > 0 {
						c.Keys = append(c.Keys, c.Keys[0])
					} else {
						_ = c.Add("k", 1)
						c.Keys = append(c.Keys, "k")
					}
					return c, nil
				case 2:
					return nil, errors.New("hook: backend unavailable")
				}
				panic("hook: index out of range")
			})
		})
	}
	return judged(inv, ld, hook)
}

func judged(inv *invocation.Token, ld delegation.Loader, hook bool) error {
	if hook {
		fl := hookFlavour.Add(1) % 3
		return inv.ExecutionAllowedWithArgsHook(ld, func(a args.ReadOnly) (*args.Args, error) {
			c := a.WriteableClone()
			switch fl {
			case 1:
				c.Include(a)
			case 2:
				c.Include(a.WriteableClone())
			}
			return c, nil
		})
	}
	return inv.ExecutionAllowed(ld)
}

// nthFailLoader reports "not found" at its failAt-th lookup.
type nthFailLoader struct {
	inner  delegation.Loader
	failAt int
	n      int
}

func (l *nthFailLoader) GetDelegation(c cid.Cid) (*delegation.Token, error) {
	l.n++
	if l.n == l.failAt {
		return nil, delegation.ErrDelegationNotFound
	}
	return l.inner.GetDelegation(c)
}

func runC01(w *mon.W) {
	if purityGate(w, c01Purity) {
		return
	}
	r := w.Rng
	total := w.Share(w.Pick(8000, 150000))
	maxN := w.Pick(6, 8)
	for it := 0; it < total; it++ {
		n := r.IntN(maxN + 1)
		if it%8 == 0 {
			n = 1 + (it/8)%maxN // make sure every length occurs
		}
		if it%10 == 3 {
			n = 9 + r.IntN(32) // beyond any small loop bound / fixed-size buffer
			w.Cover("long-chain")
		}
		s := chain.Conformant(r, n, 10)
		nd := 0
		switch x := r.IntN(10); {
		case x < 3:
			nd = 0
		case x < 8:
			nd = 1
		case x < 9:
			nd = 2
		default:
			nd = 3
		}
		for k := 0; k < nd; k++ {
			deviate(r, s)
		}
		if r.IntN(2) == 0 {
			s.Wire = 1 + r.IntN(4)
		}
		hook := r.IntN(4) == 0
		b, err := s.Build(r)
		if err != nil {
			w.Inconclusive("C01 scenario could not be realised: " + err.Error() + " " + fmt.Sprint(s.Describe()))
			continue
		}
		want, why := s.PrincipalsOK()
		rule, pos := posClass(why, len(s.Links))
		// audience variants
		var chainP *gen.Principal
		if len(s.Links) > 0 {
			last := s.Links[len(s.Links)-1]
			chainP = last.Sub
			if chainP == nil || chainP == s.Subject {
				chainP = last.Iss
			}
		} else {
			chainP = s.Invoker
		}
		avoid := []*gen.Principal{s.Subject, s.Invoker}
		for _, l := range s.Links {
			avoid = append(avoid, l.Iss, l.Aud)
		}
		variants := []struct {
			name string
			p    *gen.Principal
		}{{"unset", nil}, {"subject", s.Subject}, {"invoker", s.Invoker}, {"third", other(r, avoid...)}, {"chain", chainP}}
		outcomes := make([]bool, len(variants))
		errs := make([]string, len(variants))
		for vi, v := range variants {
			inv, err := s.MakeInvocation(b, v.p, r)
			if err != nil {
				w.Inconclusive("C01 invocation could not be realised: " + err.Error())
				continue
			}
			e := allowed(inv, b.Loader, hook)
			w.Eval(1)
			outcomes[vi] = e == nil
			errs[vi] = errStr(e)
			if e == nil {
				w.Cover("allow/audience=" + v.name)
				if !want {
					d := s.Describe()
					d["audience"] = v.name
					d["model_denies_because"] = why
					d["hook"] = hook
					w.Violate(fmt.Sprintf("unsound/%s/%s/audience=%s", rule, pos, v.name),
						fmt.Sprintf("ExecutionAllowed = nil although the principal rule %q is violated (audience variant %s, deviations %v)", why, v.name, s.Deviations), d)
				}
			}
		}
		for vi := 1; vi < len(variants); vi++ {
			if outcomes[vi] != outcomes[0] {
				d := s.Describe()
				d["outcomes"] = map[string]any{"variants": []string{"unset", "subject", "invoker", "third", "chain"}, "allowed": outcomes, "errors": errs}
				w.Violate(fmt.Sprintf("audience-dependent/%s-vs-unset/model=%v", variants[vi].name, want),
					fmt.Sprintf("outcome depends on the invocation audience: unset -> allowed=%v (%s), %s -> allowed=%v (%s)", outcomes[0], errs[0], variants[vi].name, outcomes[vi], errs[vi]), d)
			}
		}
		// sloppy loaders: one that answers (nil, nil) for a delegation it does not have, one that
		// panics. Whatever the check does then (an error, or the panic passing through), it may
		// not report the invocation as allowed
		if !want && (rule == "unloadable") && it%2 == 0 {
			for _, mode := range []string{"nil-nil", "panics", "token-and-error"} {
				if inv, err := s.MakeInvocation(b, s.Audience, r); err == nil {
					var e error
					pi := mon.Guard(func() { e = allowed(inv, &sloppyLoader{inner: b.Loader, mode: mode, plain: b.Plain}, hook) })
					w.Eval(1)
					w.Cover("sloppy-loader/" + mode)
					if pi == nil && e == nil {
						d := s.Describe()
						d["loader"] = "answers an unknown / failing CID with " + mode
						w.Violate("unsound/sloppy-loader/"+mode, fmt.Sprintf("ExecutionAllowed = nil although a referenced delegation cannot be loaded (the loader %s for it)", map[string]string{"nil-nil": "returns (nil, nil)", "panics": "panics", "token-and-error": "returns the token it still has TOGETHER WITH an error that is not ErrDelegationNotFound"}[mode]), d)
					}
				}
			}
		}
		// history independence: the verdict for (token, loader) may not depend on earlier calls on
		// the same token object - full loader, then a loader that lost one delegation, then the
		// full one again
		if want && len(s.Links) > 0 && it%3 == 0 {
			if inv, err := s.MakeInvocation(b, s.Audience, r); err == nil {
				e1 := allowed(inv, b.Loader, hook)
				gone := b.Cids[r.IntN(len(b.Cids))]
				e2 := allowed(inv, &withoutLoader{inner: b.Loader, gone: gone}, hook)
				e3 := allowed(inv, b.Loader, !hook)
				w.Eval(3)
				w.Cover("history/full-depleted-full")
				if e1 != nil || e2 == nil || e3 != nil {
					d := s.Describe()
					d["sequence"] = []string{"full loader: " + errStr(e1), "loader without " + gone.String() + ": " + errStr(e2), "full loader: " + errStr(e3)}
					cls := "depleted-loader-allowed"
					if e2 != nil {
						cls = "full-loader-denied"
					}
					w.Violate("history-dependent/"+cls, fmt.Sprintf("three checks of the same invocation token: full loader -> %s, loader missing one delegation -> %s, full loader -> %s", errStr(e1), errStr(e2), errStr(e3)), d)
				}
			}
		}
		if hook {
			w.Cover("hook")
		}
		if want {
			w.Cover(fmt.Sprintf("allow/n=%d", len(s.Links)))
		} else {
			w.Cover("deny/" + rule + "/" + pos)
		}
		for _, dv := range s.Deviations {
			name, _, _ := strings.Cut(dv, "@")
			w.Cover("dev/" + name)
		}
		if len(s.Links) >= 1 && (len(s.Deviations) > 0 || len(s.Links) >= 2) {
			w.Distinct(s.Pattern(), strings.Join(s.Deviations, ","), s.Wire)
		}
		if w.WantSample() && len(s.Deviations) > 0 && len(s.Links) >= 2 {
			d := s.Describe()
			d["model_principals_ok"] = want
			d["model_first_violated_rule"] = why
			d["allowed_per_audience_variant"] = outcomes
			w.Sample(d)
		}
	}
}

// sloppyLoader turns every failure of the inner loader into (nil, nil) or into a panic.
type sloppyLoader struct {
	inner delegation.Loader
	mode  string
	plain delegation.Loader // the store without injected faults (mode token-and-error)
}

func (l *sloppyLoader) GetDelegation(c cid.Cid) (*delegation.Token, error) {
	t, err := l.inner.GetDelegation(c)
	if err != nil || t == nil {
		switch l.mode {
		case "panics":
			panic("loader: index out of range")
		case "token-and-error":
			// a store that reports a failure (withdrawn, unreachable, deadline) next to a stale entry
			if l.plain != nil {
				if stale, perr := l.plain.GetDelegation(c); perr == nil && stale != nil {
					return stale, fmt.Errorf("store: entry withdrawn: %w", chain.ErrLoaderIO)
				}
			}
			if err == nil {
				err = chain.ErrLoaderIO
			}
			return nil, err
		}
		return nil, nil
	}
	return t, nil
}

// withoutLoader hides one delegation of an inner loader.
type withoutLoader struct {
	inner delegation.Loader
	gone  cid.Cid
}

func (l *withoutLoader) GetDelegation(c cid.Cid) (*delegation.Token, error) {
	if c.Equals(l.gone) {
		return nil, delegation.ErrDelegationNotFound
	}
	return l.inner.GetDelegation(c)
}
