package props

import (
	"bytes"
	"compress/gzip"
	"compress/zlib"
	cryptorand "crypto/rand"
	"encoding/base64"
	"errors"
	"fmt"

	"github.com/ucan-wg/go-ucan/pkg/command"
	"github.com/ucan-wg/go-ucan/pkg/meta"
	"github.com/ucan-wg/go-ucan/pkg/policy"
	"github.com/ucan-wg/go-ucan/token"
	"github.com/ucan-wg/go-ucan/token/delegation"
	"github.com/ucan-wg/go-ucan/token/invocation"

	"verifharness/gen"
	"verifharness/mon"
)

func init() {
	register(&mon.Prop{
		ID:    "C19",
		Level: "fault_enumeration",
		Rule: "plaintexts of length {0,1,15,16,17,64,1024 (+65536 thorough)}, text and binary, under random 32-byte keys, added through delegation / invocation options and meta.AddEncrypted: right-key read-back before and after seal/unseal in DAG-CBOR and DAG-JSON (typed and generic decoders); fault enumeration over the stored ciphertext: EVERY single-bit flip (nonce, MAC, body; exhaustive up to 1 KiB plaintexts, first/last 128 bytes + 2000 random bits for 64 KiB) and EVERY truncation length must make the read fail; a second random key must fail; plaintext must not occur in the stored value nor in the sealed bytes; two encryptions of the same value differ and all 24-byte nonces of the run are pairwise distinct; nil / every length 0..64 except 32 / all-zero keys refused by add and get; fault injection on the entropy source (crypto/rand.Reader failing at once / after 5 / after 23 bytes): two encryptions of the same value must not come out identical. " +
			"Purity (also in a -race build): a sample of these calls on shared objects is repeated in reverse / shuffled order and from 16..32 goroutines at once; every outcome must equal the first one and the race detector must stay silent. " +
			"non-trivial = tamper case on a ciphertext of a non-empty plaintext; distinct = (plaintext length, kind, tamper position).",
		Assumptions: []string{
			"'confidential' is restated as its observable consequences (plaintext absent, fresh nonces, authentication failure on every single-bit change); no cryptanalytic claim",
		},
		Exhaustive:      true,
		Shards:          shards(8, 16),
		RaceShards:      shards(1, 2),
		RaceIsViolation: true,
		Run:             runC19,
		MinEvals:        floor(20000, 250000),
		MinDistinct:     floor(15000, 200000),
		RequiredCells: func(string) []string {
			return []string{"purity/encrypted-meta/history", "purity/encrypted-meta/concurrent", "roundtrip/constructed", "roundtrip/dagcbor", "roundtrip/dagjson", "roundtrip/delegation", "roundtrip/invocation", "roundtrip/string", "roundtrip/bytes",
				"tamper/bitflip-nonce", "tamper/bitflip-mac", "tamper/bitflip-body", "tamper/truncate", "size-sweep", "plain/self-describing", "plain/self-describing/kind-0", "plain/self-describing/kind-1", "plain/self-describing/kind-4", "wrong-key", "wrong-key/related", "plaintext-absent", "fresh-nonce", "fresh-nonce/option-reused", "key-buffer-reused", "entropy-fault", "never-encrypted", "badkey/derived-from-right-key", "badkey/nil", "badkey/size", "badkey/zero", "len=0", "len=1024"}
		},
	})
}

func runC19(w *mon.W) {
	if purityGate(w, c19Purity) {
		return
	}
	c19Sizes(w)
	r := w.Rng
	lens := []int{0, 1, 15, 16, 17, 64, 1024}
	if w.Thorough() {
		lens = append(lens, 65536)
	}
	nonces := map[string]bool{}
	cmd := command.MustParse("/a")
	idx := 0
	reps := w.Pick(2, 6)
	for rep := 0; rep < reps; rep++ {
		for _, ln := range lens {
			for _, isText := range []bool{true, false} {
				for _, typ := range []string{"delegation", "invocation"} {
					idx++
					if !w.Mine(idx) {
						continue
					}
					key := gen.Bytes(r, 32)
					key2 := gen.Bytes(r, 32)
					var plain []byte
					if isText {
						alpha := "abcdefghijklmnopqrstuvwxyz ABCDEFGH0123456789éü"
						rs := []rune(alpha)
						var sb []rune
						for len(string(sb)) < ln {
							sb = append(sb, rs[r.IntN(len(rs)-2)]) // ascii part keeps the byte length exact
						}
						plain = []byte(string(sb))[:ln]
					} else {
						plain = gen.Bytes(r, ln)
						// every third binary plaintext is a payload that DESCRIBES itself (a complete gzip or zlib
						// stream, a PNG signature, base64 text, the DAG-JSON spelling of bytes, a CBOR map, a zip
						// header): it is data like any other and comes back byte for byte
						if (idx/2)%2 == 0 && ln > 0 {
							plain = selfDescribing(idx/4+rep, ln)
							w.Cover("plain/self-describing")
							w.Cover(fmt.Sprintf("plain/self-describing/kind-%d", (idx/4+rep)%7))
						}
					}
					p := gen.Ed(idx)
					desc := fmt.Sprintf("%s len=%d text=%v", typ, ln, isText)
					w.Cover(fmt.Sprintf("len=%d", ln))
					var ro meta.ReadOnly
					var tk token.Token
					var err error
					if typ == "delegation" {
						opt := delegation.WithEncryptedMetaBytes("secret", plain, key)
						if isText {
							opt = delegation.WithEncryptedMetaString("secret", string(plain), key)
						}
						var d *delegation.Token
						d, err = delegation.Root(p.DID, gen.Ed(idx+1).DID, cmd, policy.Policy{}, opt, delegation.WithMeta("plain", "visible"))
						if err == nil {
							ro, tk = d.Meta(), d
						}
					} else {
						opt := invocation.WithEncryptedMetaBytes("secret", plain, key)
						if isText {
							opt = invocation.WithEncryptedMetaString("secret", string(plain), key)
						}
						var iv *invocation.Token
						iv, err = invocation.New(p.DID, p.DID, cmd, nil, opt)
						if err == nil {
							ro, tk = iv.Meta(), iv
						}
					}
					if err != nil {
						w.Violate("add-fails/"+typ, fmt.Sprintf("adding an encrypted value (%s) with a valid key failed: %v", desc, err), map[string]any{"case": desc})
						continue
					}
					w.Cover("roundtrip/" + typ)
					if isText {
						w.Cover("roundtrip/string")
					} else {
						w.Cover("roundtrip/bytes")
					}
					check := func(state string, m meta.ReadOnly) []byte {
						w.Cover("roundtrip/" + state)
						stored, err := m.GetBytes("secret")
						if err != nil {
							w.Violate("roundtrip/stored-missing/"+state, fmt.Sprintf("%s %s: the stored ciphertext cannot be read as bytes: %v", desc, state, err), map[string]any{"case": desc})
							return nil
						}
						got, err := m.GetEncryptedBytes("secret", key)
						w.Eval(1)
						if err != nil || !bytes.Equal(got, plain) {
							w.Violate("roundtrip/bytes-differ/"+state+"/"+typ, fmt.Sprintf("%s %s: GetEncryptedBytes with the right key: err=%v, equal=%v", desc, state, err, bytes.Equal(got, plain)),
								map[string]any{"case": desc, "key": mon.Hex(key), "plaintext": mon.Hex(capBytes(plain, 256)), "stored": mon.Hex(capBytes(stored, 256))})
						}
						gs, err := m.GetEncryptedString("secret", key)
						w.Eval(1)
						if err != nil || gs != string(plain) {
							w.Violate("roundtrip/string-differs/"+state+"/"+typ, fmt.Sprintf("%s %s: GetEncryptedString with the right key: err=%v", desc, state, err), map[string]any{"case": desc})
						}
						// wrong key
						if _, err := m.GetEncryptedBytes("secret", key2); err == nil {
							w.Violate("wrong-key-accepted/"+state, fmt.Sprintf("%s %s: reading with a different key returned data", desc, state), map[string]any{"case": desc, "key": mon.Hex(key), "other_key": mon.Hex(key2), "stored": mon.Hex(capBytes(stored, 256))})
						}
						w.Eval(1)
						w.Cover("wrong-key")
						if len(plain) >= 16 {
							w.Cover("plaintext-absent")
							if bytes.Contains(stored, plain) {
								w.Violate("plaintext-in-stored/"+state, desc+": the plaintext occurs in the stored value", map[string]any{"case": desc})
							}
						}
						if len(stored) != len(plain)+40 {
							w.Count("stored-length-not-plaintext+40", 1)
						}
						return stored
					}
					stored := check("constructed", ro)
					if stored == nil {
						continue
					}
					if len(stored) >= 24 {
						n := string(stored[:24])
						if nonces[n] {
							w.Violate("nonce-reused", "two ciphertexts of this run share their 24-byte nonce", map[string]any{"nonce": mon.Hex(stored[:24])})
						}
						nonces[n] = true
						w.Cover("fresh-nonce")
					}
					// two encryptions of the same value differ
					m2 := meta.NewMeta()
					if err := m2.AddEncrypted("secret", plain, key); err == nil {
						s2, _ := m2.GetBytes("secret")
						if bytes.Equal(s2, stored) {
							w.Violate("encryption-deterministic", desc+": two encryptions of the same value under the same key are identical", map[string]any{"case": desc})
						}
						if len(s2) >= 24 {
							if nonces[string(s2[:24])] {
								w.Violate("nonce-reused", "two ciphertexts of this run share their 24-byte nonce", map[string]any{"nonce": mon.Hex(s2[:24])})
							}
							nonces[string(s2[:24])] = true
						}
					} else {
						w.Violate("add-fails/meta", "meta.AddEncrypted with a valid key failed: "+err.Error(), map[string]any{"case": desc})
					}
					// sealed forms
					sealed, _, err := tk.ToSealed(p.Priv)
					if err != nil {
						w.Violate("seal-fails/"+typ, desc+": ToSealed failed: "+err.Error(), map[string]any{"case": desc})
						continue
					}
					if len(plain) >= 16 && bytes.Contains(sealed, plain) {
						w.Violate("plaintext-in-sealed/dagcbor", desc+": the plaintext occurs in the sealed token", map[string]any{"case": desc})
					}
					js, err := tk.ToDagJson(p.Priv)
					if err != nil {
						w.Violate("seal-fails/dagjson/"+typ, desc+": ToDagJson failed: "+err.Error(), map[string]any{"case": desc})
						continue
					}
					if len(plain) >= 16 && isText && bytes.Contains(js, plain) {
						w.Violate("plaintext-in-sealed/dagjson", desc+": the plaintext occurs in the DAG-JSON token", map[string]any{"case": desc})
					}
					metaOf := func(t token.Token) (meta.ReadOnly, bool) {
						switch x := t.(type) {
						case *delegation.Token:
							return x.Meta(), true
						case *invocation.Token:
							return x.Meta(), true
						}
						return meta.ReadOnly{}, false
					}
					if t2, _, err := token.FromSealed(sealed); err != nil {
						w.Violate("unseal-fails/dagcbor/"+typ, desc+": FromSealed failed: "+err.Error(), map[string]any{"case": desc})
					} else if m, ok := metaOf(t2); ok {
						check("dagcbor", m)
					}
					if t3, err := token.FromDagJson(js); err != nil {
						w.Violate("unseal-fails/dagjson/"+typ, desc+": FromDagJson failed: "+err.Error(), map[string]any{"case": desc})
					} else if m, ok := metaOf(t3); ok {
						check("dagjson", m)
					}
					if w.WantSample() && ln == 17 {
						w.Sample(map[string]any{"case": desc, "key": mon.Hex(key), "plaintext": mon.Hex(plain), "stored_ciphertext": mon.Hex(stored), "tamper_cases": len(stored)*8 + len(stored)})
					}

					// ---- fault enumeration over the stored ciphertext (once per length/kind, first repetition)
					// quick: once per length/kind; thorough: on every generated ciphertext
					if !w.Thorough() && (rep > 0 || typ != "delegation") {
						continue
					}
					tryTampered := func(kind string, pos int, t []byte) {
						m := meta.NewMeta()
						if err := m.Add("secret", t); err != nil {
							return
						}
						got, err := m.GetEncryptedBytes("secret", key)
						w.Eval(1)
						if ln > 0 {
							w.Distinct(ln, isText, kind, pos, rep, typ)
						}
						if err == nil {
							w.Violate("tamper-accepted/"+kind, fmt.Sprintf("%s: a modified ciphertext (%s at %d) decrypts without error to %d bytes", desc, kind, pos, len(got)),
								map[string]any{"case": desc, "key": mon.Hex(key), "original": mon.Hex(capBytes(stored, 512)), "tampered": mon.Hex(capBytes(t, 512)), "kind": kind, "position": pos})
						}
					}
					bits := len(stored) * 8
					flip := func(b int) {
						t := append([]byte{}, stored...)
						t[b/8] ^= 1 << (b % 8)
						region := "body"
						switch {
						case b/8 < 24:
							region = "nonce"
						case b/8 < 40:
							region = "mac"
						}
						w.Cover("tamper/bitflip-" + region)
						tryTampered("bitflip-"+region, b, t)
					}
					if len(stored) <= 1024+40 {
						for b := 0; b < bits; b++ {
							flip(b)
						}
						for k := 0; k < len(stored); k++ {
							w.Cover("tamper/truncate")
							tryTampered("truncate", k, stored[:k])
						}
					} else {
						for b := 0; b < 128*8; b++ {
							flip(b)
							flip(bits - 1 - b)
						}
						for i := 0; i < 2000; i++ {
							flip(r.IntN(bits))
						}
						for _, k := range []int{0, 1, 23, 24, 39, 40, 41, len(stored) / 2, len(stored) - 1} {
							w.Cover("tamper/truncate")
							tryTampered("truncate", k, stored[:k])
						}
					}
					tryTampered("extend", len(stored), append(append([]byte{}, stored...), 0))
				}
			}
		}
	}

	// ---- the caller's key BUFFER is reused: a value is stored under the key held in a slice,
	// then the slice is overwritten in place - wiped, or filled with another key - and offered
	// again. What counts is what the slice holds at the time of the call.
	for i := 0; i < w.Pick(12, 60); i++ {
		buf := gen.Bytes(r, 32)
		first := append([]byte{}, buf...)
		plain := gen.Bytes(r, 1+r.IntN(48))
		m := meta.NewMeta()
		if err := m.AddEncrypted("secret", plain, buf); err != nil {
			continue
		}
		if i%2 == 0 {
			// a successful read with the same buffer first
			_, _ = m.GetEncryptedBytes("secret", buf)
		}
		w.Cover("key-buffer-reused")
		// wiped in place: an all-zero key, to be refused
		for k := range buf {
			buf[k] = 0
		}
		if got, err := m.GetEncryptedBytes("secret", buf); err == nil {
			w.Violate("badkey-accepted/get/buffer-wiped-in-place", fmt.Sprintf("the key buffer was wiped to zero in place after use; offered again it is accepted and returns %d bytes", len(got)), map[string]any{"first_key": mon.Hex(first)})
		}
		if err := meta.NewMeta().AddEncrypted("x", "v", buf); err == nil {
			w.Violate("badkey-accepted/add/buffer-wiped-in-place", "the key buffer was wiped to zero in place after use; AddEncrypted accepts it", map[string]any{"first_key": mon.Hex(first)})
		}
		// another key drawn into the same buffer
		copy(buf, gen.Bytes(r, 32))
		second := append([]byte{}, buf...)
		if got, err := m.GetEncryptedBytes("secret", buf); err == nil {
			w.Violate("wrong-key-accepted/buffer-refilled-in-place", fmt.Sprintf("the key buffer was refilled with another key in place; it still reads the value stored under the first key (%d bytes)", len(got)), map[string]any{"first_key": mon.Hex(first), "second_key": mon.Hex(second)})
		}
		m2 := meta.NewMeta()
		if err := m2.AddEncrypted("s2", plain, buf); err == nil {
			if got, err := m2.GetEncryptedBytes("s2", second); err != nil || !bytes.Equal(got, plain) {
				w.Violate("roundtrip/bytes-differ/buffer-refilled-in-place", fmt.Sprintf("a value stored under the second key held in a reused buffer cannot be read with a copy of that key: %v", err), map[string]any{"first_key": mon.Hex(first), "second_key": mon.Hex(second)})
			}
			if _, err := m2.GetEncryptedBytes("s2", first); err == nil {
				w.Violate("wrong-key-accepted/buffer-refilled-in-place/old-key-reads-new-value", "a value stored under the second key (held in a reused buffer) is readable with the FIRST key", map[string]any{"first_key": mon.Hex(first), "second_key": mon.Hex(second)})
			}
		}
		w.Eval(5)
	}

	// ---- one Option value applied to several tokens (a shared default-options slice): every
	// token gets its own encryption of the value - the stored values and their nonces differ
	for i := 0; i < w.Pick(6, 30); i++ {
		key := gen.Bytes(r, 32)
		plain := gen.Bytes(r, 1+r.IntN(64))
		p := gen.Ed(i)
		var stored [][]byte
		if i%2 == 0 {
			opt := delegation.WithEncryptedMetaBytes("secret", plain, key)
			if i%4 == 0 {
				opt = delegation.WithEncryptedMetaString("secret", string(plain), key)
			}
			for k := 0; k < 3; k++ {
				d, err := delegation.Root(p.DID, gen.Ed(i+1).DID, cmd, policy.Policy{}, opt)
				if err != nil {
					break
				}
				if b, err := d.Meta().GetBytes("secret"); err == nil {
					stored = append(stored, b)
				}
			}
		} else {
			opt := invocation.WithEncryptedMetaBytes("secret", plain, key)
			if i%4 == 1 {
				opt = invocation.WithEncryptedMetaString("secret", string(plain), key)
			}
			for k := 0; k < 3; k++ {
				iv, err := invocation.New(p.DID, p.DID, cmd, nil, opt)
				if err != nil {
					break
				}
				if b, err := iv.Meta().GetBytes("secret"); err == nil {
					stored = append(stored, b)
				}
			}
		}
		w.Eval(int64Len(stored))
		w.Cover("fresh-nonce/option-reused")
		for a := 0; a < len(stored); a++ {
			for b := a + 1; b < len(stored); b++ {
				if bytes.Equal(stored[a], stored[b]) || (len(stored[a]) >= 24 && len(stored[b]) >= 24 && bytes.Equal(stored[a][:24], stored[b][:24])) {
					w.Violate("fresh/option-reused-same-ciphertext", "one encrypted-metadata Option applied to two tokens stores the same ciphertext / the same nonce in both", map[string]any{"stored_a": mon.Hex(capBytes(stored[a], 128)), "stored_b": mon.Hex(capBytes(stored[b], 128))})
				}
			}
		}
	}

	// ---- wrong-size keys derived from the RIGHT key (every proper prefix, the key extended), with
	// right keys that contain zero bytes at their ends: none may decrypt
	for _, shape := range []string{"random", "trailing-zero", "two-trailing-zeros", "leading-zero", "mostly-zero"} {
		key := gen.Bytes(r, 32)
		for i := range key {
			key[i] |= 1
		}
		switch shape {
		case "trailing-zero":
			key[31] = 0
		case "two-trailing-zeros":
			key[30], key[31] = 0, 0
		case "leading-zero":
			key[0] = 0
		case "mostly-zero":
			for i := 1; i < 32; i++ {
				key[i] = 0
			}
		}
		m := meta.NewMeta()
		if err := m.AddEncrypted("secret", "a secret of some length", key); err != nil {
			w.Violate("add-fails/valid-key-with-zero-bytes", "AddEncrypted refused a valid 32-byte key ("+shape+"): "+err.Error(), map[string]any{"key": mon.Hex(key)})
			continue
		}
		var cands [][]byte
		for n := 0; n < 32; n++ {
			cands = append(cands, key[:n], key[32-n:])
		}
		for n := 1; n <= 8; n++ {
			cands = append(cands, append(append([]byte{}, key...), make([]byte, n)...), append(make([]byte, n), key...))
		}
		for _, k := range cands {
			if len(k) == 32 {
				continue
			}
			got, err := m.GetEncryptedBytes("secret", k)
			_, err2 := m.GetEncryptedString("secret", k)
			w.Eval(2)
			w.Cover("badkey/derived-from-right-key")
			w.Distinct("derived-key", shape, len(k), mon.Hex(capBytes(k, 4)))
			if err == nil || err2 == nil {
				w.Violate("badkey-accepted/get/derived/"+shape, fmt.Sprintf("a %d-byte key derived from the right key (%s) decrypts the value (%d bytes returned)", len(k), shape, len(got)), map[string]any{"right_key": mon.Hex(key), "offered_key": mon.Hex(k)})
			}
			if err := meta.NewMeta().AddEncrypted("x", "v", k); err == nil {
				w.Violate("badkey-accepted/add/derived/"+shape, fmt.Sprintf("AddEncrypted accepted a %d-byte key", len(k)), map[string]any{"offered_key": mon.Hex(k)})
			}
		}
		// valid 32-byte keys RELATED to the right one: every single-bit difference (256), every
		// single-byte difference, keys sharing a prefix / a suffix of every length with it, the
		// key reversed, rotated by one byte: each is a different key and may not decrypt - also
		// after the value went through seal / unseal
		var related [][]byte
		for bit := 0; bit < 256; bit++ {
			k := append([]byte{}, key...)
			k[bit/8] ^= 1 << (bit % 8)
			related = append(related, k)
		}
		for n := 0; n < 32; n++ {
			k := append([]byte{}, key...)
			k[n] ^= 0xa5
			related = append(related, k)
			// same first n bytes, the rest different; same last n bytes, the rest different
			p := append([]byte{}, key...)
			q := append([]byte{}, key...)
			for i := n; i < 32; i++ {
				p[i] ^= byte(0x11 + i)
			}
			for i := 0; i < 32-n; i++ {
				q[i] ^= byte(0x11 + i)
			}
			related = append(related, p, q)
		}
		rev := make([]byte, 32)
		for i := range rev {
			rev[i] = key[31-i]
		}
		related = append(related, rev, append(append([]byte{}, key[1:]...), key[0]))
		for _, k := range related {
			if bytes.Equal(k, key) {
				continue
			}
			got, err := m.GetEncryptedBytes("secret", k)
			w.Eval(1)
			w.Cover("wrong-key/related")
			w.Distinct("related-key", shape, mon.Hex(k))
			if err == nil {
				diff := 0
				for i := range k {
					if k[i] != key[i] {
						diff++
					}
				}
				w.Violate("wrong-key-accepted/related/"+shape, fmt.Sprintf("a different valid key (%d of 32 bytes differ from the right one) decrypts the value (%d bytes returned)", diff, len(got)), map[string]any{"right_key": mon.Hex(key), "offered_key": mon.Hex(k)})
			}
		}
	}

	// ---- values that were never encrypted (plain bytes of every length 0..60, strings,
	// other kinds) must not come back as data from the decrypting getters
	{
		key := gen.Bytes(r, 32)
		for ln := 0; ln <= 60; ln++ {
			m := meta.NewMeta()
			_ = m.Add("b", gen.Bytes(r, ln))
			_ = m.Add("s", string(gen.Bytes(r, ln)))
			_ = m.Add("i", ln)
			for _, k := range []string{"b", "s", "i", "absent"} {
				got, err := m.GetEncryptedBytes(k, key)
				_, err2 := m.GetEncryptedString(k, key)
				w.Eval(2)
				w.Cover("never-encrypted")
				w.Distinct("never-encrypted", ln, k)
				if err == nil || err2 == nil {
					w.Violate("never-encrypted-value-decrypts/"+k, fmt.Sprintf("GetEncrypted* returned data (%d bytes) without error for a stored value that was never encrypted (kind %s, length %d)", len(got), k, ln), map[string]any{"kind": k, "len": ln, "key": mon.Hex(key)})
				}
			}
		}
	}

	// ---- entropy fault: with crypto/rand.Reader failing (at once, or after a few bytes) an
	// encryption must fail - or at least still be fresh; it may never silently reuse a nonce
	for _, okBytes := range []int{0, 5, 23} {
		key := gen.Bytes(r, 32)
		saved := cryptorand.Reader
		var cts [][]byte
		for rep := 0; rep < 2; rep++ {
			cryptorand.Reader = &failingReader{ok: okBytes}
			m := meta.NewMeta()
			err := m.AddEncrypted("secret", "the same value twice", key)
			cryptorand.Reader = saved
			w.Eval(1)
			w.Cover("entropy-fault")
			if err == nil {
				b, _ := m.GetBytes("secret")
				cts = append(cts, b)
			}
		}
		if len(cts) == 2 && bytes.Equal(cts[0], cts[1]) {
			w.Violate("entropy-fault/nonce-reused", fmt.Sprintf("with the entropy source failing after %d bytes, AddEncrypted succeeds twice and produces identical ciphertexts (nonce %x)", okBytes, capBytes(cts[0], 24)),
				map[string]any{"rng_bytes_before_failure": okBytes, "ciphertext": mon.Hex(cts[0])})
		}
	}

	// ---- key validation (every shard: cheap)
	good := gen.Bytes(r, 32)
	okMeta := meta.NewMeta()
	_ = okMeta.AddEncrypted("secret", []byte("sixteen byte msg"), good)
	for ln := 0; ln <= 64; ln++ {
		for _, zero := range []bool{false, true} {
			var k []byte
			cell := "badkey/size"
			switch {
			case ln == 0 && zero:
				k = nil
				cell = "badkey/nil"
			case zero:
				k = make([]byte, ln)
				if ln == 32 {
					cell = "badkey/zero"
				}
			default:
				k = gen.Bytes(r, ln)
				for i := range k {
					k[i] |= 1
				}
				if ln == 32 {
					continue // a valid key
				}
			}
			w.Cover(cell)
			m := meta.NewMeta()
			err := m.AddEncrypted("x", "value", k)
			w.Eval(1)
			if err == nil {
				w.Violate("badkey-accepted/add/"+cell[7:], fmt.Sprintf("AddEncrypted accepted a key of length %d (zero=%v, nil=%v)", ln, zero, k == nil), map[string]any{"key": mon.Hex(k), "len": ln})
			}
			_, err = okMeta.GetEncryptedBytes("secret", k)
			w.Eval(1)
			if err == nil {
				w.Violate("badkey-accepted/get/"+cell[7:], fmt.Sprintf("GetEncryptedBytes accepted a key of length %d (zero=%v)", ln, zero), map[string]any{"key": mon.Hex(k), "len": ln})
			}
			if _, err = okMeta.GetEncryptedString("secret", k); err == nil {
				w.Violate("badkey-accepted/getstring/"+cell[7:], fmt.Sprintf("GetEncryptedString accepted a key of length %d", ln), map[string]any{"key": mon.Hex(k), "len": ln})
			}
			_, derr := delegation.Root(gen.Ed(0).DID, gen.Ed(1).DID, cmd, policy.Policy{}, delegation.WithEncryptedMetaString("x", "v", k))
			_, ierr := invocation.New(gen.Ed(0).DID, gen.Ed(0).DID, cmd, nil, invocation.WithEncryptedMetaBytes("x", []byte("v"), k))
			w.Eval(2)
			if derr == nil || ierr == nil {
				w.Violate("badkey-accepted/option/"+cell[7:], fmt.Sprintf("a token option accepted an encryption key of length %d (zero=%v)", ln, zero), map[string]any{"key": mon.Hex(k), "len": ln})
			}
		}
	}
}

func capBytes(b []byte, n int) []byte {
	if len(b) > n {
		return b[:n]
	}
	return b
}

// failingReader delivers ok zero bytes, then fails.
type failingReader struct{ ok int }

func (f *failingReader) Read(p []byte) (int, error) {
	if f.ok <= 0 {
		return 0, errors.New("entropy source unavailable")
	}
	n := len(p)
	if n > f.ok {
		n = f.ok
	}
	for i := 0; i < n; i++ {
		p[i] = 0
	}
	f.ok -= n
	if n < len(p) {
		return n, errors.New("entropy source unavailable")
	}
	return n, nil
}

func int64Len(x [][]byte) int { return len(x) }

// selfDescribing returns a payload in a format that announces itself, made from about n bytes.
func selfDescribing(which, n int) []byte {
	body := bytes.Repeat([]byte("payload "), n/8+1)[:n]
	switch which % 7 {
	case 0:
		var b bytes.Buffer
		zw := gzip.NewWriter(&b)
		_, _ = zw.Write(body)
		_ = zw.Close()
		return b.Bytes()
	case 1:
		var b bytes.Buffer
		zw := zlib.NewWriter(&b)
		_, _ = zw.Write(body)
		_ = zw.Close()
		return b.Bytes()
	case 2:
		return append([]byte("\x89PNG\r\n\x1a\n"), body...)
	case 3:
		return []byte(base64.StdEncoding.EncodeToString(body))
	case 4:
		return []byte(`{"/":{"bytes":"` + base64.RawStdEncoding.EncodeToString(body) + `"}}`)
	case 5:
		return append([]byte{0xa1, 0x61, 0x61, 0x58, byte(min(n, 23))}, body[:min(n, 23)]...)
	}
	return append([]byte("PK\x03\x04"), body...)
}

// c19Sizes: plaintext lengths on both sides of the powers of two, shifted by the 40 bytes a
// stored value is longer than its plaintext (nonce and authenticator): what is accepted when
// added comes back when read, also after seal / unseal.
func c19Sizes(w *mon.W) {
	r := w.Rng
	cmd := command.MustParse("/a")
	idx := 0
	for _, k := range []int{10, 12, 16, 20} {
		for _, d := range []int{-41, -40, -39, -24, -16, -1, 0, 1} {
			idx++
			if !w.Mine(idx) {
				continue
			}
			n := 1<<k + d
			plain := gen.Bytes(r, n)
			key := gen.Bytes(r, 32)
			m := meta.NewMeta()
			w.Eval(1)
			w.Cover("size-sweep")
			if err := m.AddEncrypted("secret", plain, key); err != nil {
				w.Count("size-sweep/refused-when-added", 1) // (a size limit is not excluded; what is accepted must come back)
				continue
			}
			got, err := m.GetEncryptedBytes("secret", key)
			if err != nil || !bytes.Equal(got, plain) {
				w.Violate("roundtrip/size-sweep/meta", fmt.Sprintf("a %d-byte plaintext (2^%d%+d) is accepted by AddEncrypted but does not come back from GetEncryptedBytes with the same key: err=%v, %d bytes", n, k, d, err, len(got)),
					map[string]any{"plaintext_len": n, "error": errStr(err), "returned_len": len(got)})
				continue
			}
			if d != -39 && d != 0 {
				continue
			}
			p := gen.Ed(idx)
			dl, err := delegation.Root(p.DID, gen.Ed(idx+1).DID, cmd, policy.Policy{}, delegation.WithEncryptedMetaBytes("secret", plain, key))
			if err != nil {
				continue
			}
			sealed, _, err := dl.ToSealed(p.Priv)
			if err != nil {
				continue
			}
			d2, _, err := delegation.FromSealed(sealed)
			if err != nil {
				w.Count("size-sweep/unseal-fails(judged by C07)", 1)
				continue
			}
			got, err = d2.Meta().GetEncryptedBytes("secret", key)
			w.Eval(1)
			if err != nil || !bytes.Equal(got, plain) {
				w.Violate("roundtrip/size-sweep/unsealed", fmt.Sprintf("a %d-byte plaintext (2^%d%+d) in a sealed and unsealed delegation does not come back with the same key: err=%v", n, k, d, err), map[string]any{"plaintext_len": n, "error": errStr(err)})
			}
		}
	}
}
