package props

import (
	"fmt"
	"math"
	"math/big"
	"reflect"
	"sort"
	"strings"

	"github.com/ipfs/go-cid"
	"github.com/ipld/go-ipld-prime/datamodel"

	"github.com/ucan-wg/go-ucan/did"
	"github.com/ucan-wg/go-ucan/pkg/args"
	"github.com/ucan-wg/go-ucan/pkg/command"
	"github.com/ucan-wg/go-ucan/pkg/meta"
	"github.com/ucan-wg/go-ucan/pkg/policy"
	"github.com/ucan-wg/go-ucan/pkg/policy/literal"
	"github.com/ucan-wg/go-ucan/token"
	"github.com/ucan-wg/go-ucan/token/delegation"
	"github.com/ucan-wg/go-ucan/token/invocation"

	"verifharness/gen"
	"verifharness/mon"
	"verifharness/ref"
)

func init() {
	register(&mon.Prop{
		ID:         "C10",
		Level:      "exploration",
		Exhaustive: true,
		Rule: "(1) complete matrix on payloads re-signed correctly by the issuer (independent envelope builder): every field of a full delegation / invocation payload x {dropped, renamed to an unknown name, null, retyped to each other IPLD kind, out-of-range / malformed values}, unknown extra field, SigPayload with 1 / 3 entries, two ucan/ keys, payload under the other type's tag or an unknown tag; each offered to the generic and both typed decoders in DAG-CBOR and DAG-JSON (quick: Ed25519 issuers, single mutations; thorough: all key kinds and pairs of simultaneous mutations). Oracle: anything on the must-reject list (missing required field, unknown field, wrong kind, wrong tag for the decoder, out-of-range integer in exp/nbf/iat/args/policy, nonce < 12 bytes, invalid command or principal) must be rejected, and every accepted token must satisfy the well-formedness predicate W read through its accessors (issuer and required principals defined, nonce >= 12, valid command, bounds and integers within +-(2^53-1), Go type matches the tag). " +
			"(2) constructor option fuzzing (undefined DIDs, nonces of 0..16 bytes, ...): New/Root return an error or a token satisfying W. " +
			"(3) Go values for args.Add / meta.Add / literal.Any / literal.Map / literal.List: every numeric type at {0, +-1, +-(2^53-1), +-2^53, min, max}, nested in slices, arrays, maps and pointers, typed nils, unsupported types: err == nil => the stored node equals the Go value exactly (big-integer / float64-exact comparison by an independent converter). " +
			"non-trivial = mutated payload that is still a well-signed envelope / Go value with a numeric leaf; distinct = (payload digest, decoder) / (Go type, value).",
		Assumptions: []string{
			"well-signed envelopes are produced by ref.SignEnvelope (qp + dagcbor + libp2p signing), independently of go-ucan's encoder",
			"metadata integers are not bounded by the property (only argument and policy integers and the time bounds are)",
		},
		Shards:      shards(4, 16),
		Run:         runC10,
		MinEvals:    floor(15000, 300000),
		MinDistinct: floor(1500, 30000),
		RequiredCells: func(string) []string {
			cells := []string{"library-sealed/offered", "library-sealed/rejected", "library-sealed/accepted", "ctor/undef-did", "ctor/root-with-subject-option", "ctor/short-nonce", "ctor/ok", "go/int-types", "go/uint-types", "go/float", "go/nested", "go/unsupported", "go/out-of-range", "envelope/one-entry", "envelope/three-entries", "envelope/two-payloads", "envelope/other-tag", "envelope/unknown-tag", "accepted", "rejected", "codec/dagcbor", "codec/dagjson", "dec/generic", "dec/typed"}
			for _, m := range []string{"dropped", "renamed", "null", "retyped", "out-of-range", "extra-field"} {
				cells = append(cells, "mut/"+m)
			}
			for _, f := range []string{"iss", "aud", "sub", "cmd", "pol", "nonce", "meta", "nbf", "exp", "args", "prf", "iat", "cause"} {
				cells = append(cells, "field/"+f)
			}
			return cells
		},
	})
}

// ---- W: the well-formedness predicate over accessors

func intsInRange(v ref.V) bool {
	switch v.K {
	case ref.KInt:
		return v.I <= ref.MaxSafe && v.I >= -ref.MaxSafe
	case ref.KUint:
		return false
	case ref.KList:
		for _, e := range v.L {
			if !intsInRange(e) {
				return false
			}
		}
	case ref.KMap:
		for _, e := range v.M {
			if !intsInRange(e.V) {
				return false
			}
		}
	}
	return true
}

// wellFormed returns "" or the first violated clause of W.
func wellFormed(t token.Token, wantTag string) string {
	inRange := func(v ref.V) bool {
		return v.K == ref.KNull || (v.K == ref.KInt && v.I <= ref.MaxSafe && v.I >= -ref.MaxSafe)
	}
	f := gen.Fields(t)
	get := func(k string) ref.V { v, _ := f.Get(k); return v }
	switch x := t.(type) {
	case *delegation.Token:
		if wantTag != "" && wantTag != ref.TagDelegation {
			return "type-does-not-match-tag"
		}
		if !x.Issuer().Defined() {
			return "issuer-undefined"
		}
		if !x.Audience().Defined() {
			return "audience-undefined"
		}
		if !intsInRange(get("pol")) {
			return "policy-integer-out-of-range"
		}
		if !inRange(get("nbf")) {
			return "nbf-out-of-range"
		}
	case *invocation.Token:
		if wantTag != "" && wantTag != ref.TagInvocation {
			return "type-does-not-match-tag"
		}
		if !x.Issuer().Defined() {
			return "issuer-undefined"
		}
		if !x.Subject().Defined() {
			return "subject-undefined"
		}
		if !intsInRange(get("args")) {
			return "argument-integer-out-of-range"
		}
		if !inRange(get("iat")) {
			return "iat-out-of-range"
		}
	default:
		return "unknown-token-type"
	}
	if n := get("nonce"); len(n.Y) < 12 {
		return "nonce-shorter-than-12"
	}
	if !ref.CmdValid(get("cmd").S) {
		return "invalid-command"
	}
	if !inRange(get("exp")) {
		return "exp-out-of-range"
	}
	return ""
}

// ---- (1) payload mutation matrix

type payMut struct {
	field  string
	kind   string // dropped renamed null retyped out-of-range extra-field
	detail string
	apply  func(p ref.V) ref.V
	// mustReject: the property's must-reject list covers this mutation
	mustReject bool
}

func withField(p ref.V, k string, v *ref.V) ref.V {
	out := cloneV(p)
	for j := range out.M {
		if out.M[j].K == k {
			if v == nil {
				out.M = append(out.M[:j], out.M[j+1:]...)
			} else {
				out.M[j].V = *v
			}
			return out
		}
	}
	if v != nil {
		out.M = append(out.M, ref.KV{K: k, V: *v})
	}
	return out
}

var kindSamples = map[string]ref.V{
	"null": ref.Null(), "bool": ref.Bool(true), "int": ref.Int(7), "float": ref.Float(1.5), "string": ref.Str("text"),
	"bytes": ref.Bytes([]byte("0123456789abcdef")), "list": ref.List(ref.Int(1)), "map": ref.Map(ref.E("k", ref.Int(1))),
	"link": ref.Link(ref.CID([]byte("x"))),
}

// kindSamplesAll adds the EMPTY value of every kind that has one (and zero / false): a check
// that looks at the length before the kind lets exactly these through.
var kindSamplesAll = func() map[string]ref.V {
	out := map[string]ref.V{}
	for k, v := range kindSamples {
		out[k] = v
	}
	out["empty-list"] = ref.V{K: ref.KList, L: []ref.V{}}
	out["empty-map"] = ref.V{K: ref.KMap, M: []ref.KV{}}
	out["empty-string"] = ref.Str("")
	out["empty-bytes"] = ref.Bytes([]byte{})
	out["empty-int"] = ref.Int(0)
	out["empty-bool"] = ref.Bool(false)
	return out
}()

// kindNamesAll: the keys of kindSamplesAll in a fixed order (the shards split the mutation list
// by index, so every process must enumerate it in the same order).
var kindNamesAll = func() []string {
	var out []string
	for k := range kindSamplesAll {
		out = append(out, k)
	}
	sort.Strings(out)
	return out
}()

func c10Mutations(typ string, base ref.V) []payMut {
	required := map[string]bool{"iss": true, "cmd": true, "exp": true}
	fieldKind := map[string]string{"iss": "string", "aud": "string", "sub": "string", "cmd": "string", "nonce": "bytes", "meta": "map", "exp": "int"}
	var fields []string
	if typ == "dlg" {
		fields = []string{"iss", "aud", "sub", "cmd", "pol", "nonce", "meta", "nbf", "exp"}
		required["aud"], required["pol"], required["nonce"] = true, true, true
		fieldKind["pol"], fieldKind["nbf"] = "list", "int"
	} else {
		fields = []string{"iss", "sub", "aud", "cmd", "args", "prf", "meta", "nonce", "exp", "iat", "cause"}
		required["sub"], required["args"], required["prf"] = true, true, true
		required["nonce"] = true // optional in the schema, but a decoded token must carry >= 12 bytes
		fieldKind["args"], fieldKind["prf"], fieldKind["iat"], fieldKind["cause"] = "map", "list", "int", "link"
	}
	var out []payMut
	for _, f := range fields {
		f := f
		out = append(out, payMut{f, "dropped", "", func(p ref.V) ref.V { return withField(p, f, nil) }, required[f]})
		out = append(out, payMut{f, "renamed", f + "x", func(p ref.V) ref.V {
			v, _ := p.Get(f)
			return withField(withField(p, f, nil), f+"x", &v)
		}, true}) // an unknown field name is on the must-reject list
		for _, kname := range kindNamesAll {
			kname, sample := kname, kindSamplesAll[kname]
			if strings.TrimPrefix(kname, "empty-") == fieldKind[f] {
				continue
			}
			kind := "retyped"
			if kname == "null" {
				kind = "null"
			}
			must := true
			if f == "exp" && kname == "null" {
				must = false // exp is nullable
			}
			out = append(out, payMut{f, kind, kname, func(p ref.V) ref.V { return withField(p, f, &sample) }, must})
		}
	}
	// out-of-range / malformed values
	oor := func(f, detail string, v ref.V, must bool) {
		out = append(out, payMut{f, "out-of-range", detail, func(p ref.V) ref.V { return withField(p, f, &v) }, must})
	}
	timeFields := []string{"exp", "nbf"}
	if typ == "inv" {
		timeFields = []string{"exp", "iat"}
	}
	for _, f := range timeFields {
		oor(f, "2^53", ref.Int(1<<53), true)
		oor(f, "-2^53", ref.Int(-(1 << 53)), true)
		oor(f, "maxint64", ref.Int(math.MaxInt64), true)
		oor(f, "minint64", ref.Int(math.MinInt64), true)
		oor(f, "2^53-1", ref.Int(ref.MaxSafe), false)
		oor(f, "-(2^53-1)", ref.Int(-ref.MaxSafe), false)
		oor(f, "uint64-max", ref.Uint(math.MaxUint64), true)
		oor(f, "2^63", ref.Uint(1<<63), true)
	}
	for _, n := range []int{0, 1, 4, 11} {
		oor("nonce", fmt.Sprintf("len=%d", n), ref.Bytes(make([]byte, n)), true)
	}
	oor("nonce", "len=12", ref.Bytes(make([]byte, 12)), false)
	for _, c := range []string{"", "a", "a/b", "/A", "/a/B", "/a/", "//", "/É", "/a/É/b", "/Σ", "/crud/Ⅳ", "/msg/Ⓐ", "/Ａ"} {
		// the same text may have been produced in this process by New / Join, which do not
		// police their segments: a decoder must refuse it all the same
		if strings.HasPrefix(c, "/") && len(c) > 1 {
			_ = command.New(strings.Split(c[1:], "/")...)
			_ = command.Top().Join(c[1:])
		}
		// (non-ASCII capitals, and Roman-numeral / circled / full-width capitals, which are upper-case
		// by the Unicode property as well as by "changed by lower-casing")
		oor("cmd", "invalid:"+c, ref.Str(c), true)
	}
	for _, c := range []string{"/é", "/crud/ⅳ", "/a//b", "/ほげ"} {
		oor("cmd", "valid:"+c, ref.Str(c), false)
	}
	for _, f := range []string{"iss", "aud", "sub"} {
		for _, d := range []string{"", "did:web:example.com", "did:key:", "did:key:zNotBase58!", "did:key:f00", "not a did"} {
			oor(f, "invalid:"+d, ref.Str(d), true)
		}
	}
	if typ == "dlg" {
		big := ref.Policy{{Kind: "==", Sel: ref.Sel{{Kind: ref.SField, Name: "a"}}, Val: ref.Int(1 << 53)}}.ToV()
		oor("pol", "int=2^53", big, true)
		nested := ref.Policy{{Kind: "not", Subs: []ref.Stmt{{Kind: "any", Sel: ref.Sel{{Kind: ref.SField, Name: "a"}}, Subs: []ref.Stmt{{Kind: "<", Sel: ref.Sel{}, Val: ref.List(ref.Map(ref.E("x", ref.Int(-(1 << 53)))))}}}}}}.ToV()
		oor("pol", "nested-int=-2^53", nested, true)
		u := ref.List(ref.List(ref.Str("=="), ref.Str(".a"), ref.Uint(1<<63)))
		oor("pol", "uint=2^63", u, true)
		ok := ref.Policy{{Kind: "==", Sel: ref.Sel{{Kind: ref.SField, Name: "a"}}, Val: ref.Int(ref.MaxSafe)}}.ToV()
		oor("pol", "int=2^53-1", ok, false)
		first := ref.Policy{{Kind: "==", Sel: ref.Sel{{Kind: ref.SField, Name: "a"}}, Val: ref.Int(1 << 53)}, {Kind: "==", Sel: ref.Sel{{Kind: ref.SField, Name: "b"}}, Val: ref.Int(1)}, {Kind: "like", Sel: ref.Sel{{Kind: ref.SField, Name: "c"}}, Pat: "x*"}}.ToV()
		oor("pol", "int=2^53-in-first-of-three-statements", first, true)
		inAnd := ref.Policy{{Kind: "and", Subs: []ref.Stmt{{Kind: ">", Sel: ref.Sel{{Kind: ref.SField, Name: "a"}}, Val: ref.Int(-(1 << 53))}, {Kind: "==", Sel: ref.Sel{{Kind: ref.SField, Name: "b"}}, Val: ref.Int(1)}}}}.ToV()
		oor("pol", "int=-2^53-first-under-and", inAnd, true)
		// a bare statement where the list of statements belongs (in range and out of range)
		oor("pol", "bare-statement", ref.List(ref.Str("=="), ref.Str(".a"), ref.Int(1)), true)
		oor("pol", "bare-statement-int=2^53", ref.List(ref.Str("=="), ref.Str(".quota"), ref.Int(1<<53)), true)
		oor("pol", "bare-not-statement-int=2^53", ref.List(ref.Str("not"), ref.List(ref.Str(">"), ref.Str(".quota"), ref.Int(1<<53))), true)
		oor("pol", "bare-statement-int=-2^53", ref.List(ref.Str("<="), ref.Str(".quota"), ref.Int(-(1<<53))), true)
		oor("pol", "not-a-statement", ref.List(ref.Int(1)), true)
		oor("pol", "unknown-operator", ref.List(ref.List(ref.Str("==="), ref.Str(".a"), ref.Int(1))), true)
		oor("pol", "bad-selector", ref.List(ref.List(ref.Str("=="), ref.Str("a"), ref.Int(1))), true)
	} else {
		oor("args", "int=2^53", ref.Map(ref.E("a", ref.Int(1<<53))), true)
		oor("args", "nested-int=-2^53", ref.Map(ref.E("a", ref.List(ref.Map(ref.E("b", ref.Int(-(1<<53))))))), true)
		oor("args", "uint=2^64-1", ref.Map(ref.E("a", ref.Uint(math.MaxUint64))), true)
		oor("args", "int=2^53-1", ref.Map(ref.E("a", ref.Int(ref.MaxSafe))), false)
		// the offending integer among others - first, in the middle - with harmless values after it
		oor("args", "int=2^53-first-of-two", ref.Map(ref.E("a", ref.Int(1<<53)), ref.E("b", ref.Str("fine"))), true)
		oor("args", "int=2^53-middle-of-three", ref.Map(ref.E("a", ref.Str("fine")), ref.E("b", ref.Int(-(1<<53))), ref.E("c", ref.Int(1))), true)
		oor("args", "nested-int=2^53-first-of-many", ref.Map(ref.E("a", ref.Map(ref.E("x", ref.List(ref.Int(1), ref.Int(1<<53), ref.Int(2))))), ref.E("b", ref.Int(1)), ref.E("c", ref.List()), ref.E("d", ref.Null()), ref.E("e", ref.Bool(true))), true)
		oor("args", "uint=2^63-before-valid", ref.Map(ref.E("a", ref.Uint(1<<63)), ref.E("zz", ref.Int(0))), true)
		oor("prf", "list-of-ints", ref.List(ref.Int(1)), true)
		oor("prf", "list-of-strings", ref.List(ref.Str("bafy")), true)
	}
	out = append(out, payMut{"-", "extra-field", "unknown", func(p ref.V) ref.V { v := ref.Int(1); return withField(p, "zzz", &v) }, true})
	out = append(out, payMut{"-", "extra-field", "unknown-map", func(p ref.V) ref.V { v := ref.Map(); return withField(p, "ext", &v) }, true})
	return out
}

type c10Dec struct {
	name  string
	codec string
	tag   string // tag the decoder is for ("" = generic)
	f     func(b []byte) (token.Token, error)
}

func c10Decoders() []c10Dec {
	var out []c10Dec
	for _, d := range c07Decoders("dlg") {
		tag := ""
		if !strings.HasPrefix(d.name, "token.") {
			tag = ref.TagDelegation
		}
		out = append(out, c10Dec{d.name, d.codec, tag, d.f})
	}
	for _, d := range c07Decoders("inv") {
		if strings.HasPrefix(d.name, "token.") {
			continue
		}
		out = append(out, c10Dec{d.name, d.codec, ref.TagInvocation, d.f})
	}
	return out
}

// c10Offer offers one envelope value to all decoders.
func c10Offer(w *mon.W, env ref.V, tag string, mustReject bool, class, detail string, desc func() map[string]any) {
	cb, err1 := ref.EncodeDagCbor(env)
	js, err2 := ref.EncodeDagJson(env)
	for _, d := range c10Decoders() {
		in := cb
		if d.codec == "dagjson" {
			in = js
			if err2 != nil {
				continue
			}
		} else if err1 != nil {
			continue
		}
		var t token.Token
		var derr error
		w.Journal("C10/"+d.name, in)
		pi := mon.Guard(func() { t, derr = d.f(in) })
		w.Eval(1)
		w.Cover("codec/" + d.codec)
		if d.tag == "" {
			w.Cover("dec/generic")
		} else {
			w.Cover("dec/typed")
		}
		w.Distinct(cb, d.name)
		if pi != nil {
			w.Count("decoder-panics(judged by C09)", 1)
			continue
		}
		if derr != nil || t == nil {
			w.Cover("rejected")
			continue
		}
		w.Cover("accepted")
		m := func() map[string]any {
			x := desc()
			x["decoder"] = d.name
			x["input_hex"] = mon.Hex(capBytes(in, 4096))
			x["accepted_fields"] = gen.Fields(t).String()
			return x
		}
		wrongTag := d.tag != "" && d.tag != tag
		switch {
		case wrongTag:
			w.Violate(fmt.Sprintf("wrong-tag-accepted/%s/%s", decFamily(d.name), class), fmt.Sprintf("%s returns a token for an envelope whose payload is under tag %q", d.name, tag), m())
		case mustReject:
			w.Violate(fmt.Sprintf("must-reject-accepted/%s/%s/%s", class, d.codec, decFamily(d.name)), fmt.Sprintf("%s accepts a correctly signed payload with %s (%s)", d.name, class, detail), m())
		default:
			if why := wellFormed(t, tag); why != "" {
				w.Violate(fmt.Sprintf("ill-formed-token/%s/%s/%s", why, class, decFamily(d.name)), fmt.Sprintf("%s returns a token that is not well-formed (%s) for a payload with %s (%s)", d.name, why, class, detail), m())
			}
		}
	}
}

func runC10(w *mon.W) {
	r := w.Rng
	// ---------------- (1)
	var issuers []*gen.Principal
	if w.Thorough() {
		for _, a := range gen.Algs {
			issuers = append(issuers, gen.ByAlg(a)[0])
		}
	} else {
		issuers = []*gen.Principal{gen.Ed(0)}
	}
	idx := 0
	for _, iss := range issuers {
		for _, typ := range []string{"dlg", "inv"} {
			s := gen.RandomSpec(r, typ, gen.SpecOpts{Issuer: iss, Full: true})
			tk, err := s.Build()
			if err != nil {
				w.Inconclusive("C10 base token: " + err.Error())
				continue
			}
			sealed, _, err := tk.ToSealed(iss.Priv)
			if err != nil {
				w.Inconclusive("C10 base token seal: " + err.Error())
				continue
			}
			env, err := ref.DecodeDagCbor(sealed)
			if err != nil {
				continue
			}
			info, err := ref.ReadEnvelope(env)
			if err != nil {
				w.Inconclusive("C10 base envelope: " + err.Error())
				continue
			}
			tag, base := info.Tag, info.Payload
			// sanity: the unmutated payload re-signed by the harness is accepted
			if re, err := ref.SignEnvelope(iss.Priv, nil, tag, base); err == nil {
				b, _ := ref.EncodeDagCbor(re)
				if _, _, err := token.FromSealed(b); err != nil {
					w.Inconclusive("C10 harness-signed base payload is rejected: " + err.Error())
					continue
				}
			}
			muts := c10Mutations(typ, base)
			offer := func(ms []payMut) {
				p := base
				must := false
				var cls, det []string
				for _, m := range ms {
					p = m.apply(p)
					must = must || m.mustReject
					cls = append(cls, m.field+":"+m.kind)
					det = append(det, m.field+" "+m.kind+" "+m.detail)
					w.Cover("mut/" + m.kind)
					if m.field != "-" {
						w.Cover("field/" + m.field)
					}
				}
				re, err := ref.SignEnvelope(iss.Priv, nil, tag, p)
				if err != nil {
					return
				}
				c10Offer(w, re, tag, must, strings.Join(cls, "+"), strings.Join(det, "; "), func() map[string]any {
					return map[string]any{"type": typ, "issuer": iss.Name, "mutations": det, "payload": p.String(), "base_payload": base.String()}
				})
				if w.WantSample() && len(ms) == 1 && ms[0].kind == "retyped" && ms[0].field == "nonce" {
					w.Sample(map[string]any{"type": typ, "mutation": det, "payload": p.String(), "decoders": len(c10Decoders())})
				}
			}
			for _, m := range muts {
				idx++
				if !w.Mine(idx) {
					continue
				}
				offer([]payMut{m})
			}
			if w.Thorough() {
				// pairs of simultaneous mutations (sampled deterministically)
				for k := 0; k < 1500; k++ {
					idx++
					if !w.Mine(idx) {
						continue
					}
					a, b := muts[r.IntN(len(muts))], muts[r.IntN(len(muts))]
					if a.field == b.field {
						continue
					}
					offer([]payMut{a, b})
				}
			}
			// envelope shapes (signed by the issuer over exactly what is sent)
			if w.Mine(idx) {
				hdr := ref.VarsigHeader(iss.Priv.Type())
				otherTag := ref.TagInvocation
				if tag == ref.TagInvocation {
					otherTag = ref.TagDelegation
				}
				shapes := []struct {
					cell string
					sp   ref.V
					tag  string
					must bool
				}{
					{"envelope/one-entry", ref.Map(ref.E(tag, base)), tag, true},
					{"envelope/one-entry", ref.Map(ref.E("h", ref.Bytes(hdr))), tag, true},
					{"envelope/three-entries", ref.Map(ref.E("h", ref.Bytes(hdr)), ref.E(tag, base), ref.E("x", ref.Int(1))), tag, true},
					// (canonical order puts a short key before the tag, these after it)
					{"envelope/three-entries", ref.Map(ref.E("h", ref.Bytes(hdr)), ref.E(tag, base), ref.E("x-extension-of-the-signed-payload", ref.Int(1))), tag, true},
					{"envelope/three-entries", ref.Map(ref.E("h", ref.Bytes(hdr)), ref.E(tag, base), ref.E("zcan/ext@1.0.0-rc.1", ref.Map(ref.E("k", ref.Int(1))))), tag, true},
					{"envelope/two-payloads", ref.Map(ref.E("h", ref.Bytes(hdr)), ref.E(tag, base), ref.E(otherTag, base)), tag, true},
					{"envelope/two-payloads", ref.Map(ref.E(tag, base), ref.E(otherTag, base)), tag, true},
					{"envelope/other-tag", ref.Map(ref.E("h", ref.Bytes(hdr)), ref.E(otherTag, base)), otherTag, true},
					{"envelope/unknown-tag", ref.Map(ref.E("h", ref.Bytes(hdr)), ref.E("ucan/xyz@1.0.0", base)), "ucan/xyz@1.0.0", true},
					{"envelope/unknown-tag", ref.Map(ref.E("h", ref.Bytes(hdr)), ref.E("ucan/dlg@2.0.0", base)), "ucan/dlg@2.0.0", true},
				}
				for _, sh := range shapes {
					data, err := ref.EncodeDagCbor(sh.sp)
					if err != nil {
						continue
					}
					sig, err := iss.Priv.Sign(data)
					if err != nil {
						continue
					}
					w.Cover(sh.cell)
					c10Offer(w, ref.List(ref.Bytes(sig), sh.sp), sh.tag, sh.must, sh.cell, sh.cell, func() map[string]any {
						return map[string]any{"type": typ, "issuer": iss.Name, "sigpayload": sh.sp.String()}
					})
				}
			}
		}
	}

	// ---------------- (2) constructor options
	cmd := command.MustParse("/a")
	nc := w.Share(w.Pick(6000, 40000))
	for it := 0; it < nc; it++ {
		iss, aud, sub := gen.Ed(it).DID, gen.Ed(it+1).DID, gen.Ed(it+2).DID
		undef := it % 7
		switch undef {
		case 1:
			iss = did.Undef
		case 2:
			aud = did.Undef
		case 3:
			sub = did.DID{}
		}
		nl := it % 18 // nonce length; 17 -> option not used
		var tk token.Token
		var err error
		typ := []string{"dlg", "inv"}[(it/7)%2]
		if typ == "dlg" {
			opts := []delegation.Option{delegation.WithSubject(sub)}
			if nl < 17 {
				opts = append(opts, delegation.WithNonce(gen.Bytes(r, nl)))
			}
			var d *delegation.Token
			switch {
			case it%6 == 0:
				d, err = delegation.Root(iss, aud, cmd, policy.Policy{}, opts[1:]...)
			case it%6 == 3:
				// Root given a subject of the caller's choice (undefined, or another principal), before
				// or after the other options: a root delegation is about its issuer, whatever was passed
				ro := opts
				if it%12 == 3 {
					ro = append(append([]delegation.Option{}, opts[1:]...), opts[0])
				}
				d, err = delegation.Root(iss, aud, cmd, policy.Policy{}, ro...)
				w.Cover("ctor/root-with-subject-option")
			default:
				d, err = delegation.New(iss, aud, cmd, policy.Policy{}, opts...)
			}
			if err == nil {
				tk = d
				if it%3 == 0 && d.Subject() != d.Issuer() {
					w.Violate("constructor/root-subject-is-not-the-issuer", fmt.Sprintf("delegation.Root returned a token whose subject (%s) is not its issuer (%s) (undef case %d)", d.Subject(), d.Issuer(), undef),
						map[string]any{"undef_case": undef, "subject_option_given": it%6 == 3, "fields": gen.Fields(d).String()})
				}
			}
		} else {
			var opts []invocation.Option
			if nl < 17 {
				opts = append(opts, invocation.WithNonce(gen.Bytes(r, nl)))
			}
			if it%5 == 0 {
				opts = append(opts, invocation.WithEmptyNonce())
			}
			opts = append(opts, invocation.WithAudience(aud))
			var iv *invocation.Token
			iv, err = invocation.New(iss, sub, cmd, nil, opts...)
			if err == nil {
				tk = iv
			}
		}
		w.Eval(1)
		if undef >= 1 && undef <= 3 {
			w.Cover("ctor/undef-did")
		}
		if nl > 0 && nl < 12 {
			w.Cover("ctor/short-nonce")
		}
		if err != nil {
			continue
		}
		w.Cover("ctor/ok")
		if why := wellFormed(tk, ""); why != "" {
			w.Violate("constructor/ill-formed/"+typ+"/"+why, fmt.Sprintf("%s constructor returned a token that is not well-formed: %s (undef case %d, nonce length %d)", typ, why, undef, nl),
				map[string]any{"type": typ, "undef_case": undef, "nonce_len": nl, "fields": gen.Fields(tk).String()})
		}
	}

	// ---------------- (2b) tokens the library itself seals
	c10LibrarySealed(w)

	// ---------------- (3) Go values
	c10GoValues(w)
}

// goToV converts a Go value to the reference value it denotes; ok=false: not representable
// (unsupported type, or an integer outside +-(2^53-1)).
func goToV(x any) (v ref.V, ok bool) {
	defer func() {
		if recover() != nil {
			ok = false
		}
	}()
	return goToVr(reflect.ValueOf(x))
}

func goToVr(rv reflect.Value) (ref.V, bool) {
	if !rv.IsValid() {
		return ref.V{}, false
	}
	if n, ok := rv.Interface().(datamodel.Node); ok && n != nil {
		v, err := ref.FromNode(n)
		return v, err == nil
	}
	if c, ok := rv.Interface().(cid.Cid); ok {
		return ref.Link(c), true
	}
	maxS := big.NewInt(ref.MaxSafe)
	minS := big.NewInt(-ref.MaxSafe)
	switch rv.Kind() {
	case reflect.Bool:
		return ref.Bool(rv.Bool()), true
	case reflect.Int, reflect.Int8, reflect.Int16, reflect.Int32, reflect.Int64:
		b := big.NewInt(rv.Int())
		if b.Cmp(maxS) > 0 || b.Cmp(minS) < 0 {
			return ref.V{}, false
		}
		return ref.Int(rv.Int()), true
	case reflect.Uint, reflect.Uint8, reflect.Uint16, reflect.Uint32, reflect.Uint64:
		b := new(big.Int).SetUint64(rv.Uint())
		if b.Cmp(maxS) > 0 {
			return ref.V{}, false
		}
		return ref.Int(int64(rv.Uint())), true
	case reflect.Float32, reflect.Float64:
		return ref.Float(rv.Float()), true
	case reflect.String:
		return ref.Str(rv.String()), true
	case reflect.Slice:
		if rv.Type().Elem().Kind() == reflect.Uint8 {
			return ref.Bytes(rv.Bytes()), true
		}
		fallthrough
	case reflect.Array:
		if rv.Kind() == reflect.Array && rv.Type().Elem().Kind() == reflect.Uint8 {
			return ref.V{}, false
		}
		out := ref.V{K: ref.KList, L: []ref.V{}}
		for i := 0; i < rv.Len(); i++ {
			e, ok := goToVr(rv.Index(i))
			if !ok {
				return ref.V{}, false
			}
			out.L = append(out.L, e)
		}
		return out, true
	case reflect.Map:
		if rv.Type().Key().Kind() != reflect.String {
			return ref.V{}, false
		}
		out := ref.V{K: ref.KMap, M: []ref.KV{}}
		for _, k := range rv.MapKeys() {
			e, ok := goToVr(rv.MapIndex(k))
			if !ok {
				return ref.V{}, false
			}
			out.M = append(out.M, ref.KV{K: k.String(), V: e})
		}
		return out, true
	case reflect.Ptr, reflect.Interface:
		if rv.IsNil() {
			return ref.V{}, false
		}
		return goToVr(rv.Elem())
	}
	return ref.V{}, false
}

type named struct {
	name string
	v    any
}

func c10GoLeaves() []named {
	var out []named
	add := func(n string, v any) { out = append(out, named{n, v}) }
	for _, i := range []int64{0, 1, -1, ref.MaxSafe, -ref.MaxSafe, 1 << 53, -(1 << 53), math.MaxInt64, math.MinInt64, math.MaxInt32, math.MinInt32, 127, -128} {
		add(fmt.Sprintf("int64(%d)", i), i)
		add(fmt.Sprintf("int(%d)", i), int(i))
		if i >= math.MinInt32 && i <= math.MaxInt32 {
			add(fmt.Sprintf("int32(%d)", i), int32(i))
		}
		if i >= math.MinInt16 && i <= math.MaxInt16 {
			add(fmt.Sprintf("int16(%d)", i), int16(i))
		}
		if i >= -128 && i <= 127 {
			add(fmt.Sprintf("int8(%d)", i), int8(i))
		}
	}
	for _, u := range []uint64{0, 1, uint64(ref.MaxSafe), 1 << 53, 1<<63 - 1, 1 << 63, math.MaxUint64, math.MaxUint32, 255, 65535} {
		add(fmt.Sprintf("uint64(%d)", u), u)
		add(fmt.Sprintf("uint(%d)", u), uint(u))
		add(fmt.Sprintf("uintptr(%d)", u), uintptr(u))
		if u <= math.MaxUint32 {
			add(fmt.Sprintf("uint32(%d)", u), uint32(u))
		}
		if u <= 65535 {
			add(fmt.Sprintf("uint16(%d)", u), uint16(u))
		}
		if u <= 255 {
			add(fmt.Sprintf("uint8(%d)", u), uint8(u))
		}
	}
	for _, f := range []float64{0, 1.5, -2.25, 1e300, math.SmallestNonzeroFloat64, 9007199254740993, 2} {
		add(fmt.Sprintf("float64(%g)", f), f)
		add(fmt.Sprintf("float32(%g)", float32(f)), float32(f))
	}
	add("string", "héllo")
	// text that is not valid UTF-8 (Latin-1, a cut multi-byte sequence, lone continuation bytes,
	// a surrogate half, NUL): stored byte for byte or refused
	for _, x := range []string{"caf\xe9.txt", "\x80", "a\xc3", "\xed\xa0\x80", "ok\x00nul", "\xff\xfe\xfd", ""} {
		add(fmt.Sprintf("string(%q)", x), x)
	}
	add("bool", true)
	add("[]byte", []byte{1, 2, 3})
	add("cid", ref.CID([]byte("c")))
	return out
}

func c10GoValues(w *mon.W) {
	leaves := c10GoLeaves()
	type myInt int64
	type myUint uint
	var values []named
	values = append(values, leaves...)
	for _, l := range leaves {
		values = append(values,
			named{"[]any{" + l.name + "}", []any{l.v, "x"}},
			named{"map[string]any{" + l.name + "}", map[string]any{"k": l.v, "z": 1}},
			named{"[2]any{" + l.name + "}", [2]any{l.v, l.v}},
			named{"[][]any{" + l.name + "}", [][]any{{l.v}}},
			named{"map[string][]any{" + l.name + "}", map[string][]any{"k": {l.v}}},
		)
		lv := l.v
		values = append(values, named{"*any{" + l.name + "}", &lv})
	}
	values = append(values,
		named{"[]uint{max}", []uint{1, math.MaxUint64}}, named{"[]uint64{2^53}", []uint64{1 << 53}}, named{"[]int64{min}", []int64{math.MinInt64}},
		named{"map[string]uint{max}", map[string]uint{"a": math.MaxUint64}}, named{"myInt(2^53)", myInt(1 << 53)}, named{"myUint(max)", myUint(math.MaxUint64)},
		named{"myInt(5)", myInt(5)}, named{"[]myUint{2^63}", []myUint{1 << 63}},
		named{"nil", nil}, named{"(*int)(nil)", (*int)(nil)}, named{"[]any(nil)", []any(nil)}, named{"map[string]any(nil)", map[string]any(nil)},
		named{"chan", make(chan int)}, named{"func", func() {}}, named{"struct", struct{ A int }{1}}, named{"map[int]string", map[int]string{1: "a"}}, named{"[3]byte", [3]byte{1, 2, 3}},
		named{"complex", complex(1, 2)},
	)
	type sink struct {
		name string
		f    func(v any) (datamodel.Node, error)
	}
	sinks := []sink{
		{"literal.Any", func(v any) (datamodel.Node, error) { return literal.Any(v) }},
		{"args.Add", func(v any) (datamodel.Node, error) {
			a := args.New()
			if err := a.Add("k", v); err != nil {
				return nil, err
			}
			return a.GetNode("k")
		}},
		{"args.Builder", func(v any) (datamodel.Node, error) {
			a, err := args.NewBuilder().Add("k", v).Build()
			if err != nil {
				return nil, err
			}
			return a.GetNode("k")
		}},
		{"meta.Add", func(v any) (datamodel.Node, error) {
			m := meta.NewMeta()
			if err := m.Add("k", v); err != nil {
				return nil, err
			}
			return m.GetNode("k")
		}},
		{"invocation.WithArgument", func(v any) (datamodel.Node, error) {
			t, err := invocation.New(gen.Ed(0).DID, gen.Ed(0).DID, command.MustParse("/a"), nil, invocation.WithArgument("k", v))
			if err != nil {
				return nil, err
			}
			return t.Arguments().GetNode("k")
		}},
		{"literal.List", func(v any) (datamodel.Node, error) {
			n, err := literal.List([]any{v})
			if err != nil {
				return nil, err
			}
			return n.LookupByIndex(0)
		}},
		{"literal.Map", func(v any) (datamodel.Node, error) {
			n, err := literal.Map(map[string]any{"k": v})
			if err != nil {
				return nil, err
			}
			return n.LookupByString("k")
		}},
	}
	for i, val := range values {
		if !w.Mine(i) {
			continue
		}
		want, representable := goToV(val.v)
		for _, s := range sinks {
			var n datamodel.Node
			var err error
			pi := mon.Guard(func() { n, err = s.f(val.v) })
			w.Eval(1)
			switch {
			case strings.Contains(val.name, "uint"), strings.Contains(val.name, "Uint"):
				w.Cover("go/uint-types")
			case strings.Contains(val.name, "int"), strings.Contains(val.name, "Int"):
				w.Cover("go/int-types")
			case strings.Contains(val.name, "float"):
				w.Cover("go/float")
			}
			if strings.ContainsAny(val.name, "[{*") {
				w.Cover("go/nested")
			}
			if !representable {
				if strings.Contains(val.name, "int") || strings.Contains(val.name, "Int") {
					w.Cover("go/out-of-range")
				} else {
					w.Cover("go/unsupported")
				}
			}
			w.Distinct(val.name, s.name)
			c := map[string]any{"go_value": val.name, "go_type": fmt.Sprintf("%T", val.v), "api": s.name}
			if pi != nil {
				c["panic"] = pi.Value
				w.Violate("go-value/panic/"+s.name, fmt.Sprintf("%s(%s) panicked: %s", s.name, val.name, pi.Value), c)
				continue
			}
			if err != nil {
				continue // rejected: always allowed
			}
			if n == nil {
				w.Violate("go-value/nil-node/"+s.name, fmt.Sprintf("%s(%s) returned no error and no node", s.name, val.name), c)
				continue
			}
			got, cerr := ref.FromNode(n)
			if cerr != nil {
				c["stored"] = cerr.Error()
				w.Violate("go-value/unreadable/"+s.name, fmt.Sprintf("%s(%s) stored an unreadable node", s.name, val.name), c)
				continue
			}
			c["stored"] = got.String()
			if !representable {
				// bounded properties: arguments and literals must not hold integers out of range;
				// meta.Add is not bounded, but it must not alter the value either
				if _, isNum := numericLeaf(val.v); isNum || strings.Contains(val.name, "int") || strings.Contains(val.name, "Int") {
					if s.name == "meta.Add" && unalteredBig(val.v, got) {
						continue
					}
					w.Violate("go-value/altered-or-out-of-range/"+s.name+"/"+typeClass(val.v), fmt.Sprintf("%s(%s) returned no error and stored %s", s.name, val.name, got), c)
				}
				continue
			}
			if !ref.SameData(got, want) {
				c["expected"] = want.String()
				w.Violate("go-value/altered/"+s.name+"/"+typeClass(val.v), fmt.Sprintf("%s(%s) stored %s instead of %s", s.name, val.name, got, want), c)
			}
		}
		if w.WantSample() && strings.HasPrefix(val.name, "map[string]any{uint64") {
			w.Sample(map[string]any{"go_value": val.name, "apis": len(sinks), "representable": representable})
		}
	}
}

func typeClass(v any) string {
	if v == nil {
		return "nil"
	}
	t := reflect.TypeOf(v)
	for t.Kind() == reflect.Ptr || t.Kind() == reflect.Slice || t.Kind() == reflect.Array || t.Kind() == reflect.Map {
		t = t.Elem()
	}
	return t.Kind().String()
}

// numericLeaf tells whether v is a bare integer value.
func numericLeaf(v any) (*big.Int, bool) {
	if v == nil {
		return nil, false
	}
	rv := reflect.ValueOf(v)
	switch rv.Kind() {
	case reflect.Int, reflect.Int8, reflect.Int16, reflect.Int32, reflect.Int64:
		return big.NewInt(rv.Int()), true
	case reflect.Uint, reflect.Uint8, reflect.Uint16, reflect.Uint32, reflect.Uint64, reflect.Uintptr:
		return new(big.Int).SetUint64(rv.Uint()), true
	}
	return nil, false
}

// unalteredBig: for a bare integer outside the safe range, did the sink store exactly it?
func unalteredBig(v any, got ref.V) bool {
	b, ok := numericLeaf(v)
	if !ok {
		return false
	}
	switch got.K {
	case ref.KInt:
		return b.IsInt64() && b.Int64() == got.I
	case ref.KUint:
		return b.IsUint64() && b.Uint64() == got.U
	}
	return false
}
