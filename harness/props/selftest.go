package props

import "fmt"

type selfTest struct {
	name string
	f    func() error
}

var selfTests []selfTest

func addSelfTest(name string, f func() error) { selfTests = append(selfTests, selfTest{name, f}) }

// SelfTest runs the reference-model self-tests (vectors copied from the repository's
// own test tables); a model that disagrees with an in-tree expected value fails setup.
func SelfTest() int {
	bad := 0
	for _, t := range selfTests {
		if err := t.f(); err != nil {
			fmt.Printf("SELFTEST FAIL %s: %v\n", t.name, err)
			bad++
		} else {
			fmt.Printf("selftest ok   %s\n", t.name)
		}
	}
	if bad > 0 {
		return 1
	}
	return 0
}
