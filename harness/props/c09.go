package props

import (
	"bytes"
	"encoding/base64"
	"encoding/binary"
	"fmt"
	"github.com/ipfs/go-cid"
	"math"
	"math/rand/v2"
	"os"
	"runtime/debug"
	"runtime/metrics"
	"strconv"
	"strings"
	"sync"
	"syscall"
	"time"

	"github.com/ipld/go-ipld-prime"
	"github.com/ipld/go-ipld-prime/codec/dagcbor"
	"github.com/ipld/go-ipld-prime/codec/dagjson"
	"github.com/ipld/go-ipld-prime/datamodel"

	"github.com/ucan-wg/go-ucan/did"
	"github.com/ucan-wg/go-ucan/pkg/args"
	"github.com/ucan-wg/go-ucan/pkg/container"
	"github.com/ucan-wg/go-ucan/pkg/policy"
	"github.com/ucan-wg/go-ucan/pkg/policy/literal"
	"github.com/ucan-wg/go-ucan/pkg/policy/selector"
	"github.com/ucan-wg/go-ucan/token"
	"github.com/ucan-wg/go-ucan/token/delegation"
	"github.com/ucan-wg/go-ucan/token/invocation"

	"verifharness/gen"
	"verifharness/mon"
	"verifharness/ref"
)

const (
	c09BulkQuick, c09BombQuick       = 8, 38
	c09BulkThorough, c09BombThorough = 16, 38
)

func init() {
	register(&mon.Prop{
		ID:    "C09",
		Level: "exploration",
		Rule: "hostile inputs offered to every untrusted-data entry point (token.* / delegation.* / invocation.* decoders for DAG-CBOR and DAG-JSON, bytes and reader; container.From* x4; policy.FromDagJson / FromIPLD + Match / PartialMatch against arbitrary nodes; selector.Parse + Select; did.Parse + PubKey / ToPubKey; args.Add / literal.Any with arbitrary nodes): " +
			"(a) random bytes / text; (b) byte- and structure-level mutants of valid sealed tokens, DAG-JSON tokens and containers; (c) WELL-SIGNED envelopes around malformed payloads (every field dropped / wrong kind / null / huge, integers over the whole CBOR range incl. 2^63..2^64-1 and -2^64 in args, meta, policy values, exp/nbf/iat, nesting in args/meta/pol); (d) iss/aud/sub strings carrying every supported multicodec over invalid key material (reaches PubKey() before the signature check); (e) hostile lengths (array/map/bytes/text prefixes up to 2^64-1, CAR section lengths 0, 32 MiB+-1, 2^63) and a fixed list of depth bombs (nested arrays, maps, tags, JSON nesting, nested not-policies; 10^4 .. 4*10^6 levels) and of small nested-quantifier / nested-connective policies over nested lists (depth 4..64, whose evaluation must stay linear) run in dedicated processes; (f) policies x data trees of every kind incl. unsigned integers above 2^63, NaN/Inf, empty collections. " +
			"Monitors: in-process recover() (panic = violation, with stack); journal-before-call + parent supervision (a dead worker = fatal error attributed to its last journalled input); per-call CPU time (getrusage) against the stated budget (60 s for inputs <= 1 MiB, 300 s above); peak RSS (VmHWM) of the depth-bomb processes against 512 MiB + 4096 x len(input); thorough: the bulk families replayed on the -race build (checkptr). " +
			"non-trivial = input that got past the first decoding layer (a CBOR/JSON value, a parsed selector, a parsed DID); distinct = input hash.",
		Assumptions: []string{
			"'always terminates' is restated as the stated CPU-time budgets; 'memory bounded by a constant plus a multiple of the input size' as the stated affine bound on measured peak RSS",
			"CPU time is process CPU time (includes the garbage collector), budgets are two orders of magnitude above what correct code needs",
		},
		Shards: func(tier string) int {
			if tier == "thorough" {
				return c09BulkThorough + c09BombThorough
			}
			return c09BulkQuick + c09BombQuick
		},
		RaceShards:  shards(0, 4),
		Run:         runC09,
		MinEvals:    floor(100000, 2000000),
		MinDistinct: floor(20000, 300000),
		RequiredCells: func(string) []string {
			cells := []string{"family/a-random", "family/b-mutants", "family/c-signed-malformed", "family/d-bad-key-material", "family/e-hostile-lengths", "family/f-policy-x-data", "bomb/cbor-list", "bomb/cbor-map", "bomb/json-list", "bomb/policy-not", "bomb/signed-deep-args", "bomb/signed-deep-pol", "bomb/selector-long", "bomb/policy-nested-any-failing", "bomb/policy-nested-all-passing", "bomb/policy-nested-and-or-not", "bomb/car-zero-sections", "bomb/cbor-container-empty-entries", "bomb/json-whitespace", "bomb/json-wide-list", "bomb/selector-question-marks", "bomb/signed-wide-args", "bomb/signed-wide-pol", "car-length-sweep", "like-families", "selector/quoted-names", "policy/hostile-text", "container/framing-kinds", "hostile-varsig-headers", "concurrent-hostile-decoding", "rss-measured", "past-first-layer"}
			for _, e := range []string{"token.FromSealed", "token.FromDagJson", "delegation.FromSealed", "invocation.FromSealed", "container.FromCbor", "container.FromCar", "container.FromCborBase64", "container.FromCarBase64", "policy.FromDagJson", "policy.FromIPLD", "Policy.Match", "selector.Parse", "Selector.Select", "did.Parse", "DID.PubKey", "args.Add", "literal.Any"} {
				cells = append(cells, "entry/"+e)
			}
			return cells
		},
		OnDeadChild: func(d mon.DeadChild) *mon.Violation {
			banner := d.Banner
			cls := "unknown"
			switch {
			case strings.Contains(banner, "stack overflow") || strings.Contains(banner, "stack exceeds"):
				cls = "stack-overflow"
			case strings.Contains(banner, "out of memory"):
				cls = "out-of-memory"
			case strings.Contains(banner, "checkptr"):
				cls = "checkptr"
			case strings.Contains(banner, "concurrent map"):
				cls = "concurrent-map"
			case banner != "":
				cls = "fatal"
			case d.ExitErr != "":
				cls = "died(" + d.ExitErr + ")"
			}
			label := d.LastJournal
			if label == "" {
				return nil // nothing journalled: cannot attribute, inconclusive
			}
			return &mon.Violation{Sig: "fatal/" + cls + "/" + label, Msg: fmt.Sprintf("the worker process died (%s) while running %s; crash banner: %q", cls, label, banner), Case: d, Count: 1}
		},
		ShardTimeout: func(tier string) time.Duration {
			if tier == "thorough" {
				return 120 * time.Minute
			}
			return 30 * time.Minute
		},
	})
}

func cpuNow() time.Duration {
	var ru syscall.Rusage
	if err := syscall.Getrusage(syscall.RUSAGE_SELF, &ru); err != nil {
		return 0
	}
	return time.Duration(ru.Utime.Nano() + ru.Stime.Nano())
}

func vmHWM() int64 {
	b, err := os.ReadFile("/proc/self/status")
	if err != nil {
		return 0
	}
	for _, l := range strings.Split(string(b), "\n") {
		if strings.HasPrefix(l, "VmHWM:") {
			f := strings.Fields(l)
			if len(f) >= 2 {
				kb, _ := strconv.ParseInt(f[1], 10, 64)
				return kb * 1024
			}
		}
	}
	return 0
}

var c09MemSamples = [2]metrics.Sample{{Name: "/memory/classes/total:bytes"}, {Name: "/memory/classes/heap/released:bytes"}}

var c09RSSDebug = os.Getenv("VERIF_C09_RSSDEBUG") != ""

type c09 struct {
	w          *mon.W
	family     string
	maxInput   int
	bulk       bool     // bulk shard: many small inputs in one process
	concurrent [][]byte // hostile tokens replayed from many goroutines at once
	bigCalls   int
	// perCall: the kernel lets this process reset its RSS high-water mark, so peak memory is
	// measured per call (bulk shards)
	perCall bool
	// lastHeld: memory the runtime had obtained from the OS and not given back when the last call
	// returned (pages set aside for a large allocation count here even if never touched)
	lastHeld int64
}

// resetHWM resets the kernel's RSS high-water mark of this process to its current RSS.
func resetHWM() bool { return os.WriteFile("/proc/self/clear_refs", []byte("5"), 0) == nil }

// announcedBeyondInput: the input (or what it carries in base64) holds a CBOR list / map head
// with a 2-, 4- or 8-byte length that announces more entries than the input has bytes.
func announcedBeyondInput(in []byte) bool {
	scan := func(b []byte) bool {
		for i := 0; i < len(b); i++ {
			var n uint64
			switch b[i] {
			case 0x99, 0xb9:
				if i+3 <= len(b) {
					n = uint64(b[i+1])<<8 | uint64(b[i+2])
				}
			case 0x9a, 0xba:
				if i+5 <= len(b) {
					n = uint64(binary.BigEndian.Uint32(b[i+1 : i+5]))
				}
			case 0x9b, 0xbb:
				if i+9 <= len(b) {
					n = binary.BigEndian.Uint64(b[i+1 : i+9])
				}
			}
			if n > uint64(len(b)) && n > 1<<16 {
				return true
			}
		}
		return false
	}
	if scan(in) {
		return true
	}
	if dec, err := base64.StdEncoding.DecodeString(string(bytes.TrimSpace(in))); err == nil && scan(dec) {
		return true
	}
	return false
}

// call runs one entry point on one input under the monitors.
func (c *c09) call(entry, inputClass string, input []byte, f func()) {
	w := c.w
	label := entry + "/" + inputClass
	w.Journal("C09/"+label, input)
	budget := 60 * time.Second
	if len(input) > 1<<20 {
		budget = 300 * time.Second
	}
	// CPU watchdog: a call that is still running past its budget is reported from here
	// (the call itself cannot be interrupted), then the shard ends.
	done := make(chan struct{})
	cpu0 := cpuNow()
	go func() {
		t := time.NewTicker(2 * time.Second)
		defer t.Stop()
		for {
			select {
			case <-done:
				return
			case <-t.C:
				if used := cpuNow() - cpu0; used > budget {
					w.Violate("cpu-budget/"+label, fmt.Sprintf("%s on a %d-byte %s input is still running after %s of CPU time (budget %s)", entry, len(input), inputClass, used.Round(time.Second), budget),
						map[string]any{"entry": entry, "input_class": inputClass, "input_len": len(input), "input_head_hex": mon.Hex(capBytes(input, 512)), "cpu_used_s": used.Seconds()})
					w.Count("shard-ended-by-cpu-watchdog", 1)
					_ = w.Finish()
					os.Exit(0)
				}
			}
		}
	}()
	if len(input) > c.maxInput {
		c.maxInput = len(input)
	}
	var hwm0 int64
	if c.bulk && (c09RSSDebug || c.perCall) {
		hwm0 = vmHWM()
	}
	heldBefore := c.lastHeld
	pi := mon.Guard(f)
	close(done)
	used := cpuNow() - cpu0
	if c.bulk && c09RSSDebug {
		if d := vmHWM() - hwm0; d > 32<<20 {
			w.Note(fmt.Sprintf("rss-jump/%s/%d", label, c.bigCalls), fmt.Sprintf("+%d MiB to %d MiB on a %d-byte input %x", d>>20, vmHWM()>>20, len(input), capBytes(input, 48)))
			if d > 200<<20 && len(input) < 1<<20 {
				_ = os.WriteFile(fmt.Sprintf("%s/rss-jump-%d-%s-%d.bin", os.TempDir(), os.Getpid(), strings.ReplaceAll(label, "/", "_"), c.bigCalls), input, 0o644)
			}
		}
	}
	// calls that may legitimately allocate tens of MiB for a tiny input (a CAR section that
	// announces 32 MiB): give the memory back before the next one, so that the process-wide
	// high-water mark reflects what ONE call holds, not the garbage of many
	// (the runtime's own accounting is read after every call - about a microsecond - and memory is
	// handed back as soon as more than 160 MiB are mapped)
	metrics.Read(c09MemSamples[:])
	c.lastHeld = int64(c09MemSamples[0].Value.Uint64() - c09MemSamples[1].Value.Uint64())
	if c.bulk {
		if c.lastHeld > 160<<20 {
			c.bigCalls++
			{
				// memory of this call: what the runtime holds now (large allocations count whether or not
				// their pages were touched) and, where the high-water mark could be reset after the last
				// big call, the peak RSS since then
				// (growth over what was held when the call began; the RSS peak likewise counts only as
				// far as it rose above the mark it was reset to)
				peak := c.lastHeld - heldBefore
				if c.perCall {
					if h := vmHWM() - hwm0; h > peak {
						peak = h
					}
				}
				bound := int64(512<<20) + 4096*int64(len(input))
				if peak > bound {
					sig := "memory-bound/call/" + entry + "/" + inputClass
					what := ""
					if announcedBeyondInput(input) {
						sig = "memory-bound/announced-length/" + entry
						what = " (the input announces more list / map entries than it has bytes)"
					}
					w.Violate(sig, fmt.Sprintf("memory grew by %d MiB (held by the runtime / resident) during %s on a %d-byte %s input: more than 512 MiB + 4096 x input%s", peak>>20, entry, len(input), inputClass, what),
						map[string]any{"entry": entry, "input_class": inputClass, "input_len": len(input), "input_hex": mon.Hex(capBytes(input, 8192)), "peak_rss": peak, "rss_before_call": hwm0})
				}
			}
			debug.FreeOSMemory()
			if c.perCall {
				resetHWM()
			}
		}
	}
	w.Eval(1)
	w.Cover("entry/" + entry)
	if pi != nil {
		frame := pi.Frame
		w.Violate("panic/"+entry+"/"+frame, fmt.Sprintf("%s panicked on a %s input: %s", entry, inputClass, pi.Value),
			map[string]any{"entry": entry, "input_class": inputClass, "family": c.family, "input_hex": mon.Hex(capBytes(input, 16384)), "input_len": len(input), "panic": pi.Value, "stack": mon.Trunc(pi.Stack, 6000)})
	}
	if used > budget {
		w.Violate("cpu-budget/"+label, fmt.Sprintf("%s on a %d-byte %s input took %s of CPU time (budget %s)", entry, len(input), inputClass, used.Round(time.Millisecond), budget),
			map[string]any{"entry": entry, "input_class": inputClass, "input_len": len(input), "input_head_hex": mon.Hex(capBytes(input, 512)), "cpu_used_s": used.Seconds()})
	}
	if used > 5*time.Second {
		w.Note("slow/"+label, fmt.Sprintf("%d bytes: %s CPU", len(input), used.Round(time.Millisecond)))
	}
}

// tokenEntries offers bytes to every token decoder of a codec.
func (c *c09) tokenEntries(class string, in []byte, codec string) {
	past := false
	for _, d := range c10Decoders() {
		if d.codec != codec {
			continue
		}
		name := d.name
		c.call(name, class, in, func() {
			t, err := d.f(in)
			if err == nil && t != nil {
				past = true
				// a returned token must be usable: read it all
				_ = gen.Fields(t)
			}
		})
	}
	// the envelope inspection helpers take any IPLD node
	c.call("token.Inspect", class, in, func() {
		dec := dagcbor.Decode
		if codec == "dagjson" {
			dec = dagjson.Decode
		}
		n, err := ipld.Decode(in, dec)
		if err != nil {
			return
		}
		_, _ = token.Inspect(n)
		_, _ = token.FindTag(n)
	})
	if past {
		c.w.Cover("past-first-layer")
	}
}

func (c *c09) containerEntries(class string, in []byte) {
	c.call("container.FromCbor", class, in, func() { _, _ = container.FromCbor(in) })
	c.call("container.FromCar", class, in, func() { _, _ = container.FromCar(in) })
	c.call("container.FromCborBase64", class, in, func() { _, _ = container.FromCborBase64(in) })
	c.call("container.FromCarBase64", class, in, func() { _, _ = container.FromCarBase64(in) })
	c.call("container.FromCborReader", class, in, func() { _, _ = container.FromCborReader(bytes.NewReader(in)) })
	c.call("container.FromCarReader", class, in, func() { _, _ = container.FromCarReader(bytes.NewReader(in)) })
}

func (c *c09) didEntries(class, s string) {
	c.call("did.Parse", class, []byte(s), func() {
		d, err := did.Parse(s)
		if err == nil {
			c.w.Cover("past-first-layer")
			c.call("DID.PubKey", class, []byte(s), func() { _, _ = d.PubKey() })
			_ = d.String()
			_ = d.Defined()
		}
	})
	c.call("did.ToPubKey", class, []byte(s), func() { _, _ = did.ToPubKey(s) })
}

func (c *c09) selectorEntries(class, s string, data []datamodel.Node) {
	c.call("selector.Parse", class, []byte(s), func() {
		sel, err := selector.Parse(s)
		if err != nil {
			return
		}
		c.w.Cover("past-first-layer")
		_ = sel.String()
		for _, n := range data {
			c.call("Selector.Select", class, []byte(s), func() { _, _ = sel.Select(n) })
		}
	})
}

func (c *c09) policyNodeEntries(class string, pv ref.V, data []datamodel.Node, raw []byte) {
	var pol policy.Policy
	c.call("policy.FromIPLD", class, raw, func() {
		p, err := policy.FromIPLD(pv.Node())
		if err == nil {
			pol = p
		}
	})
	if pol == nil {
		return
	}
	c.w.Cover("past-first-layer")
	for _, n := range data {
		c.call("Policy.Match", class, raw, func() { _, _ = pol.Match(n); _, _ = pol.PartialMatch(n) })
	}
}

// hostileValue draws values that stress bounds: huge / unsigned integers, NaN/Inf, empty
// and nested collections.
func hostileValue(r *rand.Rand, depth int) ref.V {
	switch k := r.IntN(14); {
	case k == 0:
		return ref.Uint(gen.Pick(r, []uint64{1 << 63, 1<<63 + 1, math.MaxUint64, math.MaxUint64 - 1, 1<<64 - 1<<53}))
	case k == 1:
		return ref.Int(gen.Pick(r, []int64{math.MaxInt64, math.MinInt64, 1 << 53, -(1 << 53), ref.MaxSafe, -ref.MaxSafe}))
	case k == 2:
		return ref.Float(gen.Pick(r, []float64{math.NaN(), math.Inf(1), math.Inf(-1), math.MaxFloat64, -0.0, 5e-324}))
	case k == 3:
		return gen.Pick(r, []ref.V{ref.List(), ref.Map(), ref.Bytes(nil), ref.Str(""), ref.Null()})
	case k == 4 && depth > 0:
		l := ref.V{K: ref.KList, L: []ref.V{}}
		for i := 0; i < r.IntN(4); i++ {
			l.L = append(l.L, hostileValue(r, depth-1))
		}
		return l
	case k == 5 && depth > 0:
		m := ref.V{K: ref.KMap, M: []ref.KV{}}
		for i, key := range gen.Keys(r, r.IntN(4)) {
			_ = i
			m.M = append(m.M, ref.KV{K: key, V: hostileValue(r, depth-1)})
		}
		return m
	case k == 6:
		return ref.Str(string(gen.Bytes(r, r.IntN(12)))) // possibly invalid UTF-8
	case k == 7:
		return ref.Link(gen.RandomCID(r))
	default:
		return gen.Value(r, depth, gen.ValOpts{NonFinite: true, IntegralF: true})
	}
}

func nestV(inner ref.V, depth int, asMap bool) ref.V {
	v := inner
	for i := 0; i < depth; i++ {
		if asMap {
			v = ref.Map(ref.E("a", v))
		} else {
			v = ref.List(v)
		}
	}
	return v
}

func cborHead(major byte, arg uint64) []byte {
	switch {
	case arg < 24:
		return []byte{major<<5 | byte(arg)}
	case arg <= 0xff:
		return []byte{major<<5 | 24, byte(arg)}
	case arg <= 0xffff:
		return binary.BigEndian.AppendUint16([]byte{major<<5 | 25}, uint16(arg))
	case arg <= 0xffffffff:
		return binary.BigEndian.AppendUint32([]byte{major<<5 | 26}, uint32(arg))
	}
	return binary.BigEndian.AppendUint64([]byte{major<<5 | 27}, arg)
}

func mutateBytes(r *rand.Rand, b []byte) []byte {
	m := append([]byte{}, b...)
	for e := 0; e < 1+r.IntN(4); e++ {
		if len(m) == 0 {
			m = append(m, byte(r.IntN(256)))
			continue
		}
		p := r.IntN(len(m))
		switch r.IntN(7) {
		case 0:
			m[p] ^= 1 << r.IntN(8)
		case 1:
			m[p] = byte(r.IntN(256))
		case 2:
			m = append(m[:p], m[p+1:]...)
		case 3:
			m = append(append(append([]byte{}, m[:p]...), byte(r.IntN(256))), m[p:]...)
		case 4: // hostile CBOR head
			h := cborHead(byte(r.IntN(8)), gen.Pick(r, []uint64{0, 23, 24, 255, 65535, 1 << 20, 1 << 32, 1 << 53, 1 << 63, math.MaxUint64}))
			m = append(append(append([]byte{}, m[:p]...), h...), m[p:]...)
		case 5: // truncate
			m = m[:p]
		default: // duplicate a slice
			q := p + r.IntN(len(m)-p)
			m = append(append(append([]byte{}, m[:q]...), m[p:q]...), m[q:]...)
		}
	}
	return m
}

// signedWith builds a correctly signed envelope around an arbitrary payload.
func signedWith(iss *gen.Principal, tag string, payload ref.V) ([]byte, []byte) {
	env, err := ref.SignEnvelope(iss.Priv, nil, tag, payload)
	if err != nil {
		return nil, nil
	}
	var cb, js []byte
	if pi := mon.Guard(func() { cb, _ = ref.EncodeDagCbor(env) }); pi != nil {
		cb = nil
	}
	if pi := mon.Guard(func() { js, _ = ref.EncodeDagJson(env) }); pi != nil {
		js = nil
	}
	return cb, js
}

func runC09(w *mon.W) {
	nBulk, nBomb := c09BulkQuick, c09BombQuick
	if w.Thorough() {
		nBulk, nBomb = c09BulkThorough, c09BombThorough
	}
	switch {
	case w.Shard < nBulk:
		c09Bulk(w, w.Shard, nBulk)
	case w.Shard < nBulk+nBomb:
		c09Bombs(w, w.Shard-nBulk, nBomb)
	default:
		// race-build replay of the bulk families (checkptr on)
		c09Bulk(w, w.Shard-(nBulk+nBomb), 4)
		w.Cover("race-build-replay")
	}
}

func c09Bulk(w *mon.W, part, parts int) {
	// a soft memory limit makes the runtime collect and return memory eagerly, so that the
	// peak RSS of this process is (close to) the largest amount any single call kept alive
	debug.SetMemoryLimit(256 << 20)
	r := w.Rng
	c := &c09{w: w, bulk: true}
	c.perCall = resetHWM()
	share := func(total int) int {
		n := total / parts
		if part < total%parts {
			n++
		}
		return n
	}
	// a data corpus for Select / Match
	var data []datamodel.Node
	for i := 0; i < 10; i++ {
		data = append(data, hostileValue(r, 3).Node())
	}
	long := "漢字かな交じり文のとても長い文字列、三十二文字を超える長さにするための追加のテキストです。"
	data = append(data, ref.Str(long).Node(), ref.Map(ref.E("a", ref.Str(long)), ref.E("foo", ref.List(ref.Str(long+long))), ref.E("b", ref.Bytes(bytes.Repeat([]byte{0xe6}, 100)))).Node(),
		ref.List(ref.Str(long), ref.Str(strings.Repeat("é", 90))).Node())
	data = append(data, ref.Map(ref.E("a", ref.Uint(math.MaxUint64)), ref.E("b", ref.List(ref.Uint(1<<63), ref.Float(math.NaN())))).Node(), ref.Uint(1<<63).Node(), ref.Null().Node())

	// valid artefacts as mutation seeds
	type seed struct {
		kind string
		b    []byte
	}
	var seeds []seed
	for i := 0; i < 6; i++ {
		for _, typ := range []string{"dlg", "inv"} {
			s := gen.RandomSpec(r, typ, gen.SpecOpts{AnyAlgPct: 40, Full: i%2 == 0})
			tk, err := s.Build()
			if err != nil {
				continue
			}
			if b, _, err := tk.ToSealed(s.Iss.Priv); err == nil {
				seeds = append(seeds, seed{"sealed", b})
			}
			if b, err := tk.ToDagJson(s.Iss.Priv); err == nil {
				seeds = append(seeds, seed{"json", b})
			}
		}
	}
	set := makeSealedSet(w, 3, 20, true)
	wr := container.NewWriter()
	for _, t := range set {
		wr.AddSealed(t.cid, t.sealed)
	}
	for f := 0; f < 4; f++ {
		if b, err := writeContainer(wr, f, false); err == nil {
			seeds = append(seeds, seed{"container-" + containerNames[f], b})
		}
	}

	// ---- (a) random bytes / text
	c.family = "a-random"
	for i := 0; i < share(w.Pick(6000, 150000)); i++ {
		n := r.IntN(64)
		if r.IntN(10) == 0 {
			n = r.IntN(2000)
		}
		b := gen.Bytes(r, n)
		if r.IntN(3) == 0 && n > 0 {
			b[0] = gen.Pick(r, []byte{0x82, 0xa1, 0x9f, 0xbf, 0x58, '[', '{', '"'})
		}
		w.Cover("family/a-random")
		w.Distinct(b)
		switch i % 6 {
		case 0:
			c.tokenEntries("random", b, "dagcbor")
		case 1:
			c.tokenEntries("random", b, "dagjson")
		case 2:
			c.containerEntries("random", b)
		case 3:
			c.didEntries("random", "did:key:z"+string(b))
			c.didEntries("random", string(b))
		case 4:
			s := "." + string(b)
			if r.IntN(2) == 0 {
				s = gen.RandomSel(r).Text() + string(gen.Bytes(r, r.IntN(4)))
			}
			c.selectorEntries("random", s, data[:4])
		default:
			c.call("policy.FromDagJson", "random", b, func() { _, _ = policy.FromDagJson(string(b)) })
		}
	}

	// container framing with every kind of value in every structural position: the CAR header
	// ({roots, version}) and the CBOR container ({"ctn-v1": [...]}) with each field holding each
	// kind (empty ones included), fields missing, renamed or extra, and something else than a map
	// at the top; with and without a valid section behind
	{
		kinds := make([]ref.V, 0, len(kindNamesAll)+4)
		for _, k := range kindNamesAll {
			kinds = append(kinds, kindSamplesAll[k])
		}
		kinds = append(kinds, ref.Int(-1), ref.Uint(1<<63), ref.List(ref.Int(1), ref.Str("x")), ref.List(ref.List()))
		empty, _ := cid.Cast([]byte{1, 0x55, 0, 0})
		goodRoots, goodVersion := ref.List(ref.Link(empty)), ref.Int(1)
		var headers []ref.V
		for _, k := range kinds {
			headers = append(headers,
				ref.Map(ref.E("roots", k), ref.E("version", goodVersion)),
				ref.Map(ref.E("roots", goodRoots), ref.E("version", k)),
				ref.Map(ref.E("roots", ref.List(k)), ref.E("version", goodVersion)),
				ref.Map(ref.E("roots", k)), ref.Map(ref.E("version", k)),
				ref.Map(ref.E("roots", goodRoots), ref.E("version", goodVersion), ref.E("x", k)),
				k,
				ref.Map(ref.E("ctn-v1", k)), ref.Map(ref.E("ctn-v1", ref.List(k))), ref.Map(ref.E("ctn-v1", ref.List(ref.Bytes([]byte{1}), k))), ref.Map(ref.E("ctn-v2", k)),
			)
		}
		section := append(append([]byte{}, empty.Bytes()...), 0x01)
		for hi, h := range headers {
			if hi%parts != part {
				continue
			}
			hb, err := ref.EncodeDagCbor(h)
			if err != nil {
				continue
			}
			car := append(binary.AppendUvarint(nil, uint64(len(hb))), hb...)
			c.containerEntries("framing-kinds", car)
			c.containerEntries("framing-kinds", append(append(append([]byte{}, car...), binary.AppendUvarint(nil, uint64(len(section)))...), section...))
			c.containerEntries("framing-kinds", hb)
			c.containerEntries("framing-kinds", []byte(base64.StdEncoding.EncodeToString(car)))
			c.containerEntries("framing-kinds", []byte(base64.StdEncoding.EncodeToString(hb)))
			w.Distinct("framing-kinds", hb)
		}
		w.Cover("container/framing-kinds")
	}

	// policies whose TEXT positions (operator, selector, pattern) hold strings that are not UTF-8:
	// runs of continuation bytes of every length up to 24, cut multi-byte sequences, over-long
	// forms - every one of them ends up in an error message or a parser
	{
		var hostile []string
		for n := 1; n <= 24; n++ {
			hostile = append(hostile, strings.Repeat("\x80", n), strings.Repeat("\xbf", n), "=="+strings.Repeat("\x80", n), strings.Repeat("\xc3", n), strings.Repeat("é", n)[:2*n-1])
		}
		hostile = append(hostile, "\xf0\x9f\x98", "\xed\xa0\x80\xed\xb0\x80", "\xc0\xaf", strings.Repeat("\xf4\x90\x80\x80", 4), strings.Repeat("a", 9)+"\xe6\x97", strings.Repeat("a", 10)+"\xa5")
		for hi, h := range hostile {
			if hi%parts != part {
				continue
			}
			for _, pv := range []ref.V{
				ref.List(ref.List(ref.Str(h), ref.Str(".a"), ref.Int(1))),
				ref.List(ref.List(ref.Str("=="), ref.Str(h), ref.Int(1))),
				ref.List(ref.List(ref.Str("=="), ref.Str(".a"+h), ref.Int(1))),
				ref.List(ref.List(ref.Str("like"), ref.Str(".a"), ref.Str(h))),
				ref.List(ref.List(ref.Str("not"), ref.List(ref.Str(h), ref.Str(".a"), ref.Int(1)))),
				ref.List(ref.List(ref.Str("any"), ref.Str(".a"), ref.List(ref.Str(h), ref.Str("."), ref.Int(1)))),
				ref.List(ref.List(ref.Str("and"), ref.List(ref.List(ref.Str(h))))),
			} {
				raw, _ := ref.EncodeDagCbor(pv)
				c.policyNodeEntries("hostile-text", pv, data[:2], raw)
			}
			c.selectorEntries("hostile-text", ".a"+h, data[:2])
			c.selectorEntries("hostile-text", `.["`+h+`"]`, data[:2])
			c.didEntries("hostile-text", "did:key:z"+h)
			w.Distinct("hostile-text", h)
		}
		w.Cover("policy/hostile-text")
	}

	// quoted field names: every body of up to 4 characters over the characters that matter to a
	// tokenizer (quote, backslash, brackets, dot, a letter), closed, unclosed and followed by
	// more, alone and through a policy
	{
		alpha := []byte{'"', '\\', 'a', ']', '[', '.'}
		idx := 0
		var rec func(body []byte)
		rec = func(body []byte) {
			for _, form := range []string{`.["%s"]`, `.["%s`, `.["%s"].b`, `.a["%s"]?`} {
				idx++
				if idx%parts != part {
					continue
				}
				txt := fmt.Sprintf(form, body)
				c.selectorEntries("quoted-names", txt, data[:2])
				if len(body) >= 3 && idx%7 == 0 {
					pv := ref.V{K: ref.KList, L: []ref.V{ref.List(ref.Str("=="), ref.Str(txt), ref.Int(1))}}
					c.policyNodeEntries("quoted-names", pv, data[:1], []byte(txt))
				}
			}
			if len(body) == 4 {
				return
			}
			for _, ch := range alpha {
				rec(append(append([]byte{}, body...), ch))
			}
		}
		rec(nil)
		w.Cover("selector/quoted-names")
	}

	// selectors with slices / indexes of every size class against the whole data corpus
	for i := 0; i < share(w.Pick(1500, 30000)); i++ {
		var segs ref.Sel
		for k := 0; k < 1+r.IntN(3); k++ {
			switch r.IntN(5) {
			case 0:
				segs = append(segs, ref.Seg{Kind: ref.SField, Name: gen.Pick(r, []string{"a", "b", "foo"}), Opt: r.IntN(3) == 0})
			case 1:
				segs = append(segs, ref.Seg{Kind: ref.SIndex, Idx: gen.Pick(r, []int64{0, 1, -1, 40, 99, 100, -100, 1 << 40}), Opt: r.IntN(3) == 0})
			case 2:
				segs = append(segs, ref.Seg{Kind: ref.SIter})
			default:
				sg := ref.Seg{Kind: ref.SSlice}
				if r.IntN(3) > 0 {
					sg.Lo = ref.I64(gen.Pick(r, []int64{0, 1, -1, 30, 44, 45, 100, -100, 131, 132, 1 << 40, -(1 << 40)}))
				}
				if r.IntN(3) > 0 || sg.Lo == nil {
					sg.Hi = ref.I64(gen.Pick(r, []int64{0, 1, -1, 30, 44, 45, 100, -100, 131, 132, 133, 1 << 40, -(1 << 40)}))
				}
				segs = append(segs, sg)
			}
		}
		txt := segs.Text()
		w.Distinct(txt)
		c.selectorEntries("slices-on-corpus", txt, data)
		// and through a policy
		pv := ref.Policy{{Kind: "==", Sel: segs, Val: ref.Str("x")}, {Kind: "like", Sel: segs, Pat: "*"}}.ToV()
		c.policyNodeEntries("slices-on-corpus", pv, data, []byte(txt))
	}

	// ---- (b) mutants of valid artefacts
	c.family = "b-mutants"
	for i := 0; i < share(w.Pick(10000, 300000)); i++ {
		s := seeds[r.IntN(len(seeds))]
		m := mutateBytes(r, s.b)
		w.Cover("family/b-mutants")
		w.Distinct(m)
		switch {
		case s.kind == "sealed":
			c.tokenEntries("mutant-of-sealed", m, "dagcbor")
			if i%10 == 0 {
				// the mutant as the only entry of a container
				if cb, err := ref.EncodeDagCbor(ref.Map(ref.E("ctn-v1", ref.List(ref.Bytes(m))))); err == nil {
					c.containerEntries("container-of-mutant", cb)
				}
			}
		case s.kind == "json":
			c.tokenEntries("mutant-of-json", m, "dagjson")
		default:
			c.containerEntries("mutant-of-"+s.kind, m)
		}
	}

	// ---- (c) well-signed envelopes around malformed payloads
	c.family = "c-signed-malformed"
	issuers := []*gen.Principal{gen.Ed(0), gen.Ed(1), gen.ByAlg("p256")[0], gen.ByAlg("secp256k1")[0]}
	for i := 0; i < share(w.Pick(2500, 60000)); i++ {
		iss := issuers[i%len(issuers)]
		if i%4 >= 2 {
			iss = gen.Ed(i)
		}
		typ := []string{"dlg", "inv"}[i%2]
		spec := gen.RandomSpec(r, typ, gen.SpecOpts{Issuer: iss, Full: true})
		tk, err := spec.Build()
		if err != nil {
			continue
		}
		sealed, _, err := tk.ToSealed(iss.Priv)
		if err != nil {
			continue
		}
		env, err := ref.DecodeDagCbor(sealed)
		if err != nil {
			continue
		}
		info, err := ref.ReadEnvelope(env)
		if err != nil {
			continue
		}
		p := info.Payload
		// 1..3 hostile field values
		for k := 0; k < 1+r.IntN(3); k++ {
			fields := []string{"iss", "aud", "sub", "cmd", "pol", "nonce", "meta", "nbf", "exp", "args", "prf", "iat", "cause", "zzz"}
			f := fields[r.IntN(len(fields))]
			var v ref.V
			switch r.IntN(6) {
			case 0:
				p = withField(p, f, nil)
				continue
			case 1:
				v = hostileValue(r, 3)
			case 2:
				v = nestV(hostileValue(r, 1), 50+r.IntN(400), r.IntN(2) == 0)
			case 3:
				// field-shaped but hostile inside
				switch f {
				case "args", "meta":
					v = ref.Map(ref.E("a", hostileValue(r, 3)), ref.E("b", ref.Uint(math.MaxUint64)), ref.E("c", ref.Int(math.MinInt64)))
				case "pol":
					v = ref.List(ref.List(ref.Str(gen.Pick(r, ref.AllKinds)), ref.Str(gen.Pick(r, []string{".a", ".", ".[0]", ".a?", `.["x`, ""})), hostileValue(r, 2)))
				case "exp", "nbf", "iat":
					v = gen.Pick(r, []ref.V{ref.Uint(math.MaxUint64), ref.Uint(1 << 63), ref.Int(math.MinInt64), ref.Int(math.MaxInt64), ref.Float(1e300), ref.Int(-1)})
				case "prf":
					v = ref.List(hostileValue(r, 1), ref.Link(gen.RandomCID(r)))
				case "nonce":
					v = ref.Bytes(gen.Bytes(r, gen.Pick(r, []int{0, 1, 11, 12, 4096})))
				default:
					v = ref.Str(string(gen.Bytes(r, r.IntN(40))))
				}
			default:
				v = kindSamples[gen.Pick(r, []string{"null", "bool", "int", "float", "string", "bytes", "list", "map", "link"})]
			}
			p = withField(p, f, &v)
		}
		cb, js := signedWith(iss, info.Tag, p)
		w.Cover("family/c-signed-malformed")
		if cb != nil {
			w.Distinct(cb)
			c.tokenEntries("signed-malformed", cb, "dagcbor")
		}
		if js != nil && i%3 == 0 {
			c.tokenEntries("signed-malformed", js, "dagjson")
		}
	}

	// (c'') hostile signature-algorithm headers over an otherwise honest, correctly signed payload:
	// every varint shape that a reader of unsigned varints must refuse or survive (over-wide,
	// over-long, truncated, padded with continuation bytes), alone and behind the genuine prefix
	for ti, typ := range []string{"dlg", "inv"} {
		for ii, iss := range []*gen.Principal{gen.Ed(11), gen.ByAlg("p256")[0], gen.ByAlg("rsa2048")[0]} {
			if parts >= 6 && ti*3+ii != part%6 {
				continue
			}
			spec := gen.RandomSpec(r, typ, gen.SpecOpts{Issuer: iss, Minimal: true, NoBig: true})
			tk, err := spec.Build()
			if err != nil {
				continue
			}
			sealed, _, err := tk.ToSealed(iss.Priv)
			if err != nil {
				continue
			}
			env, err := ref.DecodeDagCbor(sealed)
			if err != nil {
				continue
			}
			info, err := ref.ReadEnvelope(env)
			if err != nil {
				continue
			}
			h := info.Header
			rep := func(b byte, n int) []byte { return bytes.Repeat([]byte{b}, n) }
			cat := func(parts ...[]byte) []byte { return bytes.Join(parts, nil) }
			var headers [][]byte
			for _, tail := range [][]byte{
				cat(rep(0xff, 9), []byte{0x01}), cat(rep(0xff, 9), []byte{0x02}), cat(rep(0xff, 10), []byte{0x01}), rep(0xff, 11), rep(0x80, 12),
				cat(rep(0x80, 9), []byte{0x00}), cat(rep(0x80, 20), []byte{0x01}), rep(0x80, 1000), {0xed}, {0x80}, {},
			} {
				headers = append(headers, tail, cat(h[:1], tail), cat(h, tail))
				if len(h) > 2 {
					headers = append(headers, cat(h[:len(h)-1], tail), cat(h[:2], tail, h[2:]))
				}
			}
			for _, hd := range headers {
				re, err := ref.SignEnvelope(iss.Priv, hd, info.Tag, info.Payload)
				if err != nil {
					continue
				}
				w.Cover("hostile-varsig-headers")
				if cb, err := ref.EncodeDagCbor(re); err == nil {
					w.Distinct(cb)
					c.tokenEntries("hostile-header", cb, "dagcbor")
					c.containerEntries("hostile-header", buildCborContainer("ctn-v1", []ref.V{ref.Bytes(cb)}, false))
				}
				if js, err := ref.EncodeDagJson(re); err == nil {
					c.tokenEntries("hostile-header", js, "dagjson")
				}
			}
		}
	}

	// (c') the complete single-mutation matrix of C10 (every field x dropped / renamed / null /
	// every other kind / out-of-range and malformed values), correctly signed, through every
	// decoder - here only watched for panics and crashes
	for ti, typ := range []string{"dlg", "inv"} {
		iss := gen.Ed(7 + ti)
		spec := gen.RandomSpec(r, typ, gen.SpecOpts{Issuer: iss, Full: true, NoBig: true})
		tk, err := spec.Build()
		if err != nil {
			continue
		}
		sealed, _, err := tk.ToSealed(iss.Priv)
		if err != nil {
			continue
		}
		env, _ := ref.DecodeDagCbor(sealed)
		info, err := ref.ReadEnvelope(env)
		if err != nil {
			continue
		}
		for mi, m := range c10Mutations(typ, info.Payload) {
			if (mi+ti)%parts != part {
				continue
			}
			cb, js := signedWith(iss, info.Tag, m.apply(info.Payload))
			w.Cover("family/c-signed-malformed")
			if cb != nil {
				w.Distinct(cb)
				c.tokenEntries("signed-"+m.field+"-"+m.kind, cb, "dagcbor")
				if ctn, err := ref.EncodeDagCbor(ref.Map(ref.E("ctn-v1", ref.List(ref.Bytes(cb))))); err == nil {
					c.containerEntries("container-of-signed-"+m.field+"-"+m.kind, ctn)
				}
			}
			if js != nil {
				c.tokenEntries("signed-"+m.field+"-"+m.kind, js, "dagjson")
			}
		}
	}

	// ---- (d) principals carrying invalid key material (PubKey runs before the signature check)
	c.family = "d-bad-key-material"
	for i, p := range gen.Pool() {
		if i%parts != part {
			continue
		}
		for _, a := range altEncodings(r, p) {
			w.Cover("family/d-bad-key-material")
			c.didEntries("alt-"+a.kind, a.s)
			for _, typ := range []string{"dlg", "inv"} {
				spec := gen.RandomSpec(r, typ, gen.SpecOpts{Issuer: gen.Ed(i)})
				tk, err := spec.Build()
				if err != nil {
					continue
				}
				sealed, _, err := tk.ToSealed(gen.Ed(i).Priv)
				if err != nil {
					continue
				}
				env, _ := ref.DecodeDagCbor(sealed)
				info, err := ref.ReadEnvelope(env)
				if err != nil {
					continue
				}
				for _, f := range []string{"iss", "aud", "sub"} {
					v := ref.Str(a.s)
					pl := withField(info.Payload, f, &v)
					// the header of every key type, since the issuer's key type is what is looked up
					for _, h := range ref.AllVarsigHeaders() {
						e := ref.List(ref.Bytes(info.Sig), ref.SigPayload(h, info.Tag, pl))
						if cb, err := ref.EncodeDagCbor(e); err == nil {
							w.Distinct(cb)
							c.tokenEntries("principal-"+a.kind, cb, "dagcbor")
							if f == "iss" && len(c.concurrent) < 400 {
								c.concurrent = append(c.concurrent, cb)
							}
						}
					}
				}
			}
		}
	}

	// the same hostile tokens (issuers over invalid key material), decoded by many goroutines at
	// once - several of them on the same token at overlapping times: a server decodes what peers
	// send concurrently, and a hostile peer can send the same token twice
	if len(c.concurrent) > 0 {
		var mu sync.Mutex
		var panics []string
		var wg sync.WaitGroup
		G := 16
		decs := c10Decoders()
		for g := 0; g < G; g++ {
			g := g
			wg.Add(1)
			go func() {
				defer wg.Done()
				for round := 0; round < w.Pick(3, 10); round++ {
					for i := range c.concurrent {
						in := c.concurrent[(i+g/4)%len(c.concurrent)] // four goroutines share a starting point
						d := decs[(i+g+round)%len(decs)]
						if d.codec != "dagcbor" {
							continue
						}
						if pi := mon.Guard(func() { _, _ = d.f(in) }); pi != nil {
							mu.Lock()
							if len(panics) < 20 {
								panics = append(panics, d.name+": "+pi.Value+" @ "+pi.Frame+" input "+mon.Hex(capBytes(in, 600)))
							}
							mu.Unlock()
						}
					}
				}
			}()
		}
		wg.Wait()
		w.Eval(len(c.concurrent) * G)
		w.Cover("concurrent-hostile-decoding")
		if len(panics) > 0 {
			w.Violate("panic/concurrent-decoding/bad-key-material", fmt.Sprintf("decoding hostile tokens (issuer over invalid key material) from %d goroutines at once panics: %s", G, mon.Trunc(panics[0], 300)), map[string]any{"panics": panics, "goroutines": G})
		}
	}

	// ---- (e) hostile lengths
	c.family = "e-hostile-lengths"
	lens := []uint64{0, 1, 23, 24, 255, 256, 65535, 65536, 1 << 20, 32 << 20, 32<<20 + 1, 32<<20 - 1, 1 << 31, 1 << 32, 1 << 53, 1 << 62, 1 << 63, math.MaxUint64}
	idx := 0
	for _, major := range []byte{2, 3, 4, 5, 6} {
		for _, l := range lens {
			idx++
			if idx%parts != part {
				continue
			}
			h := cborHead(major, l)
			w.Cover("family/e-hostile-lengths")
			for _, tail := range [][]byte{nil, {0x00}, bytes.Repeat([]byte{0x61, 0x61}, 8)} {
				in := append(append([]byte{}, h...), tail...)
				w.Distinct(in)
				c.tokenEntries("hostile-length", in, "dagcbor")
				c.containerEntries("hostile-length", in)
				// as the signature / a payload field of an otherwise fine envelope
				e := append([]byte{0x82}, in...)
				c.tokenEntries("hostile-length-in-envelope", e, "dagcbor")
				// as container entries
				ce := append(append([]byte{0xa1, 0x66}, []byte("ctn-v1")...), in...)
				c.containerEntries("hostile-length-in-container", ce)
			}
		}
	}
	for _, l := range lens {
		idx++
		if idx%parts != part {
			continue
		}
		// CAR: header section length, then block section length
		hdr := binary.AppendUvarint(nil, l)
		c.containerEntries("car-section-length", append(hdr, 0xa2, 0x65))
		if car, err := wr.ToCar(); err == nil {
			cuts, _, _ := ref.SplitCAR(car)
			if len(cuts) > 0 {
				in := append(append([]byte{}, car[:cuts[0]]...), binary.AppendUvarint(nil, l)...)
				in = append(in, gen.Bytes(r, 40)...)
				c.containerEntries("car-block-length", in)
				c.call("container.FromCarBase64", "car-block-length", in, func() { _, _ = container.FromCarBase64([]byte(base64.StdEncoding.EncodeToString(in))) })
			}
		}
	}

	// CAR section-length sweep: in a valid CAR, the length prefix of the header and of each block
	// is replaced by every small value (0..80: below, at and above the size of the CID that
	// follows) and by values around every integer-width boundary, the bytes that follow stay
	// as they were (a complete, parseable CID and the token)
	if car, err := wr.ToCar(); err == nil {
		if cuts, _, err := ref.SplitCAR(car); err == nil && len(cuts) > 1 {
			var ls []uint64
			for l := uint64(0); l <= 80; l++ {
				ls = append(ls, l)
			}
			ls = append(ls, 127, 128, 129, 255, 256, 16383, 16384, 1<<31-1, 1<<31, 1<<32-1, 1<<32, 1<<63-1, 1<<63, 1<<64-1, 32<<20-1, 32<<20, 32<<20+1)
			starts := append([]int{0}, cuts[:len(cuts)-1]...)
			for si, st := range starts {
				_, n := binary.Uvarint(car[st:])
				if n <= 0 {
					continue
				}
				for _, l := range ls {
					idx++
					if idx%parts != part {
						continue
					}
					in := append(append(append([]byte{}, car[:st]...), binary.AppendUvarint(nil, l)...), car[st+n:]...)
					w.Distinct("car-length-sweep", si, l)
					w.Cover("car-length-sweep")
					c.containerEntries("car-length-sweep", in)
					if l < 100 && l%3 == 0 {
						c.call("container.FromCarBase64Reader", "car-length-sweep", in, func() {
							_, _ = container.FromCarBase64Reader(strings.NewReader(base64.StdEncoding.EncodeToString(in)))
						})
					}
				}
			}
		}
	}

	// ---- (f) policies x data of every kind
	c.family = "f-policy-x-data"
	// like statements against strings they were derived from (prefix*, *suffix, head*tail with
	// head and tail overlapping in the subject, escapes, runs of stars) and exhaustively over a
	// small alphabet: matching is an entry point for untrusted argument data
	{
		small := allStrings(`ab*\`, 4)
		for pi, pat := range small {
			if pi%parts != part || !ref.GlobValid(pat) {
				continue
			}
			pol, err := policy.Construct(policy.Like(".", pat))
			if err != nil {
				continue
			}
			for _, str := range small {
				n := ref.Str(str).Node()
				c.call("Policy.Match", "like-exhaustive-small", []byte(pat+"\x00"+str), func() { _, _ = pol.Match(n); _, _ = pol.PartialMatch(n) })
			}
		}
		for i := 0; i < share(w.Pick(3000, 60000)); i++ {
			str := gen.String(r, gen.ValOpts{})
			if r.IntN(3) == 0 {
				str += gen.String(r, gen.ValOpts{})
			}
			pat := gen.GlobFor(r, str)
			pol, err := policy.Construct(policy.Like(".", pat))
			if err != nil {
				continue
			}
			n := ref.Str(str).Node()
			c.call("Policy.Match", "like-derived-from-subject", []byte(pat+"\x00"+str), func() { _, _ = pol.Match(n); _, _ = pol.PartialMatch(n) })
		}
		w.Cover("like-families")
	}
	for i := 0; i < share(w.Pick(4000, 120000)); i++ {
		var pv ref.V
		if i%3 == 0 {
			// statements with hostile literals
			st := ref.Stmt{Kind: gen.Pick(r, ref.CmpKinds), Sel: gen.RandomSel(r), Val: hostileValue(r, 2)}
			pv = ref.Policy{st}.ToV()
			if r.IntN(2) == 0 {
				pv = ref.Policy{{Kind: gen.Pick(r, []string{"all", "any"}), Sel: gen.RandomSel(r), Subs: []ref.Stmt{st}}}.ToV()
			}
		} else if i%3 == 1 {
			var p ref.Policy
			for k := 0; k < 1+r.IntN(3); k++ {
				p = append(p, gen.RandomStmt(r, 3, gen.ValOpts{NonFinite: true, IntegralF: true}))
			}
			pv = p.ToV()
		} else {
			pv = hostileValue(r, 4) // arbitrary IPLD offered as a policy
		}
		w.Cover("family/f-policy-x-data")
		raw := []byte(pv.String())
		w.Distinct(raw)
		c.policyNodeEntries("policy-x-data", pv, data, raw)
		if i%4 == 0 {
			if js, err := ref.EncodeDagJson(pv); err == nil {
				c.call("policy.FromDagJson", "policy-json", js, func() { _, _ = policy.FromDagJson(string(js)) })
			}
		}
		// arbitrary nodes offered as argument values
		hv := hostileValue(r, 3)
		c.call("args.Add", "hostile-node", []byte(hv.String()), func() {
			a := args.New()
			if err := a.Add("k", hv.Node()); err == nil {
				_, _ = a.ToIPLD()
				_ = a.String()
				_ = a.Validate()
			}
		})
		c.call("literal.Any", "hostile-node", []byte(hv.String()), func() { _, _ = literal.Any(hv.Node()) })
		if i%50 == 0 && w.WantSample() {
			w.Sample(map[string]any{"family": "f", "policy": mon.Trunc(pv.String(), 300), "data_values": len(data)})
		}
	}
	// memory was judged call by call (what the runtime held after the call, and the peak RSS where
	// the kernel lets the process reset its high-water mark); the shard's own peak is only noted:
	// it adds up the garbage of consecutive calls and says nothing about any one of them
	if hwm := vmHWM(); hwm > 0 {
		w.Cover("rss-measured")
		w.Note(fmt.Sprintf("rss/bulk-part-%d", part), fmt.Sprintf("largest input %d bytes, peak RSS of the shard %d MiB, %d calls left more than 160 MiB mapped and were measured individually (high-water mark reset per call: %v)", c.maxInput, hwm>>20, c.bigCalls, c.perCall))
	}
}

// ---- depth bombs and long inputs, one process per series

type bomb struct {
	kind  string
	entry string
	depth int
	build func(n int) []byte
	run   func(in []byte)
}

func spliceDeep(typ string, field string, n int, asMap bool) []byte {
	// a well-signed token whose `field` holds n nested arrays (or maps)
	var deep []byte
	if field == "pol" {
		// ["not", ["not", ... ["==", ".a", 1] ...]] wrapped in the statement list
		deep = append(deep, 0x81)
		for i := 0; i < n; i++ {
			deep = append(deep, 0x82, 0x63, 'n', 'o', 't')
		}
		deep = append(deep, 0x83, 0x62, '=', '=', 0x62, '.', 'a', 0x01)
	} else if asMap {
		deep = append(bytes.Repeat([]byte{0xa1, 0x61, 0x61}, n), 0x01)
	} else {
		deep = append(bytes.Repeat([]byte{0x81}, n), 0x01)
	}
	return spliceItem(typ, field, n, deep)
}

// spliceWide: a well-signed token whose `field` holds one flat collection of n small items.
func spliceWide(typ string, field string, n int) []byte {
	var wide []byte
	switch field {
	case "pol":
		wide = cborHead(4, uint64(n))
		wide = append(wide, bytes.Repeat([]byte{0x83, 0x62, '=', '=', 0x62, '.', 'a', 0x01}, n)...)
	case "meta":
		wide = cborHead(4, uint64(n))
		wide = append(wide, bytes.Repeat([]byte{0xa0}, n)...)
	default:
		wide = cborHead(4, uint64(n))
		wide = append(wide, bytes.Repeat([]byte{0x01}, n)...)
	}
	return spliceItem(typ, field, n, wide)
}

// spliceItem builds a well-signed token whose `field` holds (args / meta: under the key
// "deep") the hand-made CBOR item: the payload is encoded with a placeholder which is then
// replaced by the item, and the result is signed.
func spliceItem(typ string, field string, n int, deep []byte) []byte {
	iss := gen.Ed(3)
	spec := gen.RandomSpec(rand.New(rand.NewPCG(1, uint64(n))), typ, gen.SpecOpts{Issuer: iss, Minimal: true})
	tk, err := spec.Build()
	if err != nil {
		return nil
	}
	sealed, _, err := tk.ToSealed(iss.Priv)
	if err != nil {
		return nil
	}
	env, _ := ref.DecodeDagCbor(sealed)
	info, err := ref.ReadEnvelope(env)
	if err != nil {
		return nil
	}
	marker := []byte("PLACEHOLDER-0123456789-PLACEHOLDER")
	var ph ref.V
	switch field {
	case "args", "meta":
		ph = ref.Map(ref.E("deep", ref.Bytes(marker)))
	default: // pol
		ph = ref.Bytes(marker)
	}
	pl := withField(info.Payload, field, &ph)
	sp := ref.SigPayload(info.Header, info.Tag, pl)
	data, err := ref.EncodeDagCbor(sp)
	if err != nil {
		return nil
	}
	enc := append(cborHead(2, uint64(len(marker))), marker...)
	i := bytes.Index(data, enc)
	if i < 0 {
		return nil
	}
	signedBytes := append(append(append([]byte{}, data[:i]...), deep...), data[i+len(enc):]...)
	sig, err := iss.Priv.Sign(signedBytes)
	if err != nil {
		return nil
	}
	out := append([]byte{0x82}, cborHead(2, uint64(len(sig)))...)
	out = append(out, sig...)
	return append(out, signedBytes...)
}

func c09Bombs(w *mon.W, part, parts int) {
	c := &c09{w: w, family: "e-depth-bombs"}
	depths := []int{10000, 100000, 1000000, 2500000, 4000000}
	type series struct {
		kind   string
		entry  string
		build  func(n int) []byte
		run    func(in []byte)
		max    int
		depths []int // overrides the default depth list
	}
	// nested quantifiers / connectives over nested lists: tiny inputs whose evaluation must stay
	// linear in their size (an evaluator that re-visits operands is exponential in the depth)
	nestedPolicy := func(kind string, inner bool) func(n int) []byte {
		return func(n int) []byte {
			st := ref.Stmt{Kind: "==", Sel: ref.Sel{}, Val: ref.Int(1)}
			if !inner {
				st.Val = ref.Int(2)
			}
			for i := 0; i < n; i++ {
				switch kind {
				case "any", "all":
					st = ref.Stmt{Kind: kind, Sel: ref.Sel{}, Subs: []ref.Stmt{st}}
				case "and", "or":
					st = ref.Stmt{Kind: kind, Subs: []ref.Stmt{st, st}}
				default:
					st = ref.Stmt{Kind: "not", Subs: []ref.Stmt{st}}
				}
			}
			b, _ := ref.EncodeDagJson(ref.Policy{st}.ToV())
			return b
		}
	}
	runNested := func(listDepth bool) func(in []byte) {
		return func(in []byte) {
			p, err := policy.FromDagJson(string(in))
			if err != nil {
				return
			}
			d := ref.Int(1)
			for i := 0; i < 70; i++ {
				d = ref.List(d)
			}
			if !listDepth {
				d = ref.Int(1)
			}
			_, _ = p.Match(d.Node())
			_, _ = p.PartialMatch(d.Node())
		}
	}
	small := []int{4, 8, 16, 24, 32, 48, 64}
	wideN := []int{100000, 1000000, 8 << 20, 24 << 20}
	all := []series{
		{"cbor-list", "token.FromSealed", func(n int) []byte { return append(bytes.Repeat([]byte{0x81}, n), 0x00) }, func(in []byte) { _, _, _ = token.FromSealed(in) }, 0, nil},
		{"cbor-list", "container.FromCbor", func(n int) []byte { return append(bytes.Repeat([]byte{0x81}, n), 0x00) }, func(in []byte) { _, _ = container.FromCbor(in) }, 0, nil},
		{"cbor-list", "container.FromCar", func(n int) []byte {
			b := append(bytes.Repeat([]byte{0x81}, n), 0x00)
			return append(binary.AppendUvarint(nil, uint64(len(b))), b...)
		}, func(in []byte) { _, _ = container.FromCar(in) }, 0, nil},
		{"cbor-map", "token.FromSealed", func(n int) []byte { return append(bytes.Repeat([]byte{0xa1, 0x61, 0x61}, n), 0x00) }, func(in []byte) { _, _, _ = token.FromSealed(in) }, 0, nil},
		{"cbor-map", "delegation.FromSealed", func(n int) []byte { return append(bytes.Repeat([]byte{0xa1, 0x61, 0x61}, n), 0x00) }, func(in []byte) { _, _, _ = delegation.FromSealed(in) }, 0, nil},
		{"cbor-tag", "token.FromSealed", func(n int) []byte { return append(bytes.Repeat([]byte{0xd8, 0x2a}, n), 0x00) }, func(in []byte) { _, _, _ = token.FromSealed(in) }, 0, nil},
		{"cbor-indefinite", "invocation.FromSealed", func(n int) []byte { return append(bytes.Repeat([]byte{0x9f}, n), bytes.Repeat([]byte{0xff}, n)...) }, func(in []byte) { _, _, _ = invocation.FromSealed(in) }, 0, nil},
		{"json-list", "token.FromDagJson", func(n int) []byte {
			return append(bytes.Repeat([]byte{'['}, n), bytes.Repeat([]byte{']'}, n)...)
		}, func(in []byte) { _, _ = token.FromDagJson(in) }, 0, nil},
		{"json-map", "token.FromDagJson", func(n int) []byte {
			b := append(bytes.Repeat([]byte(`{"a":`), n), '1')
			return append(b, bytes.Repeat([]byte{'}'}, n)...)
		}, func(in []byte) { _, _ = token.FromDagJson(in) }, 1000000, nil},
		{"policy-not", "policy.FromDagJson", func(n int) []byte {
			b := append([]byte{'['}, bytes.Repeat([]byte(`["not",`), n)...)
			b = append(b, []byte(`["==",".a",1]`)...)
			b = append(b, bytes.Repeat([]byte{']'}, n)...)
			return append(b, ']')
		}, func(in []byte) {
			p, err := policy.FromDagJson(string(in))
			if err == nil {
				_, _ = p.Match(ref.Map(ref.E("a", ref.Int(1))).Node())
			}
		}, 1000000, nil},
		{"policy-and", "policy.FromDagJson", func(n int) []byte {
			b := append([]byte{'['}, bytes.Repeat([]byte(`["and",[`), n)...)
			b = append(b, []byte(`["==",".a",1]`)...)
			b = append(b, bytes.Repeat([]byte(`]]`), n)...)
			return append(b, ']')
		}, func(in []byte) {
			p, err := policy.FromDagJson(string(in))
			if err == nil {
				_, _ = p.Match(ref.Map(ref.E("a", ref.Int(1))).Node())
			}
		}, 1000000, nil},
		{"signed-deep-args", "invocation.FromSealed", func(n int) []byte { return spliceDeep("inv", "args", n, false) }, func(in []byte) { _, _, _ = invocation.FromSealed(in) }, 0, nil},
		{"signed-deep-args-map", "token.FromSealed", func(n int) []byte { return spliceDeep("inv", "args", n, true) }, func(in []byte) { _, _, _ = token.FromSealed(in) }, 0, nil},
		{"signed-deep-meta", "delegation.FromSealed", func(n int) []byte { return spliceDeep("dlg", "meta", n, false) }, func(in []byte) { _, _, _ = delegation.FromSealed(in) }, 0, nil},
		{"signed-deep-pol", "delegation.FromSealed", func(n int) []byte { return spliceDeep("dlg", "pol", n, false) }, func(in []byte) {
			t, _, err := delegation.FromSealed(in)
			if err == nil {
				_, _ = t.Policy().Match(ref.Map(ref.E("a", ref.Int(1))).Node())
			}
		}, 1000000, nil},
		{"policy-nested-any-failing", "Policy.Match", nestedPolicy("any", false), runNested(true), 0, small},
		{"policy-nested-all-passing", "Policy.Match", nestedPolicy("all", true), runNested(true), 0, small},
		{"policy-nested-and-or-not", "Policy.Match", func(n int) []byte {
			k := []string{"and", "or", "not"}[n%3]
			if n > 24 {
				n = 24 // and/or double their operand: 2^24 leaves is the cap for a small input
			}
			return nestedPolicy(k, n%2 == 0)(n)
		}, runNested(false), 0, []int{4, 8, 12, 16, 18, 20}},
		{"selector-long", "selector.Parse", func(n int) []byte { return bytes.Repeat([]byte(".a"), n) }, func(in []byte) {
			s, err := selector.Parse(string(in))
			if err == nil {
				_, _ = s.Select(ref.Map(ref.E("a", ref.Int(1))).Node())
				_ = len(s.String())
			}
		}, 0, nil},
		{"selector-brackets", "selector.Parse", func(n int) []byte { return append([]byte{'.'}, bytes.Repeat([]byte("[0]"), n)...) }, func(in []byte) { _, _ = selector.Parse(string(in)) }, 0, nil},
		{"glob-stars", "Policy.Match", func(n int) []byte { return bytes.Repeat([]byte("*a"), n/10+1) }, func(in []byte) {
			p, err := policy.Construct(policy.Like(".", string(in)))
			if err == nil {
				_, _ = p.Match(ref.Str(strings.Repeat("a", len(in)/2) + "b").Node())
			}
		}, 100000, nil},
		{"did-long", "did.Parse", func(n int) []byte { return append([]byte("did:key:z"), bytes.Repeat([]byte("1"), n)...) }, func(in []byte) { _, _ = did.ToPubKey(string(in)) }, 1000000, nil},
		// ---- repetition bombs: n is the number of repeated units of a flat (not nested) input
		{"car-zero-sections", "container.FromCar", func(n int) []byte { return append(buildCAR(nil, -1, 0), make([]byte, n)...) }, func(in []byte) { _, _ = container.FromCar(in) }, 0, wideN},
		{"car-zero-sections", "container.FromCarBase64Reader", func(n int) []byte {
			return []byte(base64.StdEncoding.EncodeToString(append(buildCAR(nil, -1, 0), make([]byte, n)...)))
		}, func(in []byte) { _, _ = container.FromCarBase64Reader(bytes.NewReader(in)) }, 0, wideN},
		{"cbor-container-empty-entries", "container.FromCbor", func(n int) []byte {
			b := append([]byte{0xa1, 0x66, 'c', 't', 'n', '-', 'v', '1'}, cborHead(4, uint64(n))...)
			return append(b, bytes.Repeat([]byte{0x40}, n)...)
		}, func(in []byte) { _, _ = container.FromCbor(in) }, 0, wideN},
		{"cbor-indefinite-bytes-empty-chunks", "token.FromSealed", func(n int) []byte {
			return append(append([]byte{0x82, 0x5f}, bytes.Repeat([]byte{0x40}, n)...), 0xff, 0xa0)
		}, func(in []byte) { _, _, _ = token.FromSealed(in) }, 0, wideN},
		{"json-whitespace", "token.FromDagJson", func(n int) []byte {
			return append(append(bytes.Repeat([]byte{' ', '\n'}, n/2), []byte(`[{"/":{"bytes":"AA"}},{}]`)...), bytes.Repeat([]byte{'\t'}, n/2)...)
		}, func(in []byte) { _, _ = token.FromDagJson(in) }, 0, wideN},
		{"json-wide-list", "policy.FromDagJson", func(n int) []byte {
			b := append([]byte(`[["and",[`), bytes.Repeat([]byte(`["==",".a",1],`), n)...)
			return append(b, []byte(`["==",".a",1]]]]`)...)
		}, func(in []byte) {
			p, err := policy.FromDagJson(string(in))
			if err == nil {
				_, _ = p.Match(ref.Map(ref.E("a", ref.Int(1))).Node())
				_, _ = p.PartialMatch(ref.Map(ref.E("b", ref.Int(1))).Node())
			}
		}, 1000000, wideN},
		{"json-escapes", "token.FromDagJson", func(n int) []byte {
			return append(append([]byte(`["`), bytes.Repeat([]byte(`\u0041`), n)...), []byte(`",{}]`)...)
		}, func(in []byte) { _, _ = token.FromDagJson(in) }, 4000000, wideN},
		{"selector-question-marks", "selector.Parse", func(n int) []byte { return append([]byte(".a"), bytes.Repeat([]byte{'?'}, n)...) }, func(in []byte) {
			s, err := selector.Parse(string(in))
			if err == nil {
				_, _ = s.Select(ref.Map(ref.E("a", ref.Int(1))).Node())
			}
		}, 0, wideN},
		{"selector-digits", "selector.Parse", func(n int) []byte {
			return append(append([]byte(".["), bytes.Repeat([]byte{'9'}, n)...), ']')
		}, func(in []byte) { _, _ = selector.Parse(string(in)) }, 0, wideN},
		{"signed-wide-args", "invocation.FromSealed", func(n int) []byte { return spliceWide("inv", "args", n) }, func(in []byte) {
			t, _, err := invocation.FromSealed(in)
			if err == nil {
				_ = len(t.Arguments().String())
			}
		}, 0, wideN},
		{"signed-wide-meta", "token.FromSealed", func(n int) []byte { return spliceWide("dlg", "meta", n) }, func(in []byte) { _, _, _ = token.FromSealed(in) }, 0, wideN},
		{"signed-wide-pol", "delegation.FromSealed", func(n int) []byte { return spliceWide("dlg", "pol", n) }, func(in []byte) {
			t, _, err := delegation.FromSealed(in)
			if err == nil {
				_, _ = t.Policy().Match(ref.Map(ref.E("a", ref.Int(1))).Node())
			}
		}, 1000000, wideN},
		{"ipld-deep-policy-node", "policy.FromIPLD", func(n int) []byte { return append(bytes.Repeat([]byte{0x81}, n), 0x01) }, func(in []byte) {
			// decode a deep list with the dependency, then offer the node as a policy (the input - and
			// the memory bound - is the CBOR text the node comes from)
			nd, err := ipld.Decode(in, dagcbor.Decode)
			if err != nil {
				return
			}
			_, _ = policy.FromIPLD(nd)
			_ = dagjson.Encode
		}, 1000000, nil},
		// map headers that ANNOUNCE four million entries each, nested n deep (seven bytes a level,
		// no entry follows): what the decoder sets aside for an announcement is not charged to its
		// allocation budget
		{"cbor-announced-map-entries", "token.FromSealed", func(n int) []byte { return bytes.Repeat([]byte{0xba, 0x00, 0x40, 0x00, 0x00, 0x61, 0x61}, n) }, func(in []byte) { _, _, _ = token.FromSealed(in) }, 0, []int{1, 2, 3}},
		{"cbor-announced-map-entries", "container.FromCbor", func(n int) []byte { return bytes.Repeat([]byte{0xba, 0x00, 0x40, 0x00, 0x00, 0x61, 0x61}, n) }, func(in []byte) { _, _ = container.FromCbor(in) }, 0, []int{1, 2, 3}},
		{"cbor-announced-list-entries", "delegation.FromSealed", func(n int) []byte { return bytes.Repeat([]byte{0x9a, 0x00, 0x80, 0x00, 0x00}, n) }, func(in []byte) { _, _, _ = delegation.FromSealed(in) }, 0, []int{1, 2, 4, 8}},
	}
	if len(all) != parts {
		w.Inconclusive(fmt.Sprintf("C09: %d bomb series but %d bomb shards", len(all), parts))
	}
	maxIn := 0
	for si, s := range all {
		if si%parts != part {
			continue
		}
		ds := depths
		if s.depths != nil {
			ds = s.depths
		}
		for _, n := range ds {
			if s.max > 0 && n > s.max {
				continue
			}
			in := s.build(n)
			if in == nil {
				w.Inconclusive(fmt.Sprintf("C09 bomb %s depth %d could not be built", s.kind, n))
				continue
			}
			cell := s.kind
			switch {
			case strings.HasPrefix(cell, "signed-deep-args"):
				cell = "signed-deep-args"
			case cell == "selector-long" || cell == "selector-brackets":
				cell = "selector-long"
			}
			w.Cover("bomb/" + cell)
			w.Distinct(s.kind, s.entry, n)
			class := fmt.Sprintf("%s/depth=%d", s.kind, n)
			run := s.run
			w.Checkpoint()
			c.call(s.entry, class, in, func() { run(in) })
			// peak memory so far against the affine bound
			if hwm := max(vmHWM(), c.lastHeld); hwm > 0 {
				w.Cover("rss-measured")
				// VmHWM is the high-water mark of the whole process (and what the runtime holds after the
				// call counts pages set aside but never touched): compare it with the bound of the
				// largest input this process has been given so far
				if len(in) > maxIn {
					maxIn = len(in)
				}
				bound := int64(512<<20) + 4096*int64(maxIn)
				w.Note("rss/"+s.entry+"/"+class, fmt.Sprintf("input %d bytes (largest so far %d), peak RSS so far %d MiB (bound %d MiB)", len(in), maxIn, hwm>>20, bound>>20))
				if hwm > bound {
					w.Violate("memory-bound/"+s.entry+"/"+s.kind, fmt.Sprintf("%d MiB (peak RSS / held by the runtime) after %s on a %d-byte %s input exceed 512 MiB + 4096 x input", hwm>>20, s.entry, len(in), class),
						map[string]any{"entry": s.entry, "input_class": class, "input_len": len(in), "peak_rss": hwm})
				}
			}
		}
	}
}
