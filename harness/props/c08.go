package props

import (
	"bytes"
	"crypto/elliptic"
	"encoding/asn1"
	"encoding/base64"
	"fmt"
	mh "github.com/multiformats/go-multihash"
	"math/big"
	"strings"
	"testing/iotest"

	"github.com/ipfs/go-cid"

	secp "github.com/decred/dcrd/dcrec/secp256k1/v4"

	"github.com/ucan-wg/go-ucan/pkg/container"
	"github.com/ucan-wg/go-ucan/token"
	"github.com/ucan-wg/go-ucan/token/delegation"
	"github.com/ucan-wg/go-ucan/token/invocation"

	"verifharness/gen"
	"verifharness/mon"
	"verifharness/ref"
)

func init() {
	register(&mon.Prop{
		ID:         "C08",
		Level:      "fault_enumeration",
		Exhaustive: true,
		Rule: "(1) CID agreement: for seeded tokens of both types and all key kinds, the CID returned by ToSealed, ToSealedWriter, FromSealed, FromSealedReader (typed and generic; plain, data-with-EOF, 1-byte and half-read streams) and the keys of container.Reader (4 formats) must equal CIDv1(dag-cbor, sha2-256) of the sealed bytes computed by the harness. " +
			"(2) canonicity, fault enumeration over encodings: for each sealed token EVERY single-knob re-encoding at EVERY node of its CBOR tree (length prefix / integer widened to 1,2,4,8 bytes; definite -> indefinite for each array, map, byte and text string, whole and split in two chunks; each map's pairs reversed / rotated; each float narrowed when exact; null -> undefined), the all-knobs variant, unsigned extra elements appended to the envelope list, and for ECDSA / secp256k1 issuers the keyless signature re-encodings (s -> n-s, DER with padded integers / long-form lengths). A variant is kept only if the dependency decoder yields a node deep-equal to the original's; every kept variant must be rejected by every FromSealed* function and by the container readers (else two accepted byte strings with the same signed content have different CIDs). " +
			"non-trivial = kept variant; distinct = variant bytes.",
		Assumptions: []string{
			"CBOR item model ref.ParseCBOR/Encode (220 lines) re-emits the token's own item tree with one encoding choice changed",
			"a variant the dependency decoder does not map to the same data is discarded, so the oracle never depends on what that decoder tolerates",
		},
		Shards:      shards(8, 16),
		Run:         runC08,
		MinEvals:    floor(20000, 600000),
		MinDistinct: floor(2000, 60000),
		RequiredCells: func(string) []string {
			cells := []string{"cid/ToSealed", "cid/ToSealedWriter", "cid/FromSealed", "cid/FromSealedReader", "cid/container", "cid/ToSealedWriter-piecewise", "cid/container-foreign-section-cid", "cid/mixed-container", "every-size", "trailing-bytes", "trailing-bytes/power-of-two-size", "sig/s-flip", "sig/der-padded", "sig/zero-prepended", "sig/zero-appended", "sig/leading-zeros-stripped", "sig/leading-zero-signature/rsa2048", "variant/extra-element", "variant/envelope-rearranged"}
			for _, k := range []string{"widen-1", "widen-2", "widen-4", "widen-8", "indefinite", "indefinite-split", "map-reverse", "map-rotate", "float-narrow", "null-undefined", "all-knobs"} {
				cells = append(cells, "variant/"+k)
			}
			return cells
		},
	})
}

type sealedDec struct {
	name string
	f    func(b []byte) (token.Token, cid.Cid, error)
}

func c08Decoders(typ string) []sealedDec {
	out := []sealedDec{
		{"token.FromSealed", token.FromSealed},
		{"token.FromSealedReader", func(b []byte) (token.Token, cid.Cid, error) { return token.FromSealedReader(bytes.NewReader(b)) }},
		// the same stream delivered in other legal ways: data together with EOF, one byte at a
		// time, half reads
		{"token.FromSealedReader(data+EOF)", func(b []byte) (token.Token, cid.Cid, error) {
			return token.FromSealedReader(iotest.DataErrReader(bytes.NewReader(b)))
		}},
		{"token.FromSealedReader(1-byte)", func(b []byte) (token.Token, cid.Cid, error) {
			return token.FromSealedReader(iotest.OneByteReader(bytes.NewReader(b)))
		}},
		{"token.FromSealedReader(half+data+EOF)", func(b []byte) (token.Token, cid.Cid, error) {
			return token.FromSealedReader(iotest.DataErrReader(iotest.HalfReader(bytes.NewReader(b))))
		}},
	}
	if typ == "dlg" {
		out = append(out,
			sealedDec{"delegation.FromSealed", func(b []byte) (token.Token, cid.Cid, error) {
				t, c, err := delegation.FromSealed(b)
				if err != nil {
					return nil, c, err
				}
				return t, c, nil
			}},
			sealedDec{"delegation.FromSealedReader(data+EOF)", func(b []byte) (token.Token, cid.Cid, error) {
				t, c, err := delegation.FromSealedReader(iotest.DataErrReader(bytes.NewReader(b)))
				if err != nil {
					return nil, c, err
				}
				return t, c, nil
			}},
			sealedDec{"delegation.FromSealedReader", func(b []byte) (token.Token, cid.Cid, error) {
				t, c, err := delegation.FromSealedReader(bytes.NewReader(b))
				if err != nil {
					return nil, c, err
				}
				return t, c, nil
			}})
	} else {
		out = append(out,
			sealedDec{"invocation.FromSealed", func(b []byte) (token.Token, cid.Cid, error) {
				t, c, err := invocation.FromSealed(b)
				if err != nil {
					return nil, c, err
				}
				return t, c, nil
			}},
			sealedDec{"invocation.FromSealedReader(data+EOF)", func(b []byte) (token.Token, cid.Cid, error) {
				t, c, err := invocation.FromSealedReader(iotest.DataErrReader(bytes.NewReader(b)))
				if err != nil {
					return nil, c, err
				}
				return t, c, nil
			}},
			sealedDec{"invocation.FromSealedReader", func(b []byte) (token.Token, cid.Cid, error) {
				t, c, err := invocation.FromSealedReader(bytes.NewReader(b))
				if err != nil {
					return nil, c, err
				}
				return t, c, nil
			}})
	}
	return out
}

// containerRead feeds one sealed byte string through a container of the given format and
// returns the reader's keys.
func containerRead(format int, sealed []byte, c cid.Cid) (container.Reader, error) {
	wr := container.NewWriter()
	wr.AddSealed(c, sealed)
	switch format {
	case 0:
		b, err := wr.ToCbor()
		if err != nil {
			return nil, err
		}
		return container.FromCbor(b)
	case 1:
		b, err := wr.ToCar()
		if err != nil {
			return nil, err
		}
		return container.FromCar(b)
	case 2:
		b, err := wr.ToCborBase64()
		if err != nil {
			return nil, err
		}
		return container.FromCborBase64(b)
	default:
		b, err := wr.ToCarBase64()
		if err != nil {
			return nil, err
		}
		return container.FromCarBase64Reader(bytes.NewReader(b))
	}
}

var containerNames = []string{"cbor", "car", "cbor64", "car64"}

// ecdsaSigVariants re-encodes an ECDSA signature without the key.
func ecdsaSigVariants(alg string, sig []byte) map[string][]byte {
	out := map[string][]byte{}
	var n *big.Int
	switch alg {
	case "p256":
		n = elliptic.P256().Params().N
	case "p384":
		n = elliptic.P384().Params().N
	case "p521":
		n = elliptic.P521().Params().N
	case "secp256k1":
		n = secp.S256().N
	default:
		return out
	}
	var rs struct{ R, S *big.Int }
	rest, err := asn1.Unmarshal(sig, &rs)
	if err != nil || len(rest) != 0 {
		return out
	}
	flip := struct{ R, S *big.Int }{rs.R, new(big.Int).Sub(n, rs.S)}
	if b, err := asn1.Marshal(flip); err == nil {
		out["s-flip"] = b
	}
	// DER with a padded (non-minimal) INTEGER for r: 30 L 02 (lr+1) 00 r... 02 ls s...
	derInt := func(x *big.Int, pad bool) []byte {
		b := x.Bytes()
		if len(b) == 0 || b[0]&0x80 != 0 {
			b = append([]byte{0}, b...)
		}
		if pad {
			b = append([]byte{0}, b...)
		}
		return append([]byte{0x02, byte(len(b))}, b...)
	}
	body := append(derInt(rs.R, true), derInt(rs.S, false)...)
	if len(body) < 128 {
		out["der-padded"] = append([]byte{0x30, byte(len(body))}, body...)
	} else {
		out["der-padded"] = append([]byte{0x30, 0x81, byte(len(body))}, body...)
	}
	// long-form length for the outer SEQUENCE where the short form suffices
	body2 := append(derInt(rs.R, false), derInt(rs.S, false)...)
	if len(body2) < 128 {
		out["der-longform"] = append([]byte{0x30, 0x81, byte(len(body2))}, body2...)
	}
	// trailing garbage after the DER structure
	out["der-trailing"] = append(append([]byte{}, sig...), 0)
	return out
}

// pieceWriter accepts at most max bytes per call and reports no error for the rest.
type pieceWriter struct {
	buf bytes.Buffer
	max int
}

func (p *pieceWriter) Write(b []byte) (int, error) {
	if len(b) > p.max {
		b = b[:p.max]
	}
	return p.buf.Write(b)
}

// paddedSigVariants: the signature as a number written with another count of leading zero bytes
// (fixed-width schemes - RSA, Ed25519 - have exactly one acceptable width), or followed by a zero.
func paddedSigVariants(sig []byte) map[string][]byte {
	out := map[string][]byte{
		"zero-prepended": append([]byte{0}, sig...),
		"zero-appended":  append(append([]byte{}, sig...), 0),
	}
	if len(sig) > 1 && sig[0] == 0 {
		i := 0
		for i < len(sig)-1 && sig[i] == 0 {
			i++
		}
		out["leading-zeros-stripped"] = append([]byte{}, sig[i:]...)
	}
	return out
}

// c08LeadingZeroSignatures: one RSA signature in 256 starts with a zero byte; such tokens are
// searched for (the nonce is varied) and offered with the zeros stripped from the signature's
// byte string - the same number, the same signed content, other bytes.
func c08LeadingZeroSignatures(w *mon.W) {
	for ai, alg := range []string{"rsa2048", "ed25519"} {
		iss := gen.ByAlg(alg)[0]
		found := 0
		for try := 0; try < 2500 && found < 2; try++ {
			typ := []string{"dlg", "inv"}[(try+ai)%2]
			s := gen.RandomSpec(w.Rng, typ, gen.SpecOpts{Issuer: iss, Minimal: true, NoBig: true})
			tk, err := s.Build()
			if err != nil {
				continue
			}
			sealed, c0, err := tk.ToSealed(iss.Priv)
			if err != nil {
				continue
			}
			root, rest, err := ref.ParseCBOR(sealed)
			if err != nil || len(rest) != 0 || root.Major != 4 || len(root.Items) != 2 || root.Items[0].Major != 2 || len(root.Items[0].Data) == 0 || root.Items[0].Data[0] != 0 {
				continue
			}
			found++
			for kind, sig := range paddedSigVariants(root.Items[0].Data) {
				c := root.Clone()
				c.Items[0].Data = sig
				c.Items[0].Width = 0
				vb := c.Encode()
				w.Cover("sig/" + kind)
				w.Cover("sig/leading-zero-signature/" + alg)
				w.Distinct(vb)
				c08OfferVariant(w, s, typ, "sig-"+kind+"/"+alg, "signature/"+alg, sealed, vb, c08Decoders(typ), c0)
			}
		}
	}
}

func runC08(w *mon.W) {
	r := w.Rng
	c08LeadingZeroSignatures(w)
	c08MixedContainers(w)
	c08EverySize(w)
	total := w.Share(w.Pick(40, 600))
	for it := 0; it < total; it++ {
		typ := []string{"dlg", "inv"}[it%2]
		o := gen.SpecOpts{AnyAlgPct: 40, Val: gen.ValOpts{IntegralF: true}}
		if it%4 < 2 {
			// make sure ECDSA-family issuers occur in every shard
			o.Issuer = gen.ByAlg(gen.Pick(r, []string{"p256", "p384", "p521", "secp256k1"}))[0]
		}
		if it%5 == 0 {
			o.Full = true
		}
		s := gen.RandomSpec(r, typ, o)
		if it%3 == 0 {
			// give the re-encoder floats, nulls and nested maps to work on
			s.Meta = ref.Map(ref.E("f", ref.Float(1.5)), ref.E("g", ref.List(ref.Null(), ref.Float(0.25), ref.Map(ref.E("a", ref.Int(300)), ref.E("b", ref.Int(70000)), ref.E("c", ref.Str("text"))))))
		}
		tk, err := s.Build()
		if err != nil {
			continue
		}
		sealed, c0, err := tk.ToSealed(s.Iss.Priv)
		if err != nil {
			w.Inconclusive("C08 token could not be sealed: " + err.Error())
			continue
		}
		want := ref.CID(sealed)
		desc := func() map[string]any {
			return map[string]any{"spec": describeSpec(s), "sealed_hex": mon.Hex(sealed), "harness_cid": want.String()}
		}
		// ---- clause 1: CID agreement
		w.Eval(1)
		w.Cover("cid/ToSealed")
		if !c0.Equals(want) {
			w.Violate("cid/ToSealed", fmt.Sprintf("ToSealed returned CID %s, the content address of its bytes is %s", c0, want), desc())
		}
		var buf bytes.Buffer
		cw, err := tk.ToSealedWriter(&buf, s.Iss.Priv)
		w.Eval(1)
		w.Cover("cid/ToSealedWriter")
		if err != nil {
			w.Violate("cid/ToSealedWriter-fails", err.Error(), desc())
		} else if !cw.Equals(ref.CID(buf.Bytes())) {
			w.Violate("cid/ToSealedWriter", fmt.Sprintf("ToSealedWriter returned CID %s, the bytes it wrote hash to %s", cw, ref.CID(buf.Bytes())), desc())
		}
		// a destination that takes the data in pieces (accepts at most k bytes per Write, without
		// an error): the call may fail, but if it succeeds the CID is the content address of
		// what was written, and that is a complete sealed token
		for _, k := range []int{1, 7, 64} {
			pw := &pieceWriter{max: k}
			cp, err := tk.ToSealedWriter(pw, s.Iss.Priv)
			w.Eval(1)
			w.Cover("cid/ToSealedWriter-piecewise")
			if err != nil {
				continue
			}
			if !cp.Equals(ref.CID(pw.buf.Bytes())) {
				m := desc()
				m["max_bytes_per_write"] = k
				m["written_hex"] = mon.Hex(capBytes(pw.buf.Bytes(), 4096))
				w.Violate("cid/ToSealedWriter(piecewise)", fmt.Sprintf("ToSealedWriter into a writer that accepts %d bytes per call succeeded and returned CID %s; the bytes written hash to %s", k, cp, ref.CID(pw.buf.Bytes())), m)
			} else if _, c2, err := token.FromSealed(pw.buf.Bytes()); err != nil || !c2.Equals(cp) {
				m := desc()
				m["max_bytes_per_write"] = k
				w.Violate("cid/ToSealedWriter(piecewise)/incomplete", fmt.Sprintf("ToSealedWriter into a writer that accepts %d bytes per call succeeded, but what was written does not unseal to the returned CID (err=%v)", k, err), m)
			}
		}
		decs := c08Decoders(typ)
		for _, d := range decs {
			_, c, err := d.f(sealed)
			w.Eval(1)
			if strings.Contains(d.name, "Reader") {
				w.Cover("cid/FromSealedReader")
			} else {
				w.Cover("cid/FromSealed")
			}
			if err != nil {
				m := desc()
				m["decoder"] = d.name
				w.Violate("cid/unseal-fails/"+d.name, d.name+" rejects the library's own sealed bytes: "+err.Error(), m)
				continue
			}
			if !c.Equals(want) {
				m := desc()
				m["decoder"] = d.name
				w.Violate("cid/"+d.name, fmt.Sprintf("%s returned CID %s, the content address of the bytes is %s", d.name, c, want), m)
			}
		}
		for f := 0; f < 4; f++ {
			rd, err := containerRead(f, sealed, c0)
			w.Eval(1)
			w.Cover("cid/container")
			if err != nil {
				w.Count("container-roundtrip-fails(judged by C17)", 1)
				continue
			}
			if len(rd) != 1 {
				w.Count("container-roundtrip-size(judged by C17)", 1)
			}
			for k := range rd {
				if !k.Equals(want) {
					m := desc()
					m["format"] = containerNames[f]
					w.Violate("cid/container-key/"+containerNames[f], fmt.Sprintf("container reader (%s) files the token under %s, its content address is %s", containerNames[f], k, want), m)
				}
			}
		}

		// a CAR written by someone else may name the block by another CID of the same bytes (raw
		// codec, sha2-512, CIDv0); if such a CAR is read at all, the token's CID is still the
		// content address of its sealed bytes
		for name, sc := range map[string]cid.Cid{
			"raw-codec": cid.NewCidV1(0x55, want.Hash()),
			"cidv0":     cid.NewCidV0(want.Hash()),
			"sha2-512": func() cid.Cid {
				h, _ := mh.Sum(sealed, mh.SHA2_512, -1)
				return cid.NewCidV1(0x71, h)
			}(),
		} {
			car := buildCAR([][2][]byte{{sc.Bytes(), sealed}}, -1, 0)
			for vi, read := range []func() (container.Reader, error){
				func() (container.Reader, error) { return container.FromCar(car) },
				func() (container.Reader, error) { return container.FromCarReader(bytes.NewReader(car)) },
				func() (container.Reader, error) {
					return container.FromCarBase64([]byte(base64.StdEncoding.EncodeToString(car)))
				},
			} {
				rd, err := read()
				w.Eval(1)
				w.Cover("cid/container-foreign-section-cid")
				if err != nil {
					continue
				}
				for k := range rd {
					if !k.Equals(want) {
						m := desc()
						m["section_cid"] = sc.String()
						m["car_hex"] = mon.Hex(car)
						w.Violate("cid/container-key/car-section-"+name, fmt.Sprintf("a CAR naming the block %s (%s) is read, and the token is filed under %s; the content address of its sealed bytes is %s (reader variant %d)", sc, name, k, want, vi), m)
					}
				}
			}
		}

		// ---- clause 2: canonicity
		root, rest, err := ref.ParseCBOR(sealed)
		if err != nil || len(rest) != 0 {
			w.Violate("canon/model-cannot-parse-library-output", fmt.Sprintf("the CBOR model cannot parse sealed bytes: %v", err), desc())
			continue
		}
		if !bytes.Equal(root.Encode(), sealed) {
			// the library's own output is not minimally encoded by the model's reading
			w.Count("model-reencode-differs-from-library-output", 1)
		}
		orig, err := ref.DecodeDagCbor(sealed)
		if err != nil {
			continue
		}
		variants := ref.Reencodings(root)
		// unsigned extra elements appended to the envelope list
		{
			c := root.Clone()
			c.Items = append(c.Items, &ref.Item{Major: 0, Arg: 1})
			variants = append(variants, ref.Variant{Kind: "extra-element", Bytes: c.Encode()})
			c2 := root.Clone()
			c2.Items = append(c2.Items, &ref.Item{Major: 2, Data: []byte("unsigned")}, &ref.Item{Major: 5})
			variants = append(variants, ref.Variant{Kind: "extra-element", Bytes: c2.Encode()})
			// the two envelope elements in the other order; an unsigned element in FRONT of them; the
			// pair wrapped in a further list - the same signature over the same signed part every time
			if len(root.Items) == 2 {
				c3 := root.Clone()
				c3.Items[0], c3.Items[1] = c3.Items[1], c3.Items[0]
				variants = append(variants, ref.Variant{Kind: "envelope-rearranged", Bytes: c3.Encode()})
				c4 := root.Clone()
				c4.Items = append([]*ref.Item{{Major: 0, Arg: 1}}, c4.Items...)
				variants = append(variants, ref.Variant{Kind: "envelope-rearranged", Bytes: c4.Encode()})
				c5 := &ref.Item{Major: 4, Items: []*ref.Item{root.Clone()}}
				variants = append(variants, ref.Variant{Kind: "envelope-rearranged", Bytes: c5.Encode()})
			}
		}
		if w.WantSample() && it%3 == 0 {
			w.Sample(map[string]any{"spec": describeSpec(s), "sealed_hex": mon.Hex(capBytes(sealed, 500)), "cid": want.String(), "cbor_nodes": len(root.Nodes()), "reencoding_variants": len(variants)})
		}
		for _, v := range variants {
			if bytes.Equal(v.Bytes, sealed) {
				continue
			}
			kept := false
			if v.Kind == "envelope-rearranged" {
				kept = true // the signature and the signed part are the original items, byte for byte
			} else if v.Kind == "extra-element" {
				// same signed content by construction (the first two elements are untouched)
				if dv, err := ref.DecodeDagCbor(v.Bytes); err == nil && len(dv.L) > 2 && ref.SameData(ref.List(dv.L[0], dv.L[1]), orig) {
					kept = true
				}
			} else if dv, err := ref.DecodeDagCbor(v.Bytes); err == nil && ref.SameData(dv, orig) {
				kept = true
			}
			if !kept {
				w.Count("variant-discarded/"+v.Kind, 1)
				continue
			}
			w.Cover("variant/" + v.Kind)
			w.Distinct(v.Bytes)
			c08OfferVariant(w, s, typ, v.Kind, "encoding", sealed, v.Bytes, decs, c0)
		}
		// signature re-encodings that need no key
		if root.Major == 4 && len(root.Items) == 2 && root.Items[0].Major == 2 {
			if strings.HasPrefix(s.Iss.Alg, "rsa") || s.Iss.Alg == "ed25519" {
				// (the ECDSA schemes carry DER, whose re-encodings are enumerated below)
				for kind, sig := range paddedSigVariants(root.Items[0].Data) {
					c := root.Clone()
					c.Items[0].Data = sig
					c.Items[0].Width = 0
					vb := c.Encode()
					w.Cover("sig/" + kind)
					w.Distinct(vb)
					c08OfferVariant(w, s, typ, "sig-"+kind+"/"+s.Iss.Alg, "signature/"+s.Iss.Alg, sealed, vb, decs, c0)
				}
			}
			for kind, sig := range ecdsaSigVariants(s.Iss.Alg, root.Items[0].Data) {
				c := root.Clone()
				c.Items[0].Data = sig
				c.Items[0].Width = 0
				vb := c.Encode()
				if kind == "s-flip" {
					w.Cover("sig/s-flip")
				} else {
					w.Cover("sig/der-padded")
				}
				w.Distinct(vb)
				c08OfferVariant(w, s, typ, "sig-"+kind+"/"+s.Iss.Alg, "signature/"+s.Iss.Alg, sealed, vb, decs, c0)
			}
		}
	}
}

func c08OfferVariant(w *mon.W, s *gen.TokenSpec, typ, kind, class string, sealed, variant []byte, decs []sealedDec, c0 cid.Cid) {
	for _, d := range decs {
		var t2 token.Token
		var c cid.Cid
		var err error
		w.Journal("C08/"+d.name, variant)
		pi := mon.Guard(func() { t2, c, err = d.f(variant) })
		w.Eval(1)
		if pi != nil {
			w.Count("decoder-panics(judged by C09)", 1)
			continue
		}
		if err != nil || t2 == nil {
			continue
		}
		w.Violate(fmt.Sprintf("canon/accepted/%s/%s", kind, d.name),
			fmt.Sprintf("%s accepts a %s re-encoding (%s) of a sealed token: same signed content, CID %s instead of %s", d.name, class, kind, c, c0),
			map[string]any{"spec": describeSpec(s), "kind": kind, "decoder": d.name, "sealed_hex": mon.Hex(sealed), "variant_hex": mon.Hex(variant), "cid_original": c0.String(), "cid_variant": c.String()})
	}
	// container readers (CBOR container carries the bytes verbatim; CAR under the variant's own CID)
	for f := 0; f < 2; f++ {
		rd, err := containerRead(f, variant, ref.CID(variant))
		w.Eval(1)
		if err == nil && len(rd) > 0 {
			w.Violate(fmt.Sprintf("canon/accepted/%s/container.%s", kind, containerNames[f]),
				fmt.Sprintf("the %s container reader accepts a %s re-encoding (%s) of a sealed token", containerNames[f], class, kind),
				map[string]any{"spec": describeSpec(s), "kind": kind, "sealed_hex": mon.Hex(sealed), "variant_hex": mon.Hex(variant)})
		}
	}
}

// c08MixedContainers: containers holding delegations AND invocations, in all four formats; the
// CID under which every accessor hands a token out (GetAllDelegations, GetAllInvocations,
// GetToken, GetDelegation, GetInvocation) is the content address of that token's sealed bytes -
// tokens are recognised by their nonce.
func c08MixedContainers(w *mon.W) {
	r := w.Rng
	for it := 0; it < w.Share(w.Pick(24, 200)); it++ {
		nd, ni := 1+r.IntN(5), 1+r.IntN(4)
		if it%5 == 0 {
			ni = 1
		}
		type item struct {
			sealed []byte
			c      cid.Cid
			nonce  string
			typ    string
		}
		var items []item
		wr := container.NewWriter()
		for k := 0; k < nd+ni; k++ {
			typ := "dlg"
			if k >= nd {
				typ = "inv"
			}
			s := gen.RandomSpec(r, typ, gen.SpecOpts{Issuer: gen.Ed(it + k), Minimal: true, NoBig: true})
			tk, err := s.Build()
			if err != nil {
				continue
			}
			sealed, _, err := tk.ToSealed(s.Iss.Priv)
			if err != nil {
				continue
			}
			var nonce []byte
			switch x := tk.(type) {
			case *delegation.Token:
				nonce = x.Nonce()
			case *invocation.Token:
				nonce = x.Nonce()
			}
			c := ref.CID(sealed)
			items = append(items, item{sealed, c, string(nonce), typ})
			wr.AddSealed(c, sealed)
		}
		byNonce := map[string]item{}
		for _, x := range items {
			byNonce[x.nonce] = x
		}
		for f := 0; f < 4; f++ {
			var rd container.Reader
			var err error
			switch f {
			case 0:
				var b []byte
				if b, err = wr.ToCbor(); err == nil {
					rd, err = container.FromCbor(b)
				}
			case 1:
				var b []byte
				if b, err = wr.ToCar(); err == nil {
					rd, err = container.FromCar(b)
				}
			case 2:
				var b []byte
				if b, err = wr.ToCborBase64(); err == nil {
					rd, err = container.FromCborBase64(b)
				}
			default:
				var b []byte
				if b, err = wr.ToCarBase64(); err == nil {
					rd, err = container.FromCarBase64(b)
				}
			}
			if err != nil {
				w.Count("container-roundtrip-fails(judged by C17)", 1)
				continue
			}
			w.Cover("cid/mixed-container")
			w.Distinct("mixed", it, f)
			bad := func(how string, got cid.Cid, nonce []byte) {
				want, ok := byNonce[string(nonce)]
				w.Eval(1)
				if !ok {
					w.Count("container-foreign-token(judged by C17)", 1)
					return
				}
				if !got.Equals(want.c) {
					w.Violate("cid/container-accessor/"+how, fmt.Sprintf("%s of a %s container holding %d delegations and %d invocations hands a token out under CID %s; its sealed bytes hash to %s", how, containerNames[f], nd, ni, got, want.c),
						map[string]any{"accessor": how, "format": containerNames[f], "delegations": nd, "invocations": ni, "reported_cid": got.String(), "cid_of_sealed_bytes": want.c.String(), "sealed_hex": mon.Hex(capBytes(want.sealed, 2048))})
				}
			}
			for c, d := range rd.GetAllDelegations() {
				bad("GetAllDelegations", c, d.Nonce())
			}
			for c, i := range rd.GetAllInvocations() {
				bad("GetAllInvocations", c, i.Nonce())
			}
			for _, x := range items {
				if t, err := rd.GetToken(x.c); err == nil {
					switch y := t.(type) {
					case *delegation.Token:
						bad("GetToken", x.c, y.Nonce())
					case *invocation.Token:
						bad("GetToken", x.c, y.Nonce())
					}
				} else {
					w.Count("container-token-missing(judged by C17)", 1)
				}
				if x.typ == "dlg" {
					if d, err := rd.GetDelegation(x.c); err == nil {
						bad("GetDelegation", x.c, d.Nonce())
					}
				}
			}
		}
	}
}

// c08EverySize: a token of EVERY sealed size in a range (the padding lives in a metadata string):
// the CID reported by the buffered and by the streaming unseal - typed and generic - is the
// content address of the bytes, at every length. (Framing conventions, length prefixes and
// buffer sizes make particular lengths special; which ones is not knowable from outside.)
func c08EverySize(w *mon.W) {
	lo, hi := 300, w.Pick(12400, 70000)
	for size := lo; size <= hi; size++ {
		if !w.Mine(size) {
			continue
		}
		typ := []string{"dlg", "inv"}[size%2]
		sealed, ok := exactSizeToken(typ, size, false)
		if !ok {
			w.Count("every-size/not-built", 1)
			continue
		}
		want := ref.CID(sealed)
		w.Cover("every-size")
		for _, d := range c08Decoders(typ) {
			_, c, err := d.f(sealed)
			w.Eval(1)
			if err != nil {
				w.Violate("every-size/unseal-fails/"+d.name, fmt.Sprintf("%s fails on a sealed %s of exactly %d bytes that the library itself produced: %v", d.name, typ, size, err),
					map[string]any{"size": size, "type": typ, "decoder": d.name, "error": err.Error(), "sealed_head_hex": mon.Hex(capBytes(sealed, 64))})
				continue
			}
			if !c.Equals(want) {
				w.Violate("every-size/cid-differs/"+d.name, fmt.Sprintf("%s reports CID %s for a sealed %s of exactly %d bytes; the bytes hash to %s", d.name, c, typ, size, want),
					map[string]any{"size": size, "type": typ, "decoder": d.name})
			}
		}
		if size%64 == 0 {
			w.Distinct("every-size", size)
			c08Trailing(w, typ, size, sealed)
		}
	}
	// ... and at the sizes where buffers and limits usually sit
	for i, size := range []int{1 << 10, 1 << 12, 1 << 16, 1 << 20, 1<<20 + 1, 1<<16 - 1} {
		if !w.Mine(i) {
			continue
		}
		for _, typ := range []string{"dlg", "inv"} {
			if sealed, ok := exactSizeToken(typ, size, false); ok {
				w.Cover("trailing-bytes/power-of-two-size")
				c08Trailing(w, typ, size, sealed)
				want := ref.CID(sealed)
				for _, d := range c08Decoders(typ) {
					if _, c, err := d.f(sealed); err != nil || !c.Equals(want) {
						w.Violate("every-size/unseal-fails/"+d.name, fmt.Sprintf("%s on a sealed %s of exactly %d bytes: err=%v cid=%s (bytes hash to %s)", d.name, typ, size, err, c, want), map[string]any{"size": size, "type": typ, "decoder": d.name})
					}
				}
			}
		}
	}
}

// c08Trailing: a sealed token followed by more bytes is not a sealed token - for the buffered
// API and for the streaming one alike (no CID of a prefix).
func c08Trailing(w *mon.W, typ string, size int, sealed []byte) {
	for _, tail := range [][]byte{{0x00}, {0xff}, sealed[:1], bytes.Repeat([]byte{0x20}, 64)} {
		in := append(append([]byte{}, sealed...), tail...)
		for _, d := range c08Decoders(typ) {
			t, c, err := d.f(in)
			w.Eval(1)
			w.Cover("trailing-bytes")
			if err == nil && t != nil {
				w.Violate("trailing-bytes-accepted/"+d.name, fmt.Sprintf("%s accepts a sealed %s of %d bytes followed by %d more bytes and reports CID %s (the CID of the %d-byte prefix is %s)", d.name, typ, size, len(tail), c, size, ref.CID(sealed)),
					map[string]any{"size": size, "type": typ, "decoder": d.name, "trailing_hex": mon.Hex(capBytes(tail, 16)), "reported_cid": c.String(), "cid_of_whole_input": ref.CID(in).String()})
			}
		}
	}
}
