package props

import (
	"bytes"
	"fmt"
	"io"
	"sort"
	"strings"
	"sync"
	"time"

	"github.com/ipfs/go-cid"
	"github.com/ipld/go-ipld-prime/datamodel"

	"github.com/ucan-wg/go-ucan/pkg/args"
	"github.com/ucan-wg/go-ucan/pkg/container"
	"github.com/ucan-wg/go-ucan/pkg/meta"
	"github.com/ucan-wg/go-ucan/token"
	"github.com/ucan-wg/go-ucan/token/delegation"
	"github.com/ucan-wg/go-ucan/token/invocation"

	"verifharness/chain"
	"verifharness/gen"
	"verifharness/mon"
	"verifharness/ref"
)

func init() {
	register(&mon.Prop{
		ID:    "C20",
		Level: "exploration",
		Rule: "tokens: invocations with k in {0,1,2,5,50,300} arguments and metadata entries inserted in random (unsorted) order, their proof-chain delegations with policies, shared through one loader; constructed and decoded instances. " +
			"Phase A (schedule-independent): every read-only operation (ExecutionAllowed, ...WithArgsHook, ToSealed, ToSealedWriter, ToDagCbor, ToDagJson, Arguments().{Iter,String,ToIPLD,Equals,GetNode,WriteableClone}, Meta().{Iter,String,Get*,Equals,WriteableClone}, Policy().String, accessors, IsValidAt/Now, container AddSealed+ToCbor) is run alone between two deep snapshots of the token taken through its accessors, including the iteration order of argument and metadata keys; the snapshots must be identical. " +
			"Phase B (race build, GORACE halt_on_error=0 log_path): G in {2,4,16,64} goroutines x random operation mixes on the same tokens, repeated with different seeds; every data-race report with a go-ucan frame is a violation (de-duplicated by the pair of innermost go-ucan frames); every concurrent result must be equivalent to the baseline computed on a private copy decoded from the same sealed bytes. The evidence counts operations, goroutines and the distinct (opA,opB) pairs that actually overlapped in time on the same token. " +
			"non-trivial = operation on a token with >=2 arguments or metadata entries; distinct = (token shape, operation) in phase A, (opA, opB, token shape) overlapping pairs in phase B.",
		Assumptions: []string{
			"'for every interleaving' is restated as: the interleavings the stress runs produced (counted) plus the race detector's happens-before analysis, which does not need the racy accesses to overlap in time, plus the schedule-independent snapshot oracle",
			"randomised outputs are normalised before comparison (sealed output -> decoded fields; Meta.String -> sorted lines, because it ranges over a Go map even when run alone)",
		},
		Shards:          shards(2, 4),
		RaceShards:      shards(2, 8),
		RaceIsViolation: true,
		Run:             runC20,
		MinEvals:        floor(20000, 300000),
		MinDistinct:     floor(150, 400),
		RequiredCells: func(string) []string {
			cells := []string{"pristine/phaseA", "pristine/phaseB", "phaseB/sibling-burst", "token/proofs-root-first", "phaseA", "phaseB", "phaseB/race-build", "overlap/same-token", "token/constructed", "token/decoded", "k=0", "k=1", "k=2", "k=5", "k=50", "k=300", "G=2", "G=4", "G=16", "G=64"}
			for _, o := range c20OpNames() {
				cells = append(cells, "op/"+o)
			}
			return cells
		},
		ShardTimeout: func(tier string) time.Duration {
			if tier == "thorough" {
				return 60 * time.Minute
			}
			return 15 * time.Minute
		},
	})
}

// c20Shared is one invocation with its chain, shared by all goroutines.
type c20Shared struct {
	k        int
	decoded  bool
	inv      *invocation.Token
	dlgs     []*delegation.Token
	loader   delegation.Loader
	priv     *gen.Principal
	dlgPrivs []*gen.Principal
	sealed   []byte
	invCid   cid.Cid
	dlgSeal  [][]byte
	// sibs: further invocations over the SAME proofs (the same delegation objects behind the same
	// loader) with other argument values - one the policies still accept, one they refuse
	sibs []*invocation.Token
	// baseline (private copy)
	base *c20Shared
}

// c20ForeignKey: a principal of the same algorithm as p, but another one.
func c20ForeignKey(p *gen.Principal) *gen.Principal {
	for _, q := range gen.ByAlg(p.Alg) {
		if q != p && q.DID != p.DID {
			return q
		}
	}
	return gen.Ed(0)
}

type kvSnap struct {
	K string
	V string
}

func iterSnap(it func(func(string, datamodel.Node) bool)) []kvSnap {
	var out []kvSnap
	it(func(k string, n datamodel.Node) bool {
		v, err := ref.FromNode(n)
		s := v.String()
		if err != nil {
			s = "<" + err.Error() + ">"
		}
		out = append(out, kvSnap{k, s})
		return true
	})
	return out
}

// snapshot reads the whole token through its accessors, keeping iteration orders.
func snapshotInv(t *invocation.Token) string {
	var b strings.Builder
	fmt.Fprintf(&b, "iss=%s sub=%s aud=%s cmd=%s nonce=%x exp=%v iat=%v cause=%v prf=%v\n", t.Issuer(), t.Subject(), t.Audience(), t.Command(), t.Nonce(), tptr(t.Expiration()), tptr(t.InvokedAt()), t.Cause(), t.Proof())
	fmt.Fprintf(&b, "args=%v\n", iterSnap(t.Arguments().Iter()))
	fmt.Fprintf(&b, "meta=%v\n", iterSnap(t.Meta().Iter()))
	return b.String()
}

func snapshotDlg(t *delegation.Token) string {
	var b strings.Builder
	fmt.Fprintf(&b, "iss=%s sub=%s aud=%s cmd=%s nonce=%x exp=%v nbf=%v npol=%d\n", t.Issuer(), t.Subject(), t.Audience(), t.Command(), t.Nonce(), tptr(t.Expiration()), tptr(t.NotBefore()), len(t.Policy()))
	fmt.Fprintf(&b, "meta=%v\n", iterSnap(t.Meta().Iter()))
	return b.String()
}

func tptr(t *time.Time) string {
	if t == nil {
		return "-"
	}
	return fmt.Sprint(t.UnixNano())
}

func tsec(t *time.Time) string {
	if t == nil {
		return "-"
	}
	return fmt.Sprint(t.Unix())
}

func (s *c20Shared) snapshot() string {
	out := snapshotInv(s.inv)
	for _, d := range s.dlgs {
		out += snapshotDlg(d)
	}
	return out
}

func c20Build(w *mon.W, k int, decoded bool) *c20Shared {
	r := w.Rng
	n := 1 + r.IntN(3)
	if k == 2 {
		n = 2 + r.IntN(2)
	}
	sc := chain.Conformant(r, n, 10)
	// arguments: k entries with keys in random, unsorted order
	argsV := ref.V{K: ref.KMap, M: []ref.KV{}}
	for _, i := range r.Perm(k) {
		argsV.M = append(argsV.M, ref.KV{K: fmt.Sprintf("key%03d", i), V: gen.Value(r, 1, gen.ValOpts{NoNull: true})})
	}
	// two list-valued arguments of a length that varies from token to token
	items := ref.V{K: ref.KList, L: []ref.V{}}
	for i := 0; i < 2+r.IntN(6); i++ {
		items.L = append(items.L, ref.Int(int64(1+r.IntN(5))))
	}
	// (the three are added in ascending ALPHABETICAL order, which is not the shortest-first order
	// of the canonical encoding: with few or no other keys the token's key list is 'already
	// sorted' in one sense and not in the other)
	argsV.M = append(argsV.M, ref.KV{K: "zitems", V: items},
		// a map-valued argument whose keys come in another order alphabetically than length-first
		// (written here in the length-first order a decoder gives them, so that a constructed token and
		// its decoded copy print alike)
		ref.KV{K: "zmap", V: ref.Map(ref.E("b", ref.Int(1)), ref.E("c", ref.Map(ref.E("z", ref.Int(1)), ref.E("yy", ref.List(ref.Map(ref.E("k", ref.Int(1)), ref.E("jj", ref.Int(2))))))), ref.E("aa", ref.Int(2)))},
		ref.KV{K: "ztext", V: ref.Str("héllo wörld, " + fmt.Sprint(k))})
	sc.Args = argsV
	// policies over the arguments on every link (true statements)
	var paths []gen.Path
	gen.Paths(argsV, nil, &paths, 2)
	for i := range sc.Links {
		for j := 0; j < 2 && k > 0; j++ {
			if st, ok := gen.StmtWithTruth(r, argsV, paths, 1, true); ok {
				sc.Links[i].Pol = append(sc.Links[i].Pol, st)
			}
		}
	}
	// statements whose selectors carry open / negative slice bounds (resolved against the
	// length of whatever they are applied to)
	open1, neg2 := ref.I64(1), ref.I64(-2)
	for i := range sc.Links {
		sc.Links[i].Pol = append(sc.Links[i].Pol,
			ref.Stmt{Kind: "all", Sel: ref.Sel{{Kind: ref.SField, Name: "zitems"}, {Kind: ref.SSlice, Lo: open1}}, Subs: []ref.Stmt{{Kind: ">", Sel: ref.Sel{}, Val: ref.Int(0)}}},
			ref.Stmt{Kind: "any", Sel: ref.Sel{{Kind: ref.SField, Name: "zitems"}, {Kind: ref.SSlice, Lo: neg2}}, Subs: []ref.Stmt{{Kind: ">=", Sel: ref.Sel{}, Val: ref.Int(1)}}},
			ref.Stmt{Kind: "like", Sel: ref.Sel{{Kind: ref.SField, Name: "ztext"}, {Kind: ref.SSlice, Hi: ref.I64(-3)}}, Pat: "h*"},
			// a pattern that makes the matcher work (and backtrack) on long values
			ref.Stmt{Kind: "like", Sel: ref.Sel{{Kind: ref.SField, Name: "ztext"}}, Pat: "h*l*l*l*l*d*"},
		)
	}
	b, err := sc.Build(r)
	if err != nil {
		w.Inconclusive("C20 scenario could not be built: " + err.Error())
		return nil
	}
	// rebuild the invocation with metadata entries in random order as well
	opts := []invocation.Option{}
	a := args.New()
	for _, e := range argsV.M { // insertion order = the random order above
		if err := a.Add(e.K, e.V.Node()); err != nil {
			w.Inconclusive("C20 args: " + err.Error())
			return nil
		}
	}
	opts = append(opts, invocation.WithArguments(a))
	for _, i := range r.Perm(k) {
		opts = append(opts, invocation.WithMeta(fmt.Sprintf("m%03d", i), int64(i)))
	}
	if k > 0 {
		opts = append(opts, invocation.WithEncryptedMetaString("secret", "s3cr3t", bytes.Repeat([]byte{7}, 32)))
		// values long enough for a printer to abbreviate
		opts = append(opts, invocation.WithMeta("blob", bytes.Repeat([]byte{0xab, 0xcd, 0xef, 0x01}, 40)),
			invocation.WithMeta("text", strings.Repeat("long metadata text ", 12)),
			invocation.WithEncryptedMetaString("secret-long", strings.Repeat("a longer secret, ", 8), bytes.Repeat([]byte{7}, 32)))
	}
	prf := b.Cids
	if k == 2 && len(prf) > 1 {
		// one token in six lists its proofs root first: whatever a check makes of that, it leaves
		// the token as it is
		prf = append([]cid.Cid{}, b.Cids...)
		for i, j := 0, len(prf)-1; i < j; i, j = i+1, j-1 {
			prf[i], prf[j] = prf[j], prf[i]
		}
		w.Cover("token/proofs-root-first")
	}
	inv, err := invocation.New(sc.Invoker.DID, sc.Subject.DID, b.Inv.Command(), prf, opts...)
	if err != nil {
		w.Inconclusive("C20 invocation: " + err.Error())
		return nil
	}
	sealed, c, err := inv.ToSealed(sc.Invoker.Priv)
	if err != nil {
		w.Inconclusive("C20 seal: " + err.Error())
		return nil
	}
	s := &c20Shared{k: k, decoded: decoded, inv: inv, dlgs: b.Dlgs, loader: b.Loader, priv: sc.Invoker, sealed: sealed, invCid: c, dlgSeal: b.Sealed}
	// sibling invocations over the same proofs: a long text that the like statements accept after
	// some work, and one they refuse after more work
	for si, txt := range []string{"h" + strings.Repeat("l", 20000) + "d, " + fmt.Sprint(k), "h" + strings.Repeat("l", 20000) + fmt.Sprint(k)} {
		sa := args.New()
		for _, e := range argsV.M {
			v := e.V
			if e.K == "ztext" {
				v = ref.Str(txt)
			}
			if err := sa.Add(e.K, v.Node()); err != nil {
				w.Inconclusive("C20 sibling args: " + err.Error())
				return nil
			}
		}
		sib, err := invocation.New(sc.Invoker.DID, sc.Subject.DID, b.Inv.Command(), b.Cids, invocation.WithArguments(sa), invocation.WithMeta("sibling", int64(si)))
		if err != nil {
			w.Inconclusive("C20 sibling invocation: " + err.Error())
			return nil
		}
		s.sibs = append(s.sibs, sib)
	}
	for _, l := range sc.Links {
		s.dlgPrivs = append(s.dlgPrivs, l.Iss)
	}
	if len(prf) > 1 && !prf[0].Equals(b.Cids[0]) {
		// (root-first variant: the bookkeeping follows the order of the token's proof list)
		rev := func(n int, swap func(i, j int)) {
			for i, j := 0, n-1; i < j; i, j = i+1, j-1 {
				swap(i, j)
			}
		}
		s.dlgs = append([]*delegation.Token{}, s.dlgs...)
		s.dlgSeal = append([][]byte{}, s.dlgSeal...)
		rev(len(s.dlgs), func(i, j int) { s.dlgs[i], s.dlgs[j] = s.dlgs[j], s.dlgs[i] })
		rev(len(s.dlgPrivs), func(i, j int) { s.dlgPrivs[i], s.dlgPrivs[j] = s.dlgPrivs[j], s.dlgPrivs[i] })
		rev(len(s.dlgSeal), func(i, j int) { s.dlgSeal[i], s.dlgSeal[j] = s.dlgSeal[j], s.dlgSeal[i] })
	}
	if decoded {
		d, _, err := invocation.FromSealed(sealed)
		if err != nil {
			w.Inconclusive("C20 unseal: " + err.Error())
			return nil
		}
		s.inv = d
		// delegations decoded through a container reader, which then is the loader
		wr := container.NewWriter()
		for i := range b.Dlgs {
			wr.AddSealed(b.Cids[i], b.Sealed[i])
		}
		cb, err := wr.ToCbor()
		if err != nil {
			return nil
		}
		rd, err := container.FromCbor(cb)
		if err != nil {
			w.Inconclusive("C20 container: " + err.Error())
			return nil
		}
		s.loader = rd
		s.dlgs = nil
		for _, pc := range s.inv.Proof() {
			dl, err := rd.GetDelegation(pc)
			if err != nil {
				w.Inconclusive("C20 loader: " + err.Error())
				return nil
			}
			s.dlgs = append(s.dlgs, dl)
		}
	}
	return s
}

// private returns a private, never shared copy of the same tokens for baselines: a
// constructed token cannot be cloned through the API, so the private copy of a
// constructed token is a second construction with identical options - here we simply keep
// the original construction order recorded in its snapshot taken before any operation.
func (s *c20Shared) privateCopy(w *mon.W) *c20Shared {
	d, _, err := invocation.FromSealed(s.sealed)
	if err != nil {
		return nil
	}
	p := *s
	p.inv = d
	// private delegations too: decoded afresh from the sealed bytes, behind a private loader
	ml := &chain.MapLoader{M: map[cid.Cid]*delegation.Token{}, Errs: map[cid.Cid]bool{}}
	p.dlgs = nil
	for _, sb := range s.dlgSeal {
		dl, c, err := delegation.FromSealed(sb)
		if err != nil {
			return nil
		}
		ml.M[c] = dl
	}
	for _, pc := range d.Proof() {
		dl, ok := ml.M[pc]
		if !ok {
			return nil
		}
		p.dlgs = append(p.dlgs, dl)
	}
	p.loader = ml
	return &p
}

type c20Op struct {
	name string
	// run returns a normalised result string
	run func(s *c20Shared) string
}

func c20OpNames() []string {
	var out []string
	for _, o := range c20Ops() {
		out = append(out, o.name)
	}
	return out
}

func sortedLines(s string) string {
	l := strings.Split(s, "\n")
	sort.Strings(l)
	return strings.Join(l, "\n")
}

func c20Ops() []c20Op {
	errS := func(err error) string {
		if err == nil {
			return "ok"
		}
		return "err:" + classifyErr(err)
	}
	decodedFields := func(b []byte, err error) string {
		if err != nil {
			return "err:" + err.Error()
		}
		t, _, err := token.FromSealed(b)
		if err != nil {
			return "undecodable:" + err.Error()
		}
		return gen.Fields(t).String()
	}
	return []c20Op{
		{"ExecutionAllowed", func(s *c20Shared) string { return errS(s.inv.ExecutionAllowed(s.loader)) }},
		{"ExecutionAllowedWithArgsHook", func(s *c20Shared) string {
			return errS(s.inv.ExecutionAllowedWithArgsHook(s.loader, func(a args.ReadOnly) (*args.Args, error) { return a.WriteableClone(), nil }))
		}},
		{"ExecutionAllowed(sibling invocation, accepted)", func(s *c20Shared) string { return errS(s.sibs[0].ExecutionAllowed(s.loader)) }},
		{"ExecutionAllowed(sibling invocation, refused)", func(s *c20Shared) string { return errS(s.sibs[1].ExecutionAllowed(s.loader)) }},
		{"ToSealed", func(s *c20Shared) string { b, _, err := s.inv.ToSealed(s.priv.Priv); return decodedFields(b, err) }},
		{"ToSealedWriter", func(s *c20Shared) string {
			var buf bytes.Buffer
			_, err := s.inv.ToSealedWriter(&buf, s.priv.Priv)
			return decodedFields(buf.Bytes(), err)
		}},
		{"ToDagCbor", func(s *c20Shared) string { b, err := s.inv.ToDagCbor(s.priv.Priv); return decodedFields(b, err) }},
		{"ToDagJson", func(s *c20Shared) string {
			b, err := s.inv.ToDagJson(s.priv.Priv)
			if err != nil {
				return "err:" + err.Error()
			}
			t, err := token.FromDagJson(b)
			if err != nil {
				return "undecodable:" + err.Error()
			}
			return gen.Fields(t).String()
		}},
		{"Args.Iter", func(s *c20Shared) string { return fmt.Sprint(iterSnap(s.inv.Arguments().Iter())) }},
		{"Args.String", func(s *c20Shared) string { return s.inv.Arguments().String() }},
		{"Args.ToIPLD", func(s *c20Shared) string {
			n, err := s.inv.Arguments().ToIPLD()
			if err != nil {
				return "err:" + err.Error()
			}
			v, _ := ref.FromNode(n)
			return v.String()
		}},
		{"Args.Equals", func(s *c20Shared) string { return fmt.Sprint(s.inv.Arguments().Equals(s.inv.Arguments())) }},
		{"Args.GetNode", func(s *c20Shared) string {
			n, err := s.inv.Arguments().GetNode("key000")
			if err != nil {
				return "err"
			}
			v, _ := ref.FromNode(n)
			return v.String()
		}},
		{"Args.WriteableClone", func(s *c20Shared) string {
			c := s.inv.Arguments().WriteableClone()
			_ = c.Add("added-to-clone", 1)
			return fmt.Sprint(len(c.Keys) - 1)
		}},
		{"Meta.Iter", func(s *c20Shared) string { return fmt.Sprint(iterSnap(s.inv.Meta().Iter())) }},
		{"Meta.String", func(s *c20Shared) string { return sortedLines(s.inv.Meta().String()) }},
		{"Meta.Get", func(s *c20Shared) string {
			m := s.inv.Meta()
			i, e1 := m.GetInt64("m000")
			_, e2 := m.GetString("m000")
			sec, e3 := m.GetEncryptedString("secret", bytes.Repeat([]byte{7}, 32))
			_, e4 := m.GetNode("nope")
			return fmt.Sprint(i, e1 == nil, e2 == nil, sec, e3 == nil, e4 == nil)
		}},
		{"Meta.Equals", func(s *c20Shared) string { return fmt.Sprint(s.inv.Meta().Equals(s.inv.Meta())) }},
		{"Meta.WriteableClone", func(s *c20Shared) string {
			c := s.inv.Meta().WriteableClone()
			_ = c.Add("added-to-clone", 1)
			return fmt.Sprint(len(c.Keys) - 1)
		}},
		{"Accessors", func(s *c20Shared) string {
			t := s.inv
			return fmt.Sprint(t.Issuer(), t.Subject(), t.Audience(), t.Command(), len(t.Proof()), len(t.Nonce()), tsec(t.Expiration()), tsec(t.InvokedAt()), t.Cause())
		}},
		{"IsValidAt", func(s *c20Shared) string {
			return fmt.Sprint(s.inv.IsValidAt(time.Unix(0, 0)), s.inv.IsValidNow(), s.dlgs[0].IsValidAt(time.Unix(1<<40, 0)), s.dlgs[0].IsValidNow())
		}},
		{"Delegation.ToSealed", func(s *c20Shared) string {
			i := len(s.dlgs) - 1
			b, _, err := s.dlgs[i].ToSealed(s.dlgPrivs[i].Priv)
			return decodedFields(b, err)
		}},
		// sealing with a key that is not the issuer's fails - always, also on a token that was just
		// sealed with the right key (by this goroutine or another one)
		{"Delegation.ToSealed(foreign key)", func(s *c20Shared) string {
			i := len(s.dlgs) - 1
			_, _, err := s.dlgs[i].ToSealed(c20ForeignKey(s.dlgPrivs[i]).Priv)
			return fmt.Sprint("refused=", err != nil)
		}},
		{"ToSealed(foreign key)", func(s *c20Shared) string {
			_, _, err := s.inv.ToSealed(c20ForeignKey(s.priv).Priv)
			return fmt.Sprint("refused=", err != nil)
		}},
		{"ToDagJson(foreign key)", func(s *c20Shared) string {
			_, err := s.inv.ToDagJson(c20ForeignKey(s.priv).Priv)
			_, err2 := s.dlgs[0].ToDagJson(c20ForeignKey(s.dlgPrivs[0]).Priv)
			return fmt.Sprint("refused=", err != nil, err2 != nil)
		}},
		{"Delegation.ToDagJson", func(s *c20Shared) string {
			b, err := s.dlgs[0].ToDagJson(s.dlgPrivs[0].Priv)
			if err != nil {
				return "err:" + err.Error()
			}
			return fmt.Sprint(len(b) > 0)
		}},
		{"Delegation.Policy.String", func(s *c20Shared) string { return s.dlgs[0].Policy().String() }},
		{"Delegation.Policy.Match", func(s *c20Shared) string {
			n, err := s.inv.Arguments().ToIPLD()
			if err != nil {
				return "err"
			}
			ok, _ := s.dlgs[0].Policy().Match(n)
			return fmt.Sprint(ok)
		}},
		{"Delegation.Policy.Match(other-lengths)", func(s *c20Shared) string {
			out := ""
			for _, n := range []int{2, 9, 4} {
				l := ref.V{K: ref.KList, L: []ref.V{}}
				for i := 0; i < n; i++ {
					l.L = append(l.L, ref.Int(int64(i%3))) // contains zeros beyond the first element
				}
				data := ref.Map(ref.E("zitems", l), ref.E("ztext", ref.Str(strings.Repeat("h", n+3))))
				for _, d := range s.dlgs {
					ok, _ := d.Policy().Match(data.Node())
					pk, _ := d.Policy().PartialMatch(data.Node())
					out += fmt.Sprint(n, ok, pk, ";")
				}
			}
			return out
		}},
		{"Delegation.Meta+Accessors", func(s *c20Shared) string {
			d := s.dlgs[0]
			return fmt.Sprint(d.Issuer(), d.Audience(), d.Subject(), d.Command(), len(d.Nonce()), d.Meta().String(), iterSnap(d.Meta().Iter()))
		}},
		{"Container.AddSealed+ToCbor", func(s *c20Shared) string {
			wr := container.NewWriter()
			wr.AddSealed(s.invCid, s.sealed)
			b, err := wr.ToCbor()
			if err != nil {
				return "err"
			}
			rd, err := container.FromCbor(b)
			if err != nil {
				return "err:" + err.Error()
			}
			return fmt.Sprint(len(rd))
		}},
		{"ToSealedWriter(discard)", func(s *c20Shared) string {
			_, err := s.inv.ToSealedWriter(io.Discard, s.priv.Priv)
			return errS(err)
		}},
	}
}

var _ = meta.ErrNotFound

type c20Event struct {
	op     int
	tok    int
	t0, t1 int64
}

func runC20(w *mon.W) {
	r := w.Rng
	ops := c20Ops()
	ks := []int{0, 1, 2, 5, 50, 300}
	c20Pristine(w)
	// ---------------- Phase A
	for rep := 0; rep < w.Pick(2, 6); rep++ {
		for _, k := range ks {
			for _, decoded := range []bool{false, true} {
				s := c20Build(w, k, decoded)
				if s == nil {
					continue
				}
				w.Cover(fmt.Sprintf("k=%d", k))
				if decoded {
					w.Cover("token/decoded")
				} else {
					w.Cover("token/constructed")
				}
				for _, oi := range r.Perm(len(ops)) {
					o := ops[oi]
					before := s.snapshot()
					var res string
					pi := mon.Guard(func() { res = o.run(s) })
					after := s.snapshot()
					w.Eval(1)
					w.Cover("phaseA")
					w.Cover("op/" + o.name)
					if k >= 2 {
						w.Distinct("A", k, decoded, o.name)
					}
					if pi != nil {
						w.Violate("phaseA/panic/"+o.name, fmt.Sprintf("read-only operation %s panicked: %s", o.name, pi.Value), map[string]any{"op": o.name, "k": k, "decoded": decoded, "stack": pi.Stack})
						continue
					}
					if before != after {
						w.Violate("phaseA/mutated-by/"+o.name, fmt.Sprintf("the token changed across the read-only operation %s (k=%d, decoded=%v): %s", o.name, k, decoded, firstDiff(before, after)),
							map[string]any{"op": o.name, "k": k, "decoded": decoded, "snapshot_before": mon.Trunc(before, 3000), "snapshot_after": mon.Trunc(after, 3000), "result": mon.Trunc(res, 300)})
						// rebuild so that later operations start from a pristine token
						if s2 := c20Build(w, k, decoded); s2 != nil {
							s = s2
						}
					}
				}
				if w.WantSample() && k == 5 {
					w.Sample(map[string]any{"k": k, "decoded": decoded, "operations": len(ops), "snapshot": mon.Trunc(s.snapshot(), 800)})
				}
			}
		}
	}

	// ---------------- Phase B
	if w.Race {
		w.Cover("phaseB/race-build")
	}
	rounds := w.Pick(3, 10)
	for round := 0; round < rounds; round++ {
		for _, G := range []int{2, 4, 16, 64} {
			// shared tokens for this round
			var toks []*c20Shared
			var bases []*c20Shared
			for _, k := range ks {
				s := c20Build(w, k, (round+k)%2 == 0)
				if s == nil {
					continue
				}
				b := s.privateCopy(w)
				if b == nil {
					continue
				}
				toks = append(toks, s)
				bases = append(bases, b)
			}
			if len(toks) == 0 {
				continue
			}
			// baselines from the private copies, sequentially. The private copy of a
			// constructed invocation is a decoded one: its key order is the canonical one,
			// so order-bearing baselines (Iter) are taken from a pristine snapshot instead.
			baseline := make([][]string, len(toks))
			for ti := range toks {
				baseline[ti] = make([]string, len(ops))
				for oi, o := range ops {
					src := bases[ti]
					if o.name == "Args.Iter" || o.name == "Meta.Iter" || o.name == "Args.WriteableClone" || o.name == "Meta.WriteableClone" {
						// order-bearing: compute on the pristine shared token before the storm starts
						src = toks[ti]
					}
					pi := mon.Guard(func() { baseline[ti][oi] = o.run(src) })
					if pi != nil {
						baseline[ti][oi] = "panic:" + pi.Value
					}
				}
			}
			// NB: computing the order-bearing baselines above ran only Iter / WriteableClone on the
			// shared tokens, which phase A shows to be non-mutating on a correct tree; if they do
			// mutate, phase A reports it.
			iters := w.Pick(60, 150)
			if G >= 16 {
				iters = w.Pick(25, 60)
			}
			events := make([][]c20Event, G)
			mism := make([][]string, G)
			var wg sync.WaitGroup
			start := make(chan struct{})
			seeds := make([]uint64, G)
			for g := range seeds {
				seeds[g] = r.Uint64()
			}
			t00 := time.Now()
			for g := 0; g < G; g++ {
				wg.Add(1)
				go func(g int) {
					defer wg.Done()
					x := seeds[g]
					next := func(n int) int {
						x ^= x << 13
						x ^= x >> 7
						x ^= x << 17
						return int(x % uint64(n))
					}
					<-start
					for i := 0; i < iters; i++ {
						ti := next(len(toks))
						if next(3) > 0 {
							ti = (g / 2) % len(toks) // make goroutine pairs collide on one token
						}
						oi := next(len(ops))
						t0 := time.Since(t00).Nanoseconds()
						var res string
						pi := mon.Guard(func() { res = ops[oi].run(toks[ti]) })
						t1 := time.Since(t00).Nanoseconds()
						events[g] = append(events[g], c20Event{oi, ti, t0, t1})
						if pi != nil {
							res = "panic:" + pi.Value
						}
						if res != baseline[ti][oi] && len(mism[g]) < 5 {
							mism[g] = append(mism[g], fmt.Sprintf("%s on token k=%d: concurrent result %s, alone %s", ops[oi].name, toks[ti].k, mon.Trunc(res, 400), mon.Trunc(baseline[ti][oi], 400)))
							mism[g] = append(mism[g], ops[oi].name)
						}
					}
				}(g)
			}
			close(start)
			wg.Wait()
			// a burst on the sibling invocations alone: two questions with different answers put to
			// the same statements of the same delegation objects at the same time
			if G == 16 {
				siOps := []int{}
				for oi, o := range ops {
					if strings.HasPrefix(o.name, "ExecutionAllowed(sibling") {
						siOps = append(siOps, oi)
					}
				}
				var bw sync.WaitGroup
				bmism := make([]string, 8)
				for g := 0; g < 8; g++ {
					bw.Add(1)
					go func(g int) {
						defer bw.Done()
						for i := 0; i < w.Pick(12, 40); i++ {
							ti := (g / 4) % len(toks)
							oi := siOps[(g+i)%len(siOps)]
							var res string
							if pi := mon.Guard(func() { res = ops[oi].run(toks[ti]) }); pi != nil {
								res = "panic:" + pi.Value
							}
							if res != baseline[ti][oi] && bmism[g] == "" {
								bmism[g] = fmt.Sprintf("%s on token k=%d: concurrent result %s, alone %s", ops[oi].name, toks[ti].k, mon.Trunc(res, 300), mon.Trunc(baseline[ti][oi], 300))
							}
						}
					}(g)
				}
				bw.Wait()
				w.Cover("phaseB/sibling-burst")
				for _, m := range bmism {
					if m != "" {
						w.Violate("phaseB/result-differs/sibling-burst", "two invocations with different arguments checked at the same time over the same delegation objects: "+m, map[string]any{"detail": m, "race_build": w.Race})
						break
					}
				}
			}
			w.Cover(fmt.Sprintf("G=%d", G))
			w.Cover("phaseB")
			for g := 0; g < G; g++ {
				w.Eval(len(events[g]))
				for i := 0; i+1 < len(mism[g]); i += 2 {
					w.Violate("phaseB/result-differs/"+mism[g][i+1], "a read-only operation run concurrently returned a result that differs from the one it returns alone: "+mism[g][i],
						map[string]any{"goroutines": G, "detail": mism[g][i], "race_build": w.Race})
				}
			}
			// overlap accounting
			var all []c20Event
			for g := range events {
				all = append(all, events[g]...)
			}
			sort.Slice(all, func(i, j int) bool { return all[i].t0 < all[j].t0 })
			overlaps := 0
			for i := range all {
				for j := i + 1; j < len(all) && all[j].t0 < all[i].t1; j++ {
					if all[i].tok == all[j].tok {
						a, b := all[i].op, all[j].op
						if a > b {
							a, b = b, a
						}
						w.Distinct("B", ops[a].name, ops[b].name, toks[all[i].tok].k)
						overlaps++
					}
				}
			}
			w.Count("overlapping_op_pairs_same_token", int64(overlaps))
			w.Count("phaseB_operations", int64(len(all)))
			w.Count("phaseB_goroutines", int64(G))
			if overlaps > 0 {
				w.Cover("overlap/same-token")
			}
		}
	}
}

func firstDiff(a, b string) string {
	la, lb := strings.Split(a, "\n"), strings.Split(b, "\n")
	for i := 0; i < len(la) && i < len(lb); i++ {
		if la[i] != lb[i] {
			return fmt.Sprintf("before %q ; after %q", mon.Trunc(la[i], 300), mon.Trunc(lb[i], 300))
		}
	}
	return "length differs"
}
