package props

import (
	"bytes"
	cryptorand "crypto/rand"
	"crypto/rsa"
	"crypto/x509"
	"fmt"
	"github.com/ucan-wg/go-ucan/token/delegation"
	"github.com/ucan-wg/go-ucan/token/invocation"
	"math/big"
	"math/rand/v2"
	"strings"
	"sync"

	"github.com/libp2p/go-libp2p/core/crypto"

	"github.com/ucan-wg/go-ucan/did"

	"github.com/ipld/go-ipld-prime"
	"github.com/ipld/go-ipld-prime/codec/dagjson"

	"github.com/ucan-wg/go-ucan/token"

	"verifharness/gen"
	"verifharness/mon"
	"verifharness/ref"
)

func init() {
	register(&mon.Prop{
		ID:         "C06",
		Level:      "fault_enumeration",
		Exhaustive: true,
		Rule: "base tokens = {delegation, invocation} x key algorithms x {minimal, all optionals, nested} payload shapes (quick: 2 Ed25519 + 2 other-algorithm tokens; thorough: all 7 pool key kinds x 2 types x 3 shapes). Fault enumeration on each sealed token: EVERY single-bit flip (exhaustive for Ed25519 bases, 1-in-4 sampled for the others in quick, exhaustive in thorough); every offset x {delete, insert 0x00/0xFF/duplicate, substitute}; field-level rewrites with the old signature (each payload field <- another valid value); signature replaced (other key, a crafted RSA key whose did:key shares a several-hundred-character prefix with the issuer's - after genuine tokens of that key went through every decoder -, other token of the same issuer, every truncation incl. empty, zeroed, junk of 21 lengths from 1 to 70000 bytes alone and on a rewritten payload, real signature extended); header replaced by each other algorithm's header, unsigned and re-signed with the issuer key, and by 11 variants of the issuer's own header (other payload-encoding / hash / length segment, dropped, appended or inserted segments) re-signed by the issuer; envelope shape edits (extra SigPayload key, payload under the other tag, both re-signed); the field-level mutants also as DAG-JSON text plus character edits. Every mutant is offered to every decoder of its codec (token.*, delegation.* / invocation.*, bytes and reader). " +
			"Concurrent phase (plain build and -race build): 16..32 goroutines decode genuine tokens and same-length field rewrites carrying the old signature (small, 4 KiB, 256 KiB, thorough 2 MiB payloads) through 4 decoders at once: no forged token may come out, no panic, no data race in go-ucan code. Oracles on every accepted mutant: (O1) no field differs from the original token; (O2) an independent envelope verifier (own did:key -> key extraction, canonical re-encoding, header/key-type match) accepts it; (O3) the returned token's accessors equal the decoded payload. " +
			"non-trivial = mutant that still parses as CBOR/JSON; distinct = mutant bytes.",
		Assumptions: []string{
			"independent verifier ref.VerifyEnvelope; cryptographic primitives (libp2p/Go crypto) are trusted",
			"signature malleability (ECDSA s -> n-s) keeps the signed content and is judged by C08, not here",
		},
		Shards:          shards(8, 16),
		RaceShards:      shards(1, 4),
		RaceIsViolation: true,
		Run:             runC06,
		MinEvals:        floor(200000, 3000000),
		MinDistinct:     floor(8000, 150000),
		RequiredCells: func(string) []string {
			return []string{"mut/bitflip", "mut/delete", "mut/insert", "mut/substitute", "mut/field-rewrite", "mut/sig-other-key", "mut/sig-transplant", "mut/sig-truncated", "mut/sig-zeroed", "mut/sig-junk", "mut/sig-junk-on-rewritten-payload", "mut/sig-extended", "mut/sig-by-did-prefix-colliding-key", "mut/header-swap", "mut/header-swap-resigned", "mut/own-header-variant-resigned", "mut/signed-over-dagjson-text", "mut/genuine-envelope-spliced-into-nonce", "mut/extra-key-resigned", "mut/extra-key-after-tag-resigned", "mut/extra-key-before-tag-resigned", "mut/second-payload-resigned", "mut/iss-key-bytes-under-other-multicodec-resigned", "mut/optional-principal-empty-resigned", "mut/iss-as-did-url-resigned", "mut/unusual-spelling-resigned", "mut/other-tag-resigned", "mut/json-field-rewrite", "mut/json-char-edit",
				"concurrent", "concurrent/genuine", "concurrent/forged", "concurrent/large", "outcome/rejected", "outcome/accepted-same-content", "base/dlg", "base/inv", "base/ed25519", "base/non-ed25519"}
		},
	})
}

type c06Base struct {
	spec   *gen.TokenSpec
	tok    token.Token
	sealed []byte
	json   []byte
	fields ref.V
	env    ref.V // decoded envelope
	info   *ref.EnvelopeInfo
	label  string
}

func c06MakeBase(w *mon.W, typ, shape string, iss *gen.Principal) *c06Base {
	o := gen.SpecOpts{Issuer: iss, Val: gen.ValOpts{}, NoBig: true}
	switch shape {
	case "minimal":
		o.Minimal = true
	case "full", "nested":
		o.Full = true
	}
	var s *gen.TokenSpec
	for try := 0; try < 50; try++ {
		s = gen.RandomSpec(w.Rng, typ, o)
		if shape != "nested" || (len(s.Meta.M) > 0 && s.Meta.Depth() >= 3) {
			break
		}
	}
	tk, err := s.Build()
	if err != nil {
		w.Inconclusive("C06 base token could not be built: " + err.Error())
		return nil
	}
	sealed, _, err := tk.ToSealed(iss.Priv)
	if err != nil {
		w.Inconclusive("C06 base token could not be sealed: " + err.Error())
		return nil
	}
	js, err := tk.ToDagJson(iss.Priv)
	if err != nil {
		js = nil
	}
	env, err := ref.DecodeDagCbor(sealed)
	if err != nil {
		w.Inconclusive("C06 base token is not decodable by the CBOR model: " + err.Error())
		return nil
	}
	info, err := ref.VerifyEnvelope(env)
	if err != nil {
		w.Violate("base/independent-verifier-rejects-library-output/"+iss.Alg, "the independent verifier rejects a token sealed by the library: "+err.Error(), map[string]any{"sealed": mon.Hex(sealed)})
		return nil
	}
	// the reference for O1 is what the issuer built and signed (read through the accessors of the
	// constructed token); that the genuine token also unseals is C07's subject and only counted here
	if _, _, err := token.FromSealed(sealed); err != nil {
		w.Count("genuine-token-rejected(judged by C07)", 1)
	}
	return &c06Base{spec: s, tok: tk, sealed: sealed, json: js, fields: gen.Fields(tk), env: env, info: info, label: typ + "/" + shape + "/" + iss.Alg}
}

// c06Offer gives one mutant to every decoder of its codec and applies the oracles.
func c06Offer(w *mon.W, b *c06Base, kind string, mutant []byte, codec string, decs []decVariant) {
	orig := b.sealed
	if codec == "dagjson" {
		orig = b.json
	}
	if bytes.Equal(mutant, orig) {
		return
	}
	w.Cover("mut/" + kind)
	// independent reading of the mutant (once)
	var env ref.V
	var envErr error
	if codec == "dagcbor" {
		env, envErr = ref.DecodeDagCbor(mutant)
	} else {
		var n ipld.Node
		pi := mon.Guard(func() { n, envErr = ipld.Decode(mutant, dagjson.Decode) })
		if pi != nil {
			envErr = fmt.Errorf("decoder panic: %s", pi.Value)
		}
		if envErr == nil {
			env, envErr = ref.FromNode(n)
		}
	}
	if envErr == nil {
		w.Distinct(mutant)
	}
	var vInfo *ref.EnvelopeInfo
	var vErr error
	verified := false
	for _, d := range decs {
		if d.codec != codec {
			continue
		}
		var t2 token.Token
		var derr error
		w.Journal("C06/"+d.name, mutant)
		pi := mon.Guard(func() { t2, derr = d.f(mutant) })
		w.Eval(1)
		if pi != nil {
			w.Count("decoder-panics(judged by C09)", 1)
			continue
		}
		if derr != nil || t2 == nil {
			w.Cover("outcome/rejected")
			continue
		}
		c := func() map[string]any {
			return map[string]any{"base": b.label, "mutation": kind, "decoder": d.name, "codec": codec, "original_hex": mon.Hex(orig), "mutant_hex": mon.Hex(mutant), "original_fields": b.fields.String()}
		}
		f2 := gen.Fields(t2)
		// O1
		if diff := c06Diff(b.fields, f2); diff != "" {
			m := c()
			m["accepted_fields"] = f2.String()
			w.Violate(fmt.Sprintf("O1/forged-field/%s/%s/%s", diff, kind, decFamily(d.name)),
				fmt.Sprintf("%s accepts a %s mutant of a sealed %s whose field %q differs from what the issuer signed", d.name, kind, b.label, diff), m)
			continue
		}
		// O2
		if !verified {
			verified = true
			if envErr != nil {
				vErr = fmt.Errorf("mutant not decodable independently: %w", envErr)
			} else {
				vInfo, vErr = ref.VerifyEnvelope(env)
			}
		}
		if vErr != nil {
			m := c()
			m["independent_verifier"] = vErr.Error()
			w.Violate(fmt.Sprintf("O2/unverifiable-accepted/%s/%s/%s", kind, decFamily(d.name), b.spec.Iss.Alg),
				fmt.Sprintf("%s accepts a %s mutant that the independent verifier rejects: %v", d.name, kind, vErr), m)
			continue
		}
		// O3
		if want, err := gen.FieldsFromPayload(vInfo.Tag, vInfo.Payload); err == nil {
			if diff := c06Diff(want, f2); diff != "" {
				m := c()
				m["payload_fields"] = want.String()
				m["accessor_fields"] = f2.String()
				w.Violate(fmt.Sprintf("O3/accessor-differs-from-signed-payload/%s/%s", diff, decFamily(d.name)),
					fmt.Sprintf("%s returns a token whose %q differs from the decoded, signed payload", d.name, diff), m)
				continue
			}
		}
		w.Cover("outcome/accepted-same-content")
		w.Count("accepted-mutants/"+kind, 1)
	}
}

func decFamily(name string) string {
	if i := strings.Index(name, "."); i > 0 {
		return name[:i]
	}
	return name
}

// c06Diff compares Fields values; the policy is compared modulo selector normalisation.
func c06Diff(a, b ref.V) string {
	if a.K != ref.KMap || b.K != ref.KMap {
		return gen.FieldDiff(a, b)
	}
	for _, e := range a.M {
		o, ok := b.Get(e.K)
		if !ok {
			return e.K
		}
		if e.K == "pol" {
			if !polEqualModSel(e.V, o) {
				return "pol"
			}
			continue
		}
		if !ref.SameData(e.V, o) {
			return e.K
		}
	}
	if len(a.M) != len(b.M) {
		return "fieldset"
	}
	return ""
}

// setField returns the envelope with payload field k replaced (or removed when v == nil).
func setField(env ref.V, k string, v *ref.V) ref.V {
	out := cloneV(env)
	sp := &out.L[1]
	for i := range sp.M {
		if strings.HasPrefix(sp.M[i].K, "ucan/") {
			p := &sp.M[i].V
			found := false
			for j := range p.M {
				if p.M[j].K == k {
					found = true
					if v == nil {
						p.M = append(p.M[:j], p.M[j+1:]...)
					} else {
						p.M[j].V = *v
					}
					break
				}
			}
			if !found && v != nil {
				p.M = append(p.M, ref.KV{K: k, V: *v})
			}
		}
	}
	return out
}

func c06FieldRewrites(w *mon.W, b *c06Base) map[string]ref.V {
	r := w.Rng
	out := map[string]ref.V{}
	p := b.info.Payload
	otherDID := func(cur string) ref.V {
		for {
			d := gen.PickPrincipal(r, 30).DID.String()
			if d != cur {
				return ref.Str(d)
			}
		}
	}
	for _, k := range []string{"iss", "aud", "sub"} {
		cur, _ := p.Get(k)
		v := otherDID(cur.S)
		out[k] = setField(b.env, k, &v)
	}
	cmd := ref.Str("/other/command")
	out["cmd"] = setField(b.env, "cmd", &cmd)
	top := ref.Str("/")
	out["cmd-top"] = setField(b.env, "cmd", &top)
	nonce := ref.Bytes(gen.Bytes(r, 16))
	out["nonce"] = setField(b.env, "nonce", &nonce)
	meta := ref.Map(ref.E("injected", ref.Bool(true)))
	out["meta"] = setField(b.env, "meta", &meta)
	out["meta-removed"] = setField(b.env, "meta", nil)
	exp := ref.Int(ref.MaxSafe)
	out["exp"] = setField(b.env, "exp", &exp)
	null := ref.Null()
	out["exp-null"] = setField(b.env, "exp", &null)
	if b.spec.Type == "dlg" {
		pol := ref.List()
		out["pol-emptied"] = setField(b.env, "pol", &pol)
		pol2 := ref.Policy{{Kind: "==", Sel: ref.Sel{{Kind: ref.SField, Name: "x"}}, Val: ref.Int(1)}}.ToV()
		out["pol"] = setField(b.env, "pol", &pol2)
		out["nbf-removed"] = setField(b.env, "nbf", nil)
		nbf := ref.Int(0)
		out["nbf"] = setField(b.env, "nbf", &nbf)
	} else {
		args := ref.Map(ref.E("injected", ref.Int(1)))
		out["args"] = setField(b.env, "args", &args)
		prf := ref.List(ref.Link(gen.RandomCID(r)))
		out["prf"] = setField(b.env, "prf", &prf)
		empty := ref.List()
		out["prf-emptied"] = setField(b.env, "prf", &empty)
		iat := ref.Int(1)
		out["iat"] = setField(b.env, "iat", &iat)
		cause := ref.Link(gen.RandomCID(r))
		out["cause"] = setField(b.env, "cause", &cause)
	}
	return out
}

// collidingRSA crafts a valid RSA key whose modulus shares its upper half with the victim's
// (N' = p * nextprime(N/p)), so that the two did:key strings share a long prefix although
// they are different principals.
func collidingRSA(victim *gen.Principal) (*gen.Principal, error) {
	std, err := crypto.PubKeyToStdKey(victim.Pub)
	if err != nil {
		return nil, err
	}
	vk, ok := std.(*rsa.PublicKey)
	if !ok {
		return nil, fmt.Errorf("not an RSA key")
	}
	for try := 0; try < 20; try++ {
		p, err := cryptorand.Prime(cryptorand.Reader, vk.N.BitLen()/2)
		if err != nil {
			return nil, err
		}
		q := new(big.Int).Div(vk.N, p)
		q.SetBit(q, 0, 1)
		for !q.ProbablyPrime(20) {
			q.Add(q, big.NewInt(2))
		}
		n := new(big.Int).Mul(p, q)
		if n.BitLen() != vk.N.BitLen() || n.Cmp(vk.N) == 0 {
			continue
		}
		e := big.NewInt(65537)
		phi := new(big.Int).Mul(new(big.Int).Sub(p, big.NewInt(1)), new(big.Int).Sub(q, big.NewInt(1)))
		d := new(big.Int).ModInverse(e, phi)
		if d == nil {
			continue
		}
		k := &rsa.PrivateKey{PublicKey: rsa.PublicKey{N: n, E: 65537}, D: d, Primes: []*big.Int{p, q}}
		k.Precompute()
		if k.Validate() != nil {
			continue
		}
		priv, err := crypto.UnmarshalRsaPrivateKey(x509.MarshalPKCS1PrivateKey(k))
		if err != nil {
			return nil, err
		}
		id, err := did.FromPubKey(priv.GetPublic())
		if err != nil {
			return nil, err
		}
		return &gen.Principal{Name: "rsa-colliding-with-" + victim.Name, Alg: victim.Alg, Priv: priv, Pub: priv.GetPublic(), DID: id}, nil
	}
	return nil, fmt.Errorf("no colliding key found")
}

func commonPrefix(a, b string) int {
	n := 0
	for n < len(a) && n < len(b) && a[n] == b[n] {
		n++
	}
	return n
}

// c06CollidingIssuer: a different RSA principal whose did:key shares a long prefix with the
// victim's signs the victim's payload; genuine tokens of that principal are decoded first
// (decoding history must not matter).
func c06CollidingIssuer(w *mon.W) {
	victim := gen.ByAlg("rsa2048")[0]
	att, err := collidingRSA(victim)
	if err != nil {
		w.Inconclusive("C06 colliding RSA key: " + err.Error())
		return
	}
	w.Note("colliding-rsa-did-common-prefix", fmt.Sprint(commonPrefix(att.DID.String(), victim.DID.String())))
	for _, typ := range []string{"dlg", "inv"} {
		decs := c07Decoders(typ)
		// history: genuine tokens of the other principal go through every decoder first
		ab := c06MakeBase(w, typ, "full", att)
		b := c06MakeBase(w, typ, "full", victim)
		if b == nil {
			continue
		}
		if ab != nil {
			for _, d := range decs {
				in := ab.sealed
				if d.codec == "dagjson" {
					in = ab.json
				}
				if in != nil {
					_, _ = d.f(in)
				}
			}
		}
		// the victim's signed part, signed by the other principal
		data, err := ref.EncodeDagCbor(b.env.L[1])
		if err != nil {
			continue
		}
		sig, err := att.Priv.Sign(data)
		if err != nil {
			continue
		}
		e := cloneV(b.env)
		e.L[0] = ref.Bytes(sig)
		if enc, err := ref.EncodeDagCbor(e); err == nil {
			c06Offer(w, b, "sig-by-did-prefix-colliding-key", enc, "dagcbor", decs)
		}
		if enc, err := ref.EncodeDagJson(e); err == nil && b.json != nil {
			c06Offer(w, b, "sig-by-did-prefix-colliding-key", enc, "dagjson", decs)
		}
		// and with a rewritten field on top
		rw := c06FieldRewrites(w, b)["cmd-top"]
		if data, err := ref.EncodeDagCbor(rw.L[1]); err == nil {
			if sig, err := att.Priv.Sign(data); err == nil {
				rw.L[0] = ref.Bytes(sig)
				if enc, err := ref.EncodeDagCbor(rw); err == nil {
					c06Offer(w, b, "sig-by-did-prefix-colliding-key", enc, "dagcbor", decs)
				}
			}
		}
	}
}

func runC06(w *mon.W) {
	if w.Race {
		c06Concurrent(w)
		return
	}
	if w.Shard == 0 {
		c06Concurrent(w)
	}
	r := w.Rng
	if w.Shard == w.NPlain-1 {
		c06CollidingIssuer(w)
	}
	type baseDef struct {
		typ, shape string
		iss        *gen.Principal
		sample     int // 1 = exhaustive bit flips, n = every n-th
	}
	var defs []baseDef
	if w.Thorough() {
		for _, alg := range gen.Algs {
			for _, typ := range []string{"dlg", "inv"} {
				for _, shape := range []string{"minimal", "full", "nested"} {
					defs = append(defs, baseDef{typ, shape, gen.ByAlg(alg)[0], 1})
				}
			}
		}
	} else {
		defs = []baseDef{
			{"dlg", "full", gen.Ed(0), 1}, {"inv", "full", gen.Ed(1), 1},
			{"dlg", "minimal", gen.ByAlg("p256")[0], 4}, {"inv", "nested", gen.ByAlg("secp256k1")[0], 4},
			{"dlg", "nested", gen.ByAlg("rsa2048")[0], 16}, {"inv", "minimal", gen.ByAlg("p521")[0], 4},
		}
	}
	for di, def := range defs {
		// a base token belongs to one shard, so that the enumeration over it is complete
		if !w.MinePlain(di) {
			continue
		}
		b := c06MakeBase(w, def.typ, def.shape, def.iss)
		if b == nil {
			continue
		}
		w.Cover("base/" + def.typ)
		if def.iss.Alg == "ed25519" {
			w.Cover("base/ed25519")
		} else {
			w.Cover("base/non-ed25519")
		}
		decs := c07Decoders(def.typ)
		// also offer to the other type's typed decoders (must reject: wrong tag)
		other := "inv"
		if def.typ == "inv" {
			other = "dlg"
		}
		for _, d := range c07Decoders(other) {
			if !strings.HasPrefix(d.name, "token.") {
				decs = append(decs, d)
			}
		}
		if w.WantSample() && di < 2 {
			w.Sample(map[string]any{"base": b.label, "sealed_hex": mon.Hex(b.sealed), "fields": b.fields.String(), "bitflip_mutants": len(b.sealed) * 8, "byte_edit_mutants": len(b.sealed) * 5})
		}
		mine := func() bool { return true }
		// 1. bit flips
		for bit := 0; bit < len(b.sealed)*8; bit++ {
			if bit%def.sample != 0 || !mine() {
				continue
			}
			m := append([]byte{}, b.sealed...)
			m[bit/8] ^= 1 << (bit % 8)
			c06Offer(w, b, "bitflip", m, "dagcbor", decs)
		}
		// 2. byte edits at every offset
		step := def.sample
		for off := 0; off <= len(b.sealed); off += step {
			if !mine() {
				continue
			}
			s := b.sealed
			if off < len(s) {
				c06Offer(w, b, "delete", append(append([]byte{}, s[:off]...), s[off+1:]...), "dagcbor", decs)
				sub := append([]byte{}, s...)
				sub[off] = byte(r.IntN(256))
				c06Offer(w, b, "substitute", sub, "dagcbor", decs)
				c06Offer(w, b, "insert", append(append(append([]byte{}, s[:off]...), s[off]), s[off:]...), "dagcbor", decs)
			}
			c06Offer(w, b, "insert", append(append(append([]byte{}, s[:off]...), 0x00), s[off:]...), "dagcbor", decs)
			c06Offer(w, b, "insert", append(append(append([]byte{}, s[:off]...), 0xff), s[off:]...), "dagcbor", decs)
		}
		// 3. field-level rewrites with the old signature (CBOR and JSON)
		for name, env := range c06FieldRewrites(w, b) {
			if !mine() {
				continue
			}
			if enc, err := ref.EncodeDagCbor(env); err == nil {
				c06Offer(w, b, "field-rewrite", enc, "dagcbor", decs)
			}
			if b.json != nil {
				if enc, err := ref.EncodeDagJson(env); err == nil {
					c06Offer(w, b, "json-field-rewrite", enc, "dagjson", decs)
				}
			}
			_ = name
		}
		// 4. signature replacements
		sigEnv := func(sig []byte) []byte {
			e := cloneV(b.env)
			e.L[0] = ref.Bytes(sig)
			enc, _ := ref.EncodeDagCbor(e)
			return enc
		}
		if mine() {
			// signed by another key of the same algorithm
			others := gen.ByAlg(def.iss.Alg)
			ok := others[len(others)-1]
			data, _ := ref.EncodeDagCbor(b.env.L[1])
			if sig, err := ok.Priv.Sign(data); err == nil && ok != def.iss {
				c06Offer(w, b, "sig-other-key", sigEnv(sig), "dagcbor", decs)
			} else if ok == def.iss && len(others) > 1 {
				if sig, err := others[0].Priv.Sign(data); err == nil {
					c06Offer(w, b, "sig-other-key", sigEnv(sig), "dagcbor", decs)
				}
			} else {
				// a single pool key of that algorithm: sign with an Ed25519 key instead
				if sig, err := gen.Ed(5).Priv.Sign(data); err == nil {
					c06Offer(w, b, "sig-other-key", sigEnv(sig), "dagcbor", decs)
				}
			}
			// signature of another token of the same issuer
			if b2 := c06MakeBase(w, def.typ, "full", def.iss); b2 != nil {
				c06Offer(w, b, "sig-transplant", sigEnv(b2.info.Sig), "dagcbor", decs)
			}
			c06Offer(w, b, "sig-zeroed", sigEnv(make([]byte, len(b.info.Sig))), "dagcbor", decs)
		}
		for k := 0; k < len(b.info.Sig); k++ {
			if !mine() {
				continue
			}
			c06Offer(w, b, "sig-truncated", sigEnv(b.info.Sig[:k]), "dagcbor", decs)
		}
		// junk signatures of every length class (shorter, equal, longer, far longer than any real
		// signature), alone and on a payload with a rewritten field, and the real signature extended
		rewritten := c06FieldRewrites(w, b)["cmd-top"]
		for _, n := range []int{1, 16, 63, 64, 65, 71, 72, 96, 132, 139, 256, 257, 384, 512, 1023, 1024, 1025, 2048, 4096, 8192, 70000} {
			junk := gen.Bytes(r, n)
			c06Offer(w, b, "sig-junk", sigEnv(junk), "dagcbor", decs)
			e := cloneV(rewritten)
			e.L[0] = ref.Bytes(junk)
			if enc, err := ref.EncodeDagCbor(e); err == nil {
				c06Offer(w, b, "sig-junk-on-rewritten-payload", enc, "dagcbor", decs)
			}
			if b.json != nil && n <= 4096 {
				if enc, err := ref.EncodeDagJson(e); err == nil {
					c06Offer(w, b, "json-sig-junk-on-rewritten-payload", enc, "dagjson", decs)
				}
			}
			c06Offer(w, b, "sig-extended", sigEnv(append(append([]byte{}, b.info.Sig...), junk...)), "dagcbor", decs)
		}
		// 5. header swaps
		for hname, h := range ref.AllVarsigHeaders() {
			if bytes.Equal(h, b.info.Header) || !mine() {
				continue
			}
			e := cloneV(b.env)
			for i := range e.L[1].M {
				if e.L[1].M[i].K == "h" {
					e.L[1].M[i].V = ref.Bytes(h)
				}
			}
			if enc, err := ref.EncodeDagCbor(e); err == nil {
				c06Offer(w, b, "header-swap", enc, "dagcbor", decs)
			}
			if re, err := ref.SignEnvelope(def.iss.Priv, h, b.info.Tag, b.info.Payload); err == nil {
				if enc, err := ref.EncodeDagCbor(re); err == nil {
					c06Offer(w, b, "header-swap-resigned", enc, "dagcbor", decs)
				}
			}
			_ = hname
		}
		// 5b. variants of the issuer's OWN header (same algorithm prefix, other tail), re-signed by
		// the issuer over exactly that header: only the exact header of the key type is acceptable
		{
			h := b.info.Header
			variants := map[string][]byte{
				"last-byte-raw":  append(append([]byte{}, h[:len(h)-1]...), 0x55),
				"last-byte-json": append(append([]byte{}, h[:len(h)-1]...), 0xa9, 0x02),
				"tail-dropped":   append([]byte{}, h[:len(h)-1]...),
				"tail-junk":      append(append([]byte{}, h...), 0x00),
				"tail-junk2":     append(append([]byte{}, h...), 0x71),
				"first-byte":     append([]byte{0x35}, h[1:]...),
				"empty":          {},
				"prefix-only":    append([]byte{}, h[:1]...),
				"doubled":        append(append([]byte{}, h...), h...),
			}
			if len(h) > 4 {
				mid := append([]byte{}, h...)
				mid[len(h)-2] ^= 0x01 // hash / length segment
				variants["middle-segment"] = mid
				ins := append(append(append([]byte{}, h[:len(h)-1]...), 0x80, 0x04), h[len(h)-1])
				variants["segment-inserted"] = ins
			}
			for name, hv := range variants {
				if bytes.Equal(hv, h) {
					continue
				}
				if re, err := ref.SignEnvelope(def.iss.Priv, hv, b.info.Tag, b.info.Payload); err == nil {
					if enc, err := ref.EncodeDagCbor(re); err == nil {
						c06Offer(w, b, "own-header-variant-resigned", enc, "dagcbor", decs)
					}
					if b.json != nil {
						if enc, err := ref.EncodeDagJson(re); err == nil {
							c06Offer(w, b, "own-header-variant-resigned", enc, "dagjson", decs)
						}
					}
				}
				_ = name
			}
			// the issuer's key signing another ENCODING of the signed part (its DAG-JSON text), under
			// the genuine header and under headers that announce dag-json: the signature is not one
			// over the canonical encoding of what is decoded
			for hn, hv := range map[string][]byte{"genuine": h, "announces-json": variants["last-byte-json"], "json-appended": append(append([]byte{}, h...), 0xa9, 0x02)} {
				sp := ref.SigPayload(hv, b.info.Tag, b.info.Payload)
				js, err := ref.EncodeDagJson(sp)
				if err != nil {
					continue
				}
				sig, err := def.iss.Priv.Sign(js)
				if err != nil {
					continue
				}
				re := ref.List(ref.Bytes(sig), sp)
				if enc, err := ref.EncodeDagCbor(re); err == nil {
					c06Offer(w, b, "signed-over-dagjson-text", enc, "dagcbor", decs)
				}
				if b.json != nil {
					if enc, err := ref.EncodeDagJson(re); err == nil {
						c06Offer(w, b, "signed-over-dagjson-text", enc, "dagjson", decs)
					}
				}
				_ = hn
			}
		}
		// 5c. splices: the genuine signature S and the genuine signed part M, byte for byte, hidden
		// INSIDE a byte-string field (the nonce, which is encoded last) of a payload the issuer
		// never signed, with S also in the signature slot - as one string and cut in two
		// indefinite-length chunks. A verifier that looks for the signed bytes in the received
		// data instead of re-encoding what it decoded finds S and M there.
		{
			sig := b.info.Sig
			sigHead := cborHead(2, uint64(len(sig)))
			if len(b.sealed) > 1+len(sigHead)+len(sig) && bytes.Equal(b.sealed[1+len(sigHead):1+len(sigHead)+len(sig)], sig) {
				encM := b.sealed[1+len(sigHead)+len(sig):]
				for _, pad := range []int{0, 12} {
					hidden := append(append(append([]byte{}, gen.Bytes(r, pad)...), sig...), encM...)
					nv := ref.Bytes(hidden)
					for _, field := range []string{"aud", "cmd"} {
						forged := setField(b.env, "nonce", &nv)
						var fv ref.V
						if field == "aud" {
							fv = ref.Str(gen.PickPrincipal(r, 0).DID.String())
						} else {
							fv = ref.Str("/")
						}
						forged = setField(forged, field, &fv)
						spEnc, err := ref.EncodeDagCbor(forged.L[1])
						if err != nil {
							continue
						}
						h := len(sig) / 2
						chunked := append([]byte{0x5f}, append(append(append(cborHead(2, uint64(h)), sig[:h]...), append(cborHead(2, uint64(len(sig)-h)), sig[h:]...)...), 0xff)...)
						for _, sigEnc := range [][]byte{append(append([]byte{}, sigHead...), sig...), chunked} {
							env := append(append([]byte{0x82}, sigEnc...), spEnc...)
							c06Offer(w, b, "genuine-envelope-spliced-into-nonce", env, "dagcbor", decs)
						}
					}
				}
			}
		}
		// 6. envelope shape edits, re-signed by the issuer
		if mine() {
			otherTag := ref.TagInvocation
			if b.info.Tag == ref.TagInvocation {
				otherTag = ref.TagDelegation
			}
			// a third entry in the signed part: one that the canonical order puts before the tag (a
			// short key), ones it puts after it (a longer key; a key of the tag's length that compares
			// greater), and a second payload under the other type's tag - on either side of the real one
			extras := []struct {
				cell string
				e    ref.KV
			}{
				{"extra-key-resigned", ref.E("x", ref.Int(1))},
				{"extra-key-after-tag-resigned", ref.E("x-extension-of-the-signed-payload", ref.Int(1))},
				{"extra-key-after-tag-resigned", ref.E("zcan/ext@1.0.0-rc.1", ref.Map(ref.E("k", ref.Str("v"))))},
				{"extra-key-before-tag-resigned", ref.E("acan/ext@1.0.0-rc.1", ref.Int(1))},
				{"second-payload-resigned", ref.E(otherTag, b.info.Payload)},
			}
			for _, ex := range extras {
				sp := ref.Map(ref.E("h", ref.Bytes(b.info.Header)), ref.E(b.info.Tag, b.info.Payload), ex.e)
				if data, err := ref.EncodeDagCbor(sp); err == nil {
					if sig, err := def.iss.Priv.Sign(data); err == nil {
						if enc, err := ref.EncodeDagCbor(ref.List(ref.Bytes(sig), sp)); err == nil {
							c06Offer(w, b, ex.cell, enc, "dagcbor", decs)
						}
					}
				}
			}
			if re, err := ref.SignEnvelope(def.iss.Priv, nil, otherTag, b.info.Payload); err == nil {
				if enc, err := ref.EncodeDagCbor(re); err == nil {
					c06Offer(w, b, "other-tag-resigned", enc, "dagcbor", decs)
				}
			}
		}
		// 6b. the issuer's key bytes under ANOTHER key type's multicodec (X25519, secp256k1, P-256,
		// BLS, RSA), payload re-signed with the issuer's key and announced with the issuer's own
		// header: the signature is fine, the key is fine, but that DID does not name a key that can
		// have made it
		if mine() && def.iss.Alg == "ed25519" {
			if raw, err := def.iss.Pub.Raw(); err == nil {
				for _, code := range []uint64{0xec, 0xe7, 0x1200, 0xeb, 0x1205, 0xea} {
					alt := ref.Str(didString(code, raw))
					p := withField(b.info.Payload, "iss", &alt)
					if re, err := ref.SignEnvelope(def.iss.Priv, nil, b.info.Tag, p); err == nil {
						if enc, err := ref.EncodeDagCbor(re); err == nil {
							c06Offer(w, b, "iss-key-bytes-under-other-multicodec-resigned", enc, "dagcbor", decs)
						}
						if enc, err := ref.EncodeDagJson(re); err == nil {
							c06Offer(w, b, "iss-key-bytes-under-other-multicodec-resigned", enc, "dagjson", decs)
						}
					}
				}
			}
		}
		// 6d. the issuer written as a DID URL - the issuer's DID followed by a fragment naming ANOTHER
		// key (signed by that other key), by its own key, by a query or a path (signed by the issuer)
		if mine() {
			att := c20ForeignKey(def.iss)
			mb := func(p *gen.Principal) string { return strings.TrimPrefix(p.DID.String(), "did:key:") }
			for _, v := range []struct {
				iss    string
				signer *gen.Principal
			}{
				{def.iss.DID.String() + "#" + mb(att), att},
				{def.iss.DID.String() + "#" + mb(def.iss), def.iss},
				{def.iss.DID.String() + "?versionId=1", def.iss},
				{def.iss.DID.String() + "/path", def.iss},
				{def.iss.DID.String() + "#" + mb(att), def.iss},
			} {
				val := ref.Str(v.iss)
				p := withField(b.info.Payload, "iss", &val)
				if re, err := ref.SignEnvelope(v.signer.Priv, nil, b.info.Tag, p); err == nil {
					if enc, err := ref.EncodeDagCbor(re); err == nil {
						c06Offer(w, b, "iss-as-did-url-resigned", enc, "dagcbor", decs)
					}
					if enc, err := ref.EncodeDagJson(re); err == nil {
						c06Offer(w, b, "iss-as-did-url-resigned", enc, "dagjson", decs)
					}
				}
			}
		}
		// 6e. VALID-but-unusual spellings of signed fields, re-signed by the issuer: the token that
		// comes out shows the field as it was signed (a decoder that tidies a value up after the
		// signature was checked hands out content nobody signed), or nothing comes out
		if mine() {
			type fv struct {
				f string
				v ref.V
			}
			var vars []fv
			for _, c := range []string{"/crud//delete", "//", "/a/", "/a//", "//a", "/a///b", "/a/./b", "/a/../b", "/a/b/..", "/a/%2f/b", "/a/b%20c", "/a b", "/ a", "/a/\u00e4", "/a\t", "/a/b\x00", "/a/*", "/*", "/a\\b", "/a/b/", "/.", "/a/b?x=1", "/a/b#c"} {
				vars = append(vars, fv{"cmd", ref.Str(c)})
			}
			vars = append(vars, fv{"nonce", ref.Bytes([]byte{0})}, fv{"nonce", ref.Bytes(bytes.Repeat([]byte{0}, 12))}, fv{"nonce", ref.Bytes(bytes.Repeat([]byte{0xff}, 64))},
				fv{"meta", ref.Map(ref.E("", ref.Str("")))}, fv{"meta", ref.Map(ref.E("k", ref.Map()), ref.E("l", ref.List()))})
			for _, v := range vars {
				val := v.v
				p := withField(b.info.Payload, v.f, &val)
				want, err := gen.FieldsFromPayload(b.info.Tag, p)
				if err != nil {
					continue
				}
				b2 := *b
				b2.fields = want
				if re, err := ref.SignEnvelope(def.iss.Priv, nil, b.info.Tag, p); err == nil {
					if enc, err := ref.EncodeDagCbor(re); err == nil {
						c06Offer(w, &b2, "unusual-spelling-resigned", enc, "dagcbor", decs)
					}
					if enc, err := ref.EncodeDagJson(re); err == nil {
						c06Offer(w, &b2, "unusual-spelling-resigned", enc, "dagjson", decs)
					}
				}
			}
		}
		// 6c. optional principals present but EMPTY,
		// re-signed by the issuer: whatever is decoded must show what was signed
		if mine() {
			for _, f := range []string{"sub", "aud"} {
				for _, val := range []ref.V{ref.Str(""), ref.Str(" ")} {
					val := val
					p := withField(b.info.Payload, f, &val)
					if re, err := ref.SignEnvelope(def.iss.Priv, nil, b.info.Tag, p); err == nil {
						kind := "optional-principal-empty-resigned"
						if enc, err := ref.EncodeDagCbor(re); err == nil {
							c06Offer(w, b, kind, enc, "dagcbor", decs)
						}
						if enc, err := ref.EncodeDagJson(re); err == nil {
							c06Offer(w, b, kind, enc, "dagjson", decs)
						}
					}
				}
			}
		}
		// 7. JSON character edits
		if b.json != nil {
			n := w.Pick(300, 3000)
			for k := 0; k < n; k++ {
				if !mine() {
					continue
				}
				m := append([]byte{}, b.json...)
				off := r.IntN(len(m))
				switch r.IntN(3) {
				case 0:
					m[off] = gen.Pick(r, []byte(`0123456789abcdefxyz"{}[]:,/ `))
				case 1:
					m = append(m[:off], m[off+1:]...)
				default:
					m = append(append(append([]byte{}, m[:off]...), gen.Pick(r, []byte(`0123456789abcdef"{}[]:,`))), m[off:]...)
				}
				c06Offer(w, b, "json-char-edit", m, "dagjson", decs)
			}
		}
	}
}

// c06Concurrent: decoders are called from many goroutines at once in a server. Genuine tokens
// and forged ones (a payload field rewritten to another value of the SAME length, old
// signature kept) are decoded concurrently, small ones and ones carrying a large value in
// front of the forged field (which stretches every window inside the decoder). No forged
// token may ever come out; in the -race build the race detector additionally watches the
// decoders' internals (pools, caches, shared buffers).
func c06Concurrent(w *mon.W) {
	r := w.Rng
	type item struct {
		data    []byte
		genuine bool
		base    int
		what    string
	}
	var items []item
	var bases []*c06Base
	sizes := []int{0, 4 << 10, 256 << 10}
	if w.Thorough() {
		sizes = append(sizes, 2<<20)
	}
	algs := []string{"ed25519", "p256", "rsa2048"}
	for ai, alg := range algs {
		for ti, typ := range []string{"dlg", "inv"} {
			for _, size := range sizes {
				if size > 4<<10 && alg != "ed25519" && ti == 1 {
					continue
				}
				iss := gen.ByAlg(alg)[0]
				s := gen.RandomSpec(r, typ, gen.SpecOpts{Issuer: iss, Minimal: true, NoBig: true})
				if size > 0 {
					s.Meta = ref.Map(ref.E("big", ref.Str(strings.Repeat("x", size))))
				}
				tk, err := s.Build()
				if err != nil {
					continue
				}
				sealed, _, err := tk.ToSealed(iss.Priv)
				if err != nil {
					continue
				}
				env, err := ref.DecodeDagCbor(sealed)
				if err != nil {
					continue
				}
				info, err := ref.VerifyEnvelope(env)
				if err != nil {
					continue
				}
				b := &c06Base{spec: s, tok: tk, sealed: sealed, fields: gen.Fields(tk), env: env, info: info, label: fmt.Sprintf("%s/%s/meta=%dB", typ, alg, size)}
				bi := len(bases)
				bases = append(bases, b)
				items = append(items, item{sealed, true, bi, "genuine"})
				// same-length rewrites, old signature
				if cur, ok := info.Payload.Get("nonce"); ok && len(cur.Y) > 0 {
					nb := append([]byte{}, cur.Y...)
					nb[len(nb)-1] ^= 0x5a
					v := ref.Bytes(nb)
					if fb, err := ref.EncodeDagCbor(setField(env, "nonce", &v)); err == nil && len(fb) == len(sealed) {
						items = append(items, item{fb, false, bi, "nonce"})
					}
				}
				for _, k := range []string{"aud", "sub"} {
					if cur, ok := info.Payload.Get(k); ok && cur.K == ref.KString {
						for try := 0; try < 20; try++ {
							o := gen.ByAlg(alg)[r.IntN(len(gen.ByAlg(alg)))].DID.String()
							if o != cur.S && len(o) == len(cur.S) {
								v := ref.Str(o)
								if fb, err := ref.EncodeDagCbor(setField(env, k, &v)); err == nil && len(fb) == len(sealed) {
									items = append(items, item{fb, false, bi, k})
								}
								break
							}
						}
					}
				}
				_ = ai
			}
		}
	}
	if len(items) < 10 {
		w.Inconclusive("C06 concurrent phase: too few items")
		return
	}
	type dec struct {
		name string
		f    func([]byte) (token.Token, error)
	}
	decs := []dec{
		{"token.FromSealed", func(b []byte) (token.Token, error) { t, _, err := token.FromSealed(b); return t, err }},
		{"token.FromSealedReader", func(b []byte) (token.Token, error) {
			t, _, err := token.FromSealedReader(bytes.NewReader(b))
			return t, err
		}},
		{"token.FromDagCbor", func(b []byte) (token.Token, error) { return token.FromDagCbor(b) }},
		{"typed.FromSealed", func(b []byte) (token.Token, error) {
			if t, _, err := delegation.FromSealed(b); err == nil {
				return t, nil
			}
			t, _, err := invocation.FromSealed(b)
			if err != nil {
				return nil, err
			}
			return t, nil
		}},
	}
	G := w.Pick(16, 32)
	rounds := w.Pick(3, 12)
	perG := w.Pick(120, 300)
	if w.Race {
		perG /= 3
	}
	type obs struct {
		item, dec int
		accepted  bool
		diff      string
		panicked  string
	}
	for round := 0; round < rounds; round++ {
		res := make([][]obs, G)
		var wg sync.WaitGroup
		start := make(chan struct{})
		for g := 0; g < G; g++ {
			g := g
			lr := rand.New(rand.NewPCG(uint64(w.Seed)+uint64(round)*1000+uint64(g), uint64(w.Shard)))
			wg.Add(1)
			go func() {
				defer wg.Done()
				<-start
				for i := 0; i < perG; i++ {
					ii := lr.IntN(len(items))
					// goroutines pair up on one base: even ones prefer genuine, odd ones forged bytes
					if i%2 == 0 {
						want := g%2 == 0
						for try := 0; try < 4 && items[ii].genuine != want; try++ {
							ii = lr.IntN(len(items))
						}
					}
					di := lr.IntN(len(decs))
					o := obs{item: ii, dec: di}
					var t token.Token
					var err error
					if pi := mon.Guard(func() { t, err = decs[di].f(items[ii].data) }); pi != nil {
						o.panicked = pi.Value + " @ " + pi.Frame
					} else if err == nil && t != nil {
						o.accepted = true
						o.diff = c06Diff(bases[items[ii].base].fields, gen.Fields(t))
					}
					res[g] = append(res[g], o)
				}
			}()
		}
		close(start)
		wg.Wait()
		for g := range res {
			for _, o := range res[g] {
				it := items[o.item]
				w.Eval(1)
				w.Cover("concurrent")
				if it.genuine {
					w.Cover("concurrent/genuine")
				} else {
					w.Cover("concurrent/forged")
				}
				if len(it.data) > 100<<10 {
					w.Cover("concurrent/large")
				}
				w.Distinct("concurrent", o.item, o.dec, round, g)
				b := bases[it.base]
				switch {
				case o.panicked != "":
					w.Violate("concurrent/panic/"+decs[o.dec].name, fmt.Sprintf("%s panicked while %d goroutines were decoding: %s", decs[o.dec].name, G, o.panicked), map[string]any{"base": b.label, "goroutines": G})
				case !it.genuine && o.accepted:
					w.Violate(fmt.Sprintf("concurrent/forged-accepted/%s/%s", it.what, decs[o.dec].name),
						fmt.Sprintf("while %d goroutines decode genuine and forged tokens concurrently, %s accepts a token whose %s was rewritten (old signature kept); field differing from the signed one: %q", G, decs[o.dec].name, it.what, o.diff),
						map[string]any{"base": b.label, "rewritten_field": it.what, "goroutines": G, "race_build": w.Race, "genuine_hex": mon.Hex(capBytes(b.sealed, 2048)), "forged_hex": mon.Hex(capBytes(it.data, 2048))})
				case it.genuine && o.accepted && o.diff != "":
					w.Violate("concurrent/genuine-decoded-differently/"+o.diff, fmt.Sprintf("%s returns a genuine token whose %q differs from what was sealed, under %d concurrent decoders", decs[o.dec].name, o.diff, G), map[string]any{"base": b.label, "goroutines": G})
				case it.genuine && !o.accepted:
					w.Count("concurrent/genuine-rejected(judged by C07)", 1)
				}
			}
		}
	}
}
