package props

// Purity wiring: per property, a sample of calls on SHARED objects (one parsed selector, one
// policy, one DID, one container byte string, one token ...) handed to mon.Purity, which runs
// them in order, in reverse, shuffled and from many goroutines at once, and requires every
// outcome to equal the first one. In the plain build this runs on shard 0; the -race shards
// run nothing else, so that the race detector watches the library's internals meanwhile.

import (
	"bytes"
	"fmt"
	"io"
	"runtime"
	"sort"
	"strings"

	"github.com/ipld/go-ipld-prime/datamodel"
	"github.com/ipld/go-ipld-prime/node/basicnode"

	"github.com/ucan-wg/go-ucan/did"
	"github.com/ucan-wg/go-ucan/pkg/command"
	"github.com/ucan-wg/go-ucan/pkg/container"
	"github.com/ucan-wg/go-ucan/pkg/meta"
	"github.com/ucan-wg/go-ucan/pkg/policy"
	"github.com/ucan-wg/go-ucan/pkg/policy/selector"
	"github.com/ucan-wg/go-ucan/token"
	"github.com/ucan-wg/go-ucan/token/delegation"

	"verifharness/gen"
	"verifharness/mon"
	"verifharness/ref"
)

// purityGate tells a property's Run what to do: in a -race shard only the purity workload
// runs (returns true: the caller must return afterwards); in the plain build it runs on shard 0
// in addition to the normal workload.
func purityGate(w *mon.W, f func(w *mon.W)) (done bool) {
	if w.Race {
		f(w)
		return true
	}
	if w.Shard == 0 {
		f(w)
	}
	return false
}

func pG(w *mon.W) int { return w.Pick(16, 32) }
func pR(w *mon.W) int {
	if w.Race {
		return w.Pick(2, 6)
	}
	return w.Pick(3, 10)
}

func errOr(err error, ok string) string {
	if err != nil {
		return "error"
	}
	return ok
}

// ---- C11: shared policies x shared data nodes

func c11Purity(w *mon.W) {
	r := w.Rng
	var thunks []mon.Thunk
	for k := 0; k < w.Pick(60, 300); k++ {
		d := c11Data(r)
		var p ref.Policy
		for i := 0; i < 1+r.IntN(3); i++ {
			p = append(p, c11Stmt(r, d, 3, false))
		}
		cons, err := gen.BuildPolicy(p)
		if err != nil {
			continue
		}
		pols := []policy.Policy{cons}
		if ip, err := gen.BuildPolicyIPLD(p); err == nil {
			pols = append(pols, ip)
		}
		// the same policy objects against several data values (the one they were drawn for, and
		// others of other shapes and list lengths)
		datas := []ref.V{d, c11Data(r), c11Data(r), ref.Map()}
		nodes := make([]datamodel.Node, len(datas))
		for i := range datas {
			nodes[i] = datas[i].Node()
		}
		for pi, pol := range pols {
			for di := range nodes {
				pol, n := pol, nodes[di]
				thunks = append(thunks, mon.Thunk{Label: "Policy.Match", Desc: fmt.Sprintf("%s (form %d) on %s", p, pi, datas[di]), F: func() string {
					m, _ := pol.Match(n)
					pm, _ := pol.PartialMatch(n)
					return fmt.Sprintf("match=%v partial=%v", m, pm)
				}})
			}
		}
	}
	w.Purity("policy-match", thunks, pG(w), pR(w))
}

// ---- C12: shared parsed selectors x values of different lengths and kinds

func c12Purity(w *mon.W) {
	r := w.Rng
	var thunks []mon.Thunk
	for k := 0; k < w.Pick(150, 600); k++ {
		base := c12Data(r, 3)
		n := 1 + r.IntN(4)
		var s ref.Sel
		cur := base
		alive := true
		for i := 0; i < n; i++ {
			g := c12Seg(r, cur, alive && r.IntN(4) > 0)
			for g.Kind == ref.SIdentity && i > 0 {
				g = c12Seg(r, cur, true)
			}
			if g.Kind == ref.SIdentity {
				continue
			}
			s = append(s, g)
			if alive {
				nx, ok := ref.Step(g, cur)
				if ok {
					cur = nx
				} else {
					alive = false
				}
			}
		}
		if len(s) == 0 {
			continue
		}
		text := s.Text()
		sel, err := selector.Parse(text)
		if err != nil {
			continue
		}
		datas := []ref.V{base, c12Data(r, 3), c12Data(r, 2)}
		// same shape, other lengths
		datas = append(datas, resized(base, 1), resized(base, 7))
		for _, d := range datas {
			d := d
			node := d.Node()
			thunks = append(thunks, mon.Thunk{Label: "Selector.Select", Desc: fmt.Sprintf("%s on %s", text, mon.Trunc(d.String(), 300)), F: func() string {
				n, err := sel.Select(node)
				switch {
				case err != nil:
					return "error"
				case n == nil:
					return "no-value"
				}
				v, cerr := ref.FromNode(n)
				if cerr != nil {
					return "unconvertible"
				}
				return "value " + v.String()
			}})
		}
	}
	w.Purity("select", thunks, pG(w), pR(w))
}

// resized returns v with every list / byte string / string cut or extended to about n elements.
func resized(v ref.V, n int) ref.V {
	switch v.K {
	case ref.KList:
		o := ref.V{K: ref.KList, L: []ref.V{}}
		for i := 0; i < n; i++ {
			if len(v.L) > 0 {
				o.L = append(o.L, resized(v.L[i%len(v.L)], n))
			} else {
				o.L = append(o.L, ref.Int(int64(i)))
			}
		}
		return o
	case ref.KMap:
		o := ref.V{K: ref.KMap, M: []ref.KV{}}
		for _, e := range v.M {
			o.M = append(o.M, ref.KV{K: e.K, V: resized(e.V, n)})
		}
		return o
	case ref.KBytes:
		b := make([]byte, n)
		for i := range b {
			b[i] = byte(i + 1)
		}
		return ref.Bytes(b)
	case ref.KString:
		rs := []rune("aé日bcß漢字xyz")
		s := ""
		for i := 0; i < n; i++ {
			s += string(rs[i%len(rs)])
		}
		return ref.Str(s)
	}
	return v
}

// ---- C13: shared like policies x strings

func c13Purity(w *mon.W) {
	r := w.Rng
	var thunks []mon.Thunk
	pats := []string{"*", "a*", "*a", "a*b*c", `\**`, `*\\`, "***", "a**b", "*aab", "é*", "*\n*", "a.b", "*.*", `\a\b`, ""}
	strs := []string{"", "a", "ab", "aab", "aaab", "abc", "a*b", `a\`, "é", "a\nb", "a.b", "axb", "*", `\`, strings.Repeat("ab", 300)}
	for i := 0; i < w.Pick(20, 100); i++ {
		s := gen.String(r, gen.ValOpts{})
		pats = append(pats, gen.GlobFor(r, s))
		strs = append(strs, s)
	}
	for _, pat := range pats {
		if !ref.GlobValid(pat) {
			continue
		}
		pol, err := policy.Construct(policy.Like(".", pat))
		if err != nil {
			continue
		}
		for _, s := range strs {
			s := s
			node := basicnode.NewString(s)
			thunks = append(thunks, mon.Thunk{Label: "like", Desc: fmt.Sprintf("pattern %q on %q", pat, mon.Trunc(s, 80)), F: func() string {
				m, _ := pol.Match(node)
				return fmt.Sprint(m)
			}})
		}
	}
	w.Purity("like", thunks, pG(w), pR(w))
}

// ---- C14: parse -> print

func c14Purity(w *mon.W) {
	r := w.Rng
	var thunks []mon.Thunk
	for k := 0; k < w.Pick(300, 1500); k++ {
		var s ref.Sel
		for i := 0; i < 1+r.IntN(4); i++ {
			g := c12Seg(r, ref.List(ref.Int(1), ref.Int(2), ref.Int(3)), false)
			if g.Kind == ref.SIdentity {
				continue
			}
			s = append(s, g)
		}
		if len(s) == 0 {
			continue
		}
		text := s.Text()
		if k%5 == 0 && len(text) > 2 {
			text = text[:len(text)-1] // nearly valid
		}
		thunks = append(thunks, mon.Thunk{Label: "selector.Parse+String", Desc: text, F: func() string {
			sel, err := selector.Parse(text)
			if err != nil {
				return "rejected"
			}
			return sel.String()
		}})
	}
	for k := 0; k < w.Pick(60, 300); k++ {
		d := c11Data(r)
		p := ref.Policy{c11Stmt(r, d, 3, false)}
		node := p.ToV().Node()
		thunks = append(thunks, mon.Thunk{Label: "policy.FromIPLD+ToIPLD", Desc: p.String(), F: func() string {
			pol, err := policy.FromIPLD(node)
			if err != nil {
				return "rejected"
			}
			out, err := pol.ToIPLD()
			if err != nil {
				return "toipld-error"
			}
			v, err := ref.FromNode(out)
			if err != nil {
				return "unconvertible"
			}
			return v.String()
		}})
	}
	w.Purity("parse-print", thunks, pG(w), pR(w))
}

// ---- C15: commands

func c15Purity(w *mon.W) {
	var thunks []mon.Thunk
	cmds := []string{"/", "/a", "/a/b", "/a/b/c", "/ab", "/a//b", "/é", "/è", "/a/σ", "/a/ς", "/crud/read", "/crud", "/A", "a", "/a/", ""}
	for _, a := range cmds {
		a := a
		thunks = append(thunks, mon.Thunk{Label: "command.Parse", Desc: a, F: func() string {
			c, err := command.Parse(a)
			if err != nil {
				return "rejected"
			}
			return string(c) + " segments=" + strings.Join(c.Segments(), "|")
		}})
		for _, b := range cmds {
			b := b
			if ref.CmdValid(a) && ref.CmdValid(b) {
				ca, cb := command.Command(a), command.Command(b)
				thunks = append(thunks, mon.Thunk{Label: "Command.Covers", Desc: a + " covers " + b, F: func() string { return fmt.Sprint(ca.Covers(cb)) }})
			}
		}
	}
	// Join / New: the result is copied out at once; long results included
	longSeg := strings.Repeat("long-segment-", 7) + "end"
	for _, base := range []string{"/", "/a", "/crud/read", "/" + longSeg} {
		for _, segs := range [][]string{{"x"}, {"x", "y", "z"}, {longSeg}, {longSeg, "tail"}, {"a", longSeg, longSeg}} {
			base, segs := base, segs
			want := ref.CmdFromSegments(append(append([]string{}, ref.CmdSegments(base)...), segs...))
			thunks = append(thunks, mon.Thunk{Label: "Command.Join", Desc: fmt.Sprintf("%q.Join(%q)", base, segs), F: func() string {
				c := command.Command(base).Join(segs...)
				first := strings.Clone(string(c))
				runtimeGosched()
				return first + " | reread: " + strings.Clone(string(c)) + fmt.Sprintf(" | covered=%v", command.Command(base).Covers(c))
			}, Check: func(out string) string {
				if out == want+" | reread: "+want+" | covered=true" {
					return ""
				}
				return "the reference model gives " + want
			}})
		}
	}
	w.Purity("command", thunks, pG(w), pR(w))
}

// ---- C16: did:key strings of all algorithms, canonical and alternative encodings

func c16Purity(w *mon.W) {
	r := w.Rng
	var thunks []mon.Thunk
	var strs []string
	for i, p := range gen.Pool() {
		strs = append(strs, p.DID.String())
		if i%3 == 0 {
			for j, a := range altEncodings(r, p) {
				if j%4 == 0 {
					strs = append(strs, a.s)
				}
			}
		}
	}
	// byte-identical 33-byte material under the secp256k1 and the P-256 code
	for _, p := range gen.ByAlg("secp256k1") {
		if raw, err := p.Pub.Raw(); err == nil {
			strs = append(strs, didString(didCodes["p256"], raw), didString(didCodes["secp256k1"], raw))
		}
	}
	for _, s := range strs {
		s := s
		thunks = append(thunks, mon.Thunk{Label: "did.Parse+PubKey", Desc: s, F: func() string {
			d, err := did.Parse(s)
			if err != nil {
				return "parse-rejected"
			}
			k, err := d.PubKey()
			if err != nil {
				return "parsed " + d.String() + " pubkey-error"
			}
			raw, _ := k.Raw()
			return fmt.Sprintf("parsed %s key-type=%v raw=%x", d.String(), k.Type(), raw)
		}})
	}
	// shared DID values
	for _, p := range gen.Pool() {
		d := p.DID
		thunks = append(thunks, mon.Thunk{Label: "DID.PubKey", Desc: d.String(), F: func() string {
			k, err := d.PubKey()
			if err != nil {
				return "error"
			}
			raw, _ := k.Raw()
			return fmt.Sprintf("%v %x %s", k.Type(), raw, d.String())
		}})
	}
	w.Purity("did", thunks, pG(w), pR(w))
}

// ---- C17: reading the same container bytes

func c17Purity(w *mon.W) {
	var thunks []mon.Thunk
	for _, n := range []int{1, 3, 12} {
		set := makeSealedSet(w, n, 20, true)
		wr := container.NewWriter()
		for _, t := range set {
			wr.AddSealed(t.cid, t.sealed)
		}
		for format := 0; format < 4; format++ {
			data, err := writeContainer(wr, format, false)
			if err != nil {
				continue
			}
			bad := append([]byte{}, data...)
			bad[len(bad)*2/3] ^= 0x04
			for vi, in := range [][]byte{data, bad} {
				for _, stream := range []bool{false, true} {
					in, format, stream := in, format, stream
					thunks = append(thunks, mon.Thunk{Label: "container.read/" + containerNames[format], Desc: fmt.Sprintf("%d tokens, variant %d, stream %v", n, vi, stream), F: func() string {
						rd, err := readContainer(in, format, stream, func(b []byte) io.Reader { return bytes.NewReader(b) })
						if err != nil {
							return "error"
						}
						var ks []string
						for k, t := range rd {
							ks = append(ks, k.String()+"="+gen.Fields(t).String())
						}
						sort.Strings(ks)
						return strings.Join(ks, ";")
					}})
				}
			}
		}
		// writing the same Writer from many goroutines
		for format := 0; format < 4; format++ {
			format := format
			thunks = append(thunks, mon.Thunk{Label: "container.write/" + containerNames[format], Desc: fmt.Sprintf("%d tokens", n), F: func() string {
				data, err := writeContainer(wr, format, format%2 == 0)
				if err != nil {
					return "error"
				}
				rd, err := readContainer(data, format, false, nil)
				if err != nil {
					return "unreadable"
				}
				var ks []string
				for k := range rd {
					ks = append(ks, k.String())
				}
				sort.Strings(ks)
				return strings.Join(ks, ";")
			}})
		}
	}
	w.Purity("container", thunks, pG(w), pR(w))
}

// ---- C19: reading encrypted metadata of shared tokens

func c19Purity(w *mon.W) {
	r := w.Rng
	var thunks []mon.Thunk
	cmd := command.MustParse("/a")
	for i := 0; i < w.Pick(12, 40); i++ {
		key, key2 := gen.Bytes(r, 32), gen.Bytes(r, 32)
		plain := gen.Bytes(r, []int{0, 1, 16, 64, 1024, 5000}[i%6])
		p := gen.Ed(i)
		d, err := delegation.Root(p.DID, gen.Ed(i+1).DID, cmd, policy.Policy{}, delegation.WithEncryptedMetaBytes("secret", plain, key), delegation.WithMeta("plain", "visible"))
		if err != nil {
			continue
		}
		sealed, _, err := d.ToSealed(p.Priv)
		if err != nil {
			continue
		}
		dec, _, err := delegation.FromSealed(sealed)
		if err != nil {
			continue
		}
		stored, err := d.Meta().GetBytes("secret")
		if err != nil {
			continue
		}
		// tampered copies of the stored value in fresh metadata
		var metas []meta.ReadOnly
		metas = append(metas, d.Meta(), dec.Meta())
		for _, pos := range []int{0, 23, 24, 39, 40, len(stored) - 1} {
			if pos < 0 || pos >= len(stored) {
				continue
			}
			t := append([]byte{}, stored...)
			t[pos] ^= 0x01
			m := meta.NewMeta()
			if err := m.Add("secret", t); err == nil {
				metas = append(metas, m.ReadOnly())
			}
		}
		for mi, m := range metas {
			for ki, k := range [][]byte{key, key2} {
				m, k := m, k
				thunks = append(thunks, mon.Thunk{Label: "Meta.GetEncryptedBytes", Desc: fmt.Sprintf("plaintext %d bytes, meta variant %d (0,1 genuine; others one bit flipped), key %d", len(plain), mi, ki), F: func() string {
					b, err := m.GetEncryptedBytes("secret", k)
					if err != nil {
						return "error"
					}
					return fmt.Sprintf("data %x", b)
				}})
			}
		}
	}
	w.Purity("encrypted-meta", thunks, pG(w), pR(w))
}

// ---- C07 / C08: sealing shared tokens (deterministic signature schemes) and decoding shared bytes

func c07Purity(w *mon.W) {
	r := w.Rng
	var thunks []mon.Thunk
	for i := 0; i < w.Pick(16, 60); i++ {
		typ := []string{"dlg", "inv"}[i%2]
		iss := gen.Ed(i)
		if i%4 == 3 {
			iss = gen.ByAlg("rsa2048")[0] // PKCS#1 v1.5: deterministic as well
		}
		s := gen.RandomSpec(r, typ, gen.SpecOpts{Issuer: iss, NoBig: i%5 != 0})
		tk, err := s.Build()
		if err != nil {
			continue
		}
		sealed, _, err := tk.ToSealed(iss.Priv)
		if err != nil {
			continue
		}
		js, _ := tk.ToDagJson(iss.Priv)
		thunks = append(thunks, mon.Thunk{Label: "Token.ToSealed", Desc: describeSpecShort(s), F: func() string {
			b, c, err := tk.ToSealed(iss.Priv)
			if err != nil {
				return "error"
			}
			return fmt.Sprintf("%s %x", c, b)
		}})
		thunks = append(thunks, mon.Thunk{Label: "Token.ToSealedWriter", Desc: describeSpecShort(s), F: func() string {
			var buf bytes.Buffer
			c, err := tk.ToSealedWriter(&buf, iss.Priv)
			if err != nil {
				return "error"
			}
			return fmt.Sprintf("%s %x", c, buf.Bytes())
		}})
		thunks = append(thunks, mon.Thunk{Label: "Token.ToDagJson", Desc: describeSpecShort(s), F: func() string {
			b, err := tk.ToDagJson(iss.Priv)
			if err != nil {
				return "error"
			}
			return string(b)
		}})
		thunks = append(thunks, mon.Thunk{Label: "token.FromSealed", Desc: describeSpecShort(s), F: func() string {
			t, c, err := token.FromSealed(sealed)
			if err != nil {
				return "error"
			}
			return c.String() + " " + gen.Fields(t).String()
		}})
		thunks = append(thunks, mon.Thunk{Label: "token.FromSealedReader", Desc: describeSpecShort(s), F: func() string {
			t, c, err := token.FromSealedReader(bytes.NewReader(sealed))
			if err != nil {
				return "error"
			}
			return c.String() + " " + gen.Fields(t).String()
		}})
		if js != nil {
			thunks = append(thunks, mon.Thunk{Label: "token.FromDagJson", Desc: describeSpecShort(s), F: func() string {
				t, err := token.FromDagJson(js)
				if err != nil {
					return "error"
				}
				return gen.Fields(t).String()
			}})
		}
	}
	w.Purity("seal-unseal", thunks, pG(w), pR(w))
}

func describeSpecShort(s *gen.TokenSpec) string {
	return fmt.Sprintf("%s by %s cmd=%s", s.Type, s.Iss.Name, s.Cmd)
}

// ---- C01 (and, through the same engine, C02-C05): verdicts of many different chains, some
// sharing their delegation objects and loaders, conforming and deviating in every rule

func runtimeGosched() { runtime.Gosched() }
