package props

// churn: traffic that must not matter. Between the first evaluation of a set of held objects
// (parsed DIDs, policies, selectors, commands, decoded tokens) and their re-evaluation, the
// process handles some 1500 OTHER, never seen before, inputs of every kind the library
// interns, compiles or might cache - more of them than a bounded table of any plausible size
// holds - and a handful of failing calls whose error paths print or build values. A result
// that lives in a recycled cache slot, in a pooled buffer or behind a stale index changes.

import (
	"crypto/sha256"
	"encoding/binary"
	"fmt"
	"sync/atomic"

	"github.com/ipld/go-ipld-prime/node/basicnode"
	"github.com/mr-tron/base58"

	"github.com/ucan-wg/go-ucan/did"
	"github.com/ucan-wg/go-ucan/pkg/command"
	"github.com/ucan-wg/go-ucan/pkg/policy"
	"github.com/ucan-wg/go-ucan/pkg/policy/selector"
	"github.com/ucan-wg/go-ucan/token/delegation"
	"github.com/ucan-wg/go-ucan/token/invocation"

	"verifharness/mon"
)

var churnSerial atomic.Uint64

// ChurnCalls counts what the churn did (reported through the worker of the caller).
var ChurnCalls atomic.Int64

func init() { mon.ChurnHook = func() { churn(1500) } }

// freshDIDText is the did:key of an Ed25519 public key derived from a serial number (any 32
// bytes are accepted as an Ed25519 key).
func freshDIDText(serial uint64) string {
	var b [8]byte
	binary.BigEndian.PutUint64(b[:], serial)
	h := sha256.Sum256(b[:])
	return "did:key:z" + base58.Encode(append([]byte{0xed, 0x01}, h[:]...))
}

func churn(n int) {
	base := churnSerial.Add(uint64(n)) - uint64(n)
	one := basicnode.NewInt(1)
	long := "/churn/a-rather-long-command-segment-that-does-not-fit-a-small-scratch-buffer/and-another-one-of-the-same-kind"
	for i := 0; i < n; i++ {
		id := base + uint64(i)
		mon.Guard(func() {
			if d, err := did.Parse(freshDIDText(id)); err == nil {
				_ = d.String()
				_, _ = d.PubKey()
			}
			pat := fmt.Sprintf("churn-%d-*-%d\\*x*", id, id%7)
			if pol, err := policy.Construct(policy.Like(fmt.Sprintf(".churn%d", id), pat)); err == nil {
				pol.Match(one)
			}
			if sel, err := selector.Parse(fmt.Sprintf(".churn%d.f[%d][-%d:].g?", id, id%5, 1+id%3)); err == nil {
				_, _ = sel.Select(one)
				_ = sel.String()
			}
			if c, err := command.Parse(fmt.Sprintf("/churn/%d", id)); err == nil {
				_ = c.Join("x", fmt.Sprint(id)).String()
			}
			if c, err := command.Parse(fmt.Sprintf("%s/%d", long, id)); err == nil {
				_ = c.Join("further", "segments", fmt.Sprint(id)).String()
			}
		})
	}
	// failing calls: their error paths print undefined values
	mon.Guard(func() {
		_ = did.Undef.String()
		cmd := command.MustParse("/churn")
		_, _ = delegation.New(did.Undef, did.Undef, cmd, policy.Policy{})
		_, _ = delegation.Root(did.Undef, did.Undef, cmd, policy.Policy{})
		_, _ = invocation.New(did.Undef, did.Undef, cmd, nil)
		_, _ = did.Parse("")
		_, _ = command.Parse("")
		_, _ = selector.Parse("")
	})
	ChurnCalls.Add(int64(n))
}
