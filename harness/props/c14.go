package props

import (
	"fmt"
	"github.com/ipld/go-ipld-prime/node/basicnode"
	"math"
	"math/big"
	"math/rand/v2"
	"regexp"
	"strings"

	"github.com/ipld/go-ipld-prime"
	"github.com/ipld/go-ipld-prime/codec/dagjson"
	"github.com/ipld/go-ipld-prime/datamodel"

	"github.com/ucan-wg/go-ucan/pkg/policy"
	"github.com/ucan-wg/go-ucan/pkg/policy/selector"

	"verifharness/gen"
	"verifharness/mon"
	"verifharness/ref"
)

func init() {
	register(&mon.Prop{
		ID:    "C14",
		Level: "exploration",
		Rule: "selector texts: (a) rendered from random segment ASTs, (b) those mutated by character insert/delete/replace over {. [ ] \" ? : a 1 - \\ space}, every prefix and suffix, (c) exhaustive: all strings of length <=5 (thorough <=6) over {. [ ] \" ? : a 1 -} and all bracket bodies .[body] of length <=5 (<=6) over {1 - : a + \" space 0}. For every accepted text s: String() must re-parse, to the same segments (exported accessors) and the same Select results on a data corpus; against the independent parser R-selparse: where it accepts s the real segments must mean the same (and Select must agree with the reference interpreter), where it rejects s, either String() != s (a malformed part was silently dropped) or the segments read through the accessors must render back to the whole text (else part of the input influences nothing). " +
			"policies: ASTs of every statement kind rendered to IPLD and to DAG-JSON text plus structure-mutated IPLD (wrong arity, wrong kinds, unknown operators, extra elements): FromIPLD(n).ToIPLD() deep-equal to n modulo selector normalisation; constructor-built policies keep Match/PartialMatch on a data corpus after an IPLD round trip. " +
			"Purity (also in a -race build): a sample of these calls on shared objects is repeated in reverse / shuffled order and from 16..32 goroutines at once; every outcome must equal the first one and the race detector must stay silent. " +
			"non-trivial = accepted selector text with >=2 characters / accepted policy with >=1 statement; distinct = the text / the policy.",
		Assumptions: []string{
			"reference parser ref.ParseSel (100 lines, recursive descent); texts with a backslash or a quote inside a quoted field name are only checked for print -> re-parse stability",
			"tolerated spellings (not dropped input): identity segments and the optional flag on them, runs of '?'",
		},
		Shards:          shards(8, 16),
		RaceShards:      shards(1, 2),
		RaceIsViolation: true,
		Run:             runC14,
		MinEvals:        floor(90000, 1500000),
		MinDistinct:     floor(4000, 50000),
		RequiredCells: func(string) []string {
			return []string{"purity/parse-print/history", "purity/parse-print/concurrent", "sel/quoted-delimiters", "sel/dot-field-alphabet", "sel/accepted", "sel/rejected", "sel/model-accepts", "sel/model-rejects", "sel/undecided", "sel/normalised", "sel/mutated", "sel/exhaustive", "sel/prefix-suffix",
				"pol/ipld-roundtrip", "pol/dagjson-roundtrip", "pol/mutated-accepted", "pol/mutated-rejected", "pol/constructor-roundtrip", "ctor/rejected-selector-text"}
		},
	})
	addSelfTest("R-selparse vs in-tree supported forms", selfTestSelParse)
}

func selfTestSelParse() error {
	// from pkg/policy/selector/supported_test.go (forms) and parsing_test.go
	good := []string{".", ".?", ".foo", ".foo.bar", ".foo?", ".foo?.bar", `.["foo"]`, `.["foo"]?`, ".[0]", ".[-1]", ".[0]?", ".[]", ".[]?", ".[1:2]", ".[1:]", ".[:2]", ".[-2:]", ".foo[0]", `.foo["bar"]`, ".foo[].bar", `.["a.b"]`, ".foo??", "..foo", ".foo.[0]", `.[""]`}
	for _, s := range good {
		if _, ok, dec := ref.ParseSel(s); !ok || !dec {
			return fmt.Errorf("ParseSel rejects %q", s)
		}
	}
	bad := []string{"", "foo", "..", "...", ".[", ".[0", `.["a`, ".[:]", ".[a]", ".foo]", ".foo bar", ".[1:2:3]", ".1a", ".[+1]", `."`, `.foo["bar`, ".[9007199254740992]"}
	for _, s := range bad {
		if _, ok, dec := ref.ParseSel(s); ok || !dec {
			return fmt.Errorf("ParseSel accepts %q", s)
		}
	}
	sel, _, _ := ref.ParseSel(`.a["b c"][1:-2]?[].x?`)
	if len(sel) != 5 || sel[1].Name != "b c" || *sel[2].Lo != 1 || *sel[2].Hi != -2 || !sel[2].Opt || sel[3].Kind != ref.SIter || !sel[4].Opt {
		return fmt.Errorf("ParseSel structure wrong: %v", sel)
	}
	return nil
}

// realSegs converts a parsed go-ucan selector to reference segments through the
// exported accessors.
func realSegs(sel selector.Selector) ref.Sel {
	var out ref.Sel
	for _, g := range sel {
		switch {
		case g.Identity():
			out = append(out, ref.Seg{Kind: ref.SIdentity, Opt: g.Optional()})
		case g.Iterator():
			out = append(out, ref.Seg{Kind: ref.SIter, Opt: g.Optional()})
		case len(g.Slice()) > 0:
			sl := g.Slice()
			s := ref.Seg{Kind: ref.SSlice, Opt: g.Optional()}
			if sl[0] != math.MinInt {
				s.Lo = ref.I64(sl[0])
			}
			if len(sl) > 1 && sl[1] != math.MaxInt {
				s.Hi = ref.I64(sl[1])
			}
			out = append(out, s)
		case g.Field() != "" || strings.HasPrefix(strings.TrimRight(g.String(), "?"), `[""`):
			out = append(out, ref.Seg{Kind: ref.SField, Name: g.Field(), Opt: g.Optional(), Quoted: strings.HasPrefix(g.String(), "[")})
		default:
			out = append(out, ref.Seg{Kind: ref.SIndex, Idx: int64(g.Index()), Opt: g.Optional()})
		}
	}
	return out
}

func sameSegsExact(a, b ref.Sel) bool {
	if len(a) != len(b) {
		return false
	}
	for i := range a {
		if a[i].Kind != b[i].Kind || a[i].Opt != b[i].Opt {
			return false
		}
	}
	return ref.SameMeaning(a, b)
}

type c14Corpus struct {
	vals  []ref.V
	nodes []datamodel.Node
}

func newCorpus(r *rand.Rand, n int) *c14Corpus {
	c := &c14Corpus{}
	fixed := []ref.V{
		ref.Map(ref.E("a", ref.Int(1)), ref.E("", ref.Int(2)), ref.E("a1", ref.List(ref.Int(1), ref.Int(2), ref.Int(3)))),
		ref.List(ref.Map(ref.E("a", ref.Str("x"))), ref.Int(5), ref.Str("héllo"), ref.Bytes([]byte{1, 2, 3})),
		ref.Str("abcdef"), ref.Bytes([]byte{9, 8, 7, 6}), ref.Null(), ref.Int(3),
		ref.Map(ref.E("a", ref.Map(ref.E("a", ref.Map(ref.E("a", ref.List(ref.Int(1)))))))),
	}
	c.vals = append(c.vals, fixed...)
	for i := 0; i < n; i++ {
		c.vals = append(c.vals, c12Data(r, 3))
	}
	for _, v := range c.vals {
		c.nodes = append(c.nodes, v.Node())
	}
	return c
}

func selOutcome(sel selector.Selector, n datamodel.Node) selRes {
	out, err := sel.Select(n)
	switch {
	case err != nil:
		return selRes{class: ref.OError, err: err.Error()}
	case out == nil:
		return selRes{class: ref.ONoValue}
	}
	v, cerr := ref.FromNode(out)
	if cerr != nil {
		return selRes{class: ref.OError, err: "unconvertible: " + cerr.Error()}
	}
	return selRes{class: ref.OValue, val: v}
}

func c14Shape(s string) string {
	// a coarse class of the text for signatures: which special characters it has
	out := ""
	for _, c := range []string{`"`, "[", "]", "?", ":", `\`, ".."} {
		if strings.Contains(s, c) {
			out += c
		}
	}
	if out == "" {
		out = "plain"
	}
	return out
}

var c14RejCtr int

func c14Selector(w *mon.W, s string, corpus *c14Corpus, origin string) {
	sel, err := selector.Parse(s)
	w.Eval(1)
	w.Cover("sel/" + origin)
	msel, mok, decided := ref.ParseSel(s)
	switch {
	case !decided:
		w.Cover("sel/undecided")
	case mok:
		w.Cover("sel/model-accepts")
	default:
		w.Cover("sel/model-rejects")
	}
	if err != nil {
		w.Cover("sel/rejected")
		if decided && mok {
			w.Count("well-formed-by-model-but-rejected(not judged here)", 1)
		}
		// a text the parser rejects is rejected wherever it is handed in: every policy constructor
		// that takes a selector, alone and nested (sampled: one rejected text in eight)
		if c14RejCtr++; c14RejCtr%8 == 0 {
			one := basicnode.NewInt(1)
			inner := policy.Equal(".", one)
			ctors := []struct {
				name string
				c    policy.Constructor
			}{
				{"Equal", policy.Equal(s, one)}, {"GreaterThan", policy.GreaterThan(s, one)}, {"GreaterThanOrEqual", policy.GreaterThanOrEqual(s, one)},
				{"LessThan", policy.LessThan(s, one)}, {"LessThanOrEqual", policy.LessThanOrEqual(s, one)}, {"Like", policy.Like(s, "a*")},
				{"All", policy.All(s, inner)}, {"Any", policy.Any(s, inner)},
				{"Not(Equal)", policy.Not(policy.Equal(s, one))}, {"And(ok,Any)", policy.And(inner, policy.Any(s, inner))}, {"Or(All)", policy.Or(policy.All(s, inner))},
				{"All(ok,Equal)", policy.All(".", policy.Equal(s, one))},
			}
			for _, ct := range ctors {
				var pol policy.Policy
				var cerr error
				pi := mon.Guard(func() { pol, cerr = policy.Construct(ct.c) })
				w.Eval(1)
				w.Cover("ctor/rejected-selector-text")
				if pi == nil && cerr == nil {
					w.Violate("ctor/accepts-rejected-selector/"+ct.name, fmt.Sprintf("selector.Parse rejects %q (%v), but policy.%s builds a policy from it: %s", s, err, ct.name, mon.Trunc(pol.String(), 200)),
						map[string]any{"selector_text": s, "constructor": ct.name, "parse_error": err.Error(), "policy": mon.Trunc(pol.String(), 500)})
				}
			}
		}
		return
	}
	w.Cover("sel/accepted")
	if len(s) >= 2 {
		w.Distinct("sel", s)
	}
	c := map[string]any{"text": s, "hex": mon.Hex([]byte(s)), "origin": origin}
	s2 := sel.String()
	c["printed"] = s2
	if s2 != s {
		w.Cover("sel/normalised")
	}
	sel2, err2 := selector.Parse(s2)
	if err2 != nil {
		w.Violate("sel/print-not-reparsable/"+c14Shape(s), fmt.Sprintf("Parse(%q) succeeds, prints as %q, which does not parse: %v", s, s2, err2), c)
		return
	}
	rs, rs2 := realSegs(sel), realSegs(sel2)
	if !sameSegsExact(rs.Meaning(), rs2.Meaning()) {
		c["segments"] = fmt.Sprint(rs)
		c["segments_reparsed"] = fmt.Sprint(rs2)
		w.Violate("sel/reparse-differs/"+c14Shape(s), fmt.Sprintf("Parse(%q) and Parse(String()=%q) give different segments", s, s2), c)
		return
	}
	for i, n := range corpus.nodes {
		a, b := selOutcome(sel, n), selOutcome(sel2, n)
		w.Eval(2)
		if !a.same(b) {
			c["data"] = corpus.vals[i].String()
			w.Violate("sel/reparse-selects-differently/"+c14Shape(s), fmt.Sprintf("selector %q and its printed form %q select differently on %s: %s vs %s", s, s2, corpus.vals[i], a, b), c)
			return
		}
	}
	if !decided {
		return
	}
	if mok {
		if !ref.SameMeaning(rs, msel) {
			c["segments"] = fmt.Sprint(rs)
			c["model_segments"] = fmt.Sprint(msel)
			w.Violate("sel/misinterpreted/"+c14Shape(s), fmt.Sprintf("Parse(%q) yields segments %v, the grammar gives %v", s, rs.Meaning(), msel.Meaning()), c)
			return
		}
		for i, n := range corpus.nodes {
			mo, mv := ref.Select(msel, corpus.vals[i])
			if mo == ref.OUnspec {
				continue
			}
			a := selOutcome(sel, n)
			w.Eval(1)
			if !a.same(selRes{class: mo, val: mv}) {
				c["data"] = corpus.vals[i].String()
				w.Violate("sel/meaning-differs/"+c14Shape(s), fmt.Sprintf("selector text %q on %s: Select = %s, the text means %s %s", s, corpus.vals[i], a, mo, mv), c)
				return
			}
		}
	} else if c14Norm(s2) != c14Norm(s) {
		w.Violate("sel/malformed-part-dropped/"+c14Shape(s), fmt.Sprintf("Parse(%q) succeeds although the text is malformed, and prints as %q: part of the input was silently dropped", s, s2), c)
	} else {
		// accepted although the grammar rejects it, and printed back verbatim: every part of the
		// text must at least be reflected in the segments it was parsed to. Render the segments
		// (as read through the accessors) and compare with the text, runs of '?' collapsed.
		// (integers are compared by value: "[00]" is a spelling of "[0]", nothing is dropped)
		t := rs.Text()
		if c14Norm(t) != c14Norm(s) {
			c["segments"] = fmt.Sprint(rs)
			c["segments_rendered"] = t
			w.Violate("sel/text-not-reflected-in-segments/"+c14Shape(s), fmt.Sprintf("Parse(%q) succeeds although the text is malformed; its segments %v render as %q: part of the input influences nothing", s, rs, t), c)
		} else {
			w.Count("accepted-outside-model-grammar-but-fully-reflected(not judged)", 1)
			w.Note("outside-grammar-example/"+c14Shape(s), s)
		}
	}
	if w.WantSample() && len(sel) >= 3 && s2 != s {
		w.Sample(c)
	}
}

// ---- policies

func c14Policy(r *rand.Rand, depth int) ref.Stmt {
	selFor := func() ref.Sel {
		n := r.IntN(3)
		var s ref.Sel
		for i := 0; i < n; i++ {
			g := c12Seg(r, ref.Null(), false)
			for g.Kind == ref.SIdentity {
				g = c12Seg(r, ref.Null(), false)
			}
			s = append(s, g)
		}
		return s
	}
	k := r.IntN(11)
	if depth <= 0 && k >= 6 {
		k = r.IntN(6)
	}
	switch {
	case k < 5:
		return ref.Stmt{Kind: ref.CmpKinds[k], Sel: selFor(), Val: gen.Value(r, 2, gen.ValOpts{})}
	case k == 5:
		return ref.Stmt{Kind: "like", Sel: selFor(), Pat: gen.GlobFor(r, gen.String(r, gen.ValOpts{}))}
	case k == 6:
		return ref.Stmt{Kind: "not", Subs: []ref.Stmt{c14Policy(r, depth-1)}}
	case k == 7 || k == 8:
		s := ref.Stmt{Kind: []string{"and", "or"}[k-7]}
		for i := 0; i < r.IntN(4); i++ {
			s.Subs = append(s.Subs, c14Policy(r, depth-1))
		}
		return s
	default:
		return ref.Stmt{Kind: []string{"all", "any"}[k-9], Sel: selFor(), Subs: []ref.Stmt{c14Policy(r, depth-1)}}
	}
}

// polEqualModSel compares two policy IPLD trees; string leaves in selector positions are
// compared by meaning.
func polEqualModSel(a, b ref.V) bool {
	if ref.SameData(a, b) {
		return true
	}
	if a.K != b.K {
		return false
	}
	switch a.K {
	case ref.KList:
		if len(a.L) != len(b.L) {
			return false
		}
		// a statement: ["op", selector, ...]
		isStmt := len(a.L) >= 2 && a.L[0].K == ref.KString && b.L[0].K == ref.KString && a.L[0].S == b.L[0].S
		for i := range a.L {
			if isStmt && i == 1 && a.L[1].K == ref.KString && b.L[1].K == ref.KString && a.L[0].S != "not" && a.L[0].S != "and" && a.L[0].S != "or" {
				sa, oka, da := ref.ParseSel(a.L[1].S)
				sb, okb, db := ref.ParseSel(b.L[1].S)
				if da && db && oka && okb && ref.SameMeaning(sa, sb) {
					continue
				}
				if a.L[1].S != b.L[1].S {
					return false
				}
				continue
			}
			if !polEqualModSel(a.L[i], b.L[i]) {
				return false
			}
		}
		return true
	}
	return false
}

func mutatePolicyV(r *rand.Rand, v ref.V) (ref.V, string) {
	// pick a random statement list node and damage it
	out := cloneV(v)
	var stmts []*ref.V
	var walk func(n *ref.V)
	walk = func(n *ref.V) {
		if n.K == ref.KList {
			if len(n.L) >= 2 && n.L[0].K == ref.KString {
				stmts = append(stmts, n)
			}
			for i := range n.L {
				walk(&n.L[i])
			}
		}
	}
	walk(&out)
	if len(stmts) == 0 {
		return ref.Int(1), "not-a-list"
	}
	st := stmts[r.IntN(len(stmts))]
	switch r.IntN(10) {
	case 8:
		// null where the list of statements of a connective belongs (or the whole policy)
		if (st.L[0].S == "and" || st.L[0].S == "or") && len(st.L) == 2 {
			st.L[1] = ref.Null()
			return out, "statement-list-null"
		}
		return ref.Null(), "policy-null"
	case 9:
		if st.L[0].S == "not" && len(st.L) == 2 {
			st.L[1] = ref.Null()
			return out, "statement-null"
		}
		return ref.List(ref.List(ref.Str("or"), ref.Null())), "statement-list-null"
	case 0:
		st.L = append(st.L, ref.Str("extra"))
		return out, "extra-element"
	case 1:
		st.L = st.L[:len(st.L)-1]
		return out, "missing-element"
	case 2:
		st.L[0] = ref.Str(gen.Pick(r, []string{"=", "eq", "AND", "nor", "", "like ", "=== "}))
		return out, "unknown-operator"
	case 3:
		st.L[0] = ref.Int(1)
		return out, "operator-not-string"
	case 4:
		st.L[1] = ref.Int(1)
		return out, "arg1-wrong-kind"
	case 5:
		if st.L[1].K == ref.KString {
			st.L[1] = ref.Str(st.L[1].S + gen.Pick(r, []string{"[", `["x`, "]", " ", `"`}))
		}
		return out, "selector-damaged"
	case 6:
		st.L[len(st.L)-1] = ref.Map(ref.E("a", ref.Int(1)))
		return out, "last-arg-map"
	default:
		*st = ref.Map(ref.E("op", ref.Str("==")))
		return out, "statement-is-map"
	}
}

func c14PolicyRoundTrip(w *mon.W, v ref.V, origin, mutation string) {
	n := v.Node()
	pol, err := policy.FromIPLD(n)
	w.Eval(1)
	if err != nil {
		if mutation != "" {
			w.Cover("pol/mutated-rejected")
		}
		return
	}
	if mutation != "" {
		w.Cover("pol/mutated-accepted")
	}
	back, err := pol.ToIPLD()
	c := map[string]any{"policy": v.String(), "origin": origin, "mutation": mutation}
	if err != nil {
		w.Violate("pol/toipld-fails/"+origin, "FromIPLD accepted the policy but ToIPLD fails: "+err.Error(), c)
		return
	}
	bv, err := ref.FromNode(back)
	if err != nil {
		w.Violate("pol/toipld-unconvertible/"+origin, err.Error(), c)
		return
	}
	if len(v.L) > 0 {
		w.Distinct("pol", v.String())
	}
	if !polEqualModSel(v, bv) {
		c["written_back"] = bv.String()
		m := mutation
		if m == "" {
			m = "none"
		}
		w.Violate("pol/roundtrip-differs/"+origin+"/mutation="+m, fmt.Sprintf("policy %s read from IPLD is written back as %s", mon.Trunc(v.String(), 300), mon.Trunc(bv.String(), 300)), c)
	}
}

func runC14(w *mon.W) {
	if purityGate(w, c14Purity) {
		return
	}
	r := w.Rng
	corpus := newCorpus(r, 12)

	// (c) exhaustive small strings
	alpha := `.[]"?:a1-`
	idx := 0
	var rec func(cur []byte, n int)
	rec = func(cur []byte, n int) {
		if len(cur) == n {
			idx++
			if w.Mine(idx) {
				c14Selector(w, string(cur), corpus, "exhaustive")
			}
			return
		}
		for i := 0; i < len(alpha); i++ {
			if len(cur) == 0 && alpha[i] != '.' {
				continue // anything not starting with '.' is rejected at once; sampled below
			}
			rec(append(cur, alpha[i]), n)
		}
	}
	for n := 1; n <= w.Pick(5, 6); n++ {
		rec(nil, n)
	}
	// exhaustive bracket bodies: .[<body>] for every body of length <=5 (thorough <=6) over
	// the characters that can occur between brackets
	bodyAlpha := `1-:a+" 0`
	var recb func(cur []byte, n int)
	recb = func(cur []byte, n int) {
		if len(cur) == n {
			idx++
			if w.Mine(idx) {
				c14Selector(w, ".["+string(cur)+"]", corpus, "exhaustive")
				if idx%5 == 0 {
					c14Selector(w, ".a["+string(cur)+"]?.b", corpus, "exhaustive")
				}
			}
			return
		}
		for i := 0; i < len(bodyAlpha); i++ {
			recb(append(cur, bodyAlpha[i]), n)
		}
	}
	for n := 0; n <= w.Pick(5, 6); n++ {
		recb(nil, n)
	}
	for _, s := range []string{"", "a", "[0]", `"`, "?", "a.b", " .a"} {
		c14Selector(w, s, corpus, "exhaustive")
	}
	// quoted keys holding the characters that delimit segments: .["<body>"] for every body of
	// length <=4 over { a ] [ . ? : space }, alone and followed by another segment; and dot
	// fields spelled with characters outside [a-zA-Z0-9_]
	{
		qAlpha := []string{"a", "]", "[", ".", "?", ":", " "}
		for i, body := range allStrings4(qAlpha, 4) {
			if !w.Mine(i) {
				continue
			}
			c14Selector(w, `.["`+body+`"]`, corpus, "exhaustive")
			if i%3 == 0 {
				c14Selector(w, `.a["`+body+`"]?.b`, corpus, "exhaustive")
				c14Selector(w, `.["`+body+`"][0]`, corpus, "exhaustive")
			}
			w.Cover("sel/quoted-delimiters")
		}
		dAlpha := []string{"a", "-", "é", " ", "_", "0", "$", "A"}
		for i, body := range allStrings4(dAlpha, 3) {
			if !w.Mine(i) || body == "" {
				continue
			}
			c14Selector(w, "."+body, corpus, "exhaustive")
			if i%3 == 0 {
				c14Selector(w, ".x."+body+"[0]", corpus, "exhaustive")
			}
			w.Cover("sel/dot-field-alphabet")
		}
	}

	// (a) + (b)
	mutAlpha := []string{".", "[", "]", `"`, "?", ":", "a", "1", "-", `\`, " ", `["`, `"]`, "..", "[]"}
	total := w.Share(w.Pick(12000, 120000))
	for it := 0; it < total; it++ {
		n := 1 + r.IntN(5)
		var s ref.Sel
		for i := 0; i < n; i++ {
			g := c12Seg(r, ref.Null(), false)
			for g.Kind == ref.SIdentity && len(s) > 0 && s[len(s)-1].Kind == ref.SIdentity {
				g = c12Seg(r, ref.Null(), false)
			}
			s = append(s, g)
		}
		text := s.Text()
		c14Selector(w, text, corpus, "accepted")
		// every prefix and suffix
		if it%4 == 0 {
			for k := 1; k < len(text); k++ {
				c14Selector(w, text[:k], corpus, "prefix-suffix")
				if text[k] == '.' || text[k] == '[' {
					c14Selector(w, "."+text[k:], corpus, "prefix-suffix")
				}
			}
		}
		for m := 0; m < 6; m++ {
			b := text
			for e := 0; e < 1+r.IntN(2); e++ {
				p := r.IntN(len(b) + 1)
				switch r.IntN(3) {
				case 0:
					b = b[:p] + gen.Pick(r, mutAlpha) + b[p:]
				case 1:
					if p < len(b) {
						b = b[:p] + b[p+1:]
					}
				default:
					if p < len(b) {
						b = b[:p] + gen.Pick(r, mutAlpha) + b[p+1:]
					}
				}
			}
			c14Selector(w, b, corpus, "mutated")
		}
	}

	// policies
	ptotal := w.Share(w.Pick(15000, 200000))
	dataCorpus := newCorpus(r, 10)
	for it := 0; it < ptotal; it++ {
		var p ref.Policy
		for i := 0; i < 1+r.IntN(3); i++ {
			p = append(p, c14Policy(r, 3))
		}
		v := p.ToV()
		w.Cover("pol/ipld-roundtrip")
		c14PolicyRoundTrip(w, v, "ipld", "")
		if it%3 == 0 {
			mv, how := mutatePolicyV(r, v)
			c14PolicyRoundTrip(w, mv, "ipld", how)
		}
		if it%4 == 0 {
			// through DAG-JSON text
			txt, err := ipld.Encode(v.Node(), dagjson.Encode)
			if err == nil {
				pol, err := policy.FromDagJson(string(txt))
				w.Eval(1)
				w.Cover("pol/dagjson-roundtrip")
				if err == nil {
					back, err := pol.ToIPLD()
					if err != nil {
						w.Violate("pol/toipld-fails/dagjson", err.Error(), map[string]any{"json": string(txt)})
					} else if bv, err := ref.FromNode(back); err == nil {
						// compare with what the JSON text denotes (decode independently of the policy code)
						dn, derr := ipld.Decode(txt, dagjson.Decode)
						if derr == nil {
							dv, _ := ref.FromNode(dn)
							if !polEqualModSel(dv, bv) {
								w.Violate("pol/roundtrip-differs/dagjson", fmt.Sprintf("policy JSON %s is written back as %s", mon.Trunc(string(txt), 300), mon.Trunc(bv.String(), 300)), map[string]any{"json": string(txt), "written_back": bv.String()})
							}
						}
					}
				}
			}
		}
		if it%2 == 0 {
			// constructor-built policy keeps its matching behaviour through IPLD
			cp, err := gen.BuildPolicy(p)
			if err != nil {
				continue
			}
			n, err := cp.ToIPLD()
			if err != nil {
				w.Violate("pol/constructor-toipld-fails", err.Error(), map[string]any{"policy": p.String()})
				continue
			}
			rp, err := policy.FromIPLD(n)
			w.Cover("pol/constructor-roundtrip")
			if err != nil {
				w.Violate("pol/constructor-roundtrip-rejected", fmt.Sprintf("a policy built with the constructors is rejected after ToIPLD: %v", err), map[string]any{"policy": p.String()})
				continue
			}
			for i, dn := range dataCorpus.nodes {
				pi1 := mon.Guard(func() {
					m1, _ := cp.Match(dn)
					m2, _ := rp.Match(dn)
					p1, _ := cp.PartialMatch(dn)
					p2, _ := rp.PartialMatch(dn)
					w.Eval(4)
					if m1 != m2 || p1 != p2 {
						w.Violate("pol/constructor-roundtrip-behaviour", fmt.Sprintf("policy %s matches differently after an IPLD round trip on %s: Match %v->%v PartialMatch %v->%v", mon.Trunc(p.String(), 300), dataCorpus.vals[i], m1, m2, p1, p2),
							map[string]any{"policy": p.String(), "data": dataCorpus.vals[i].String()})
					}
				})
				if pi1 != nil {
					w.Count("match-panics(judged by C09)", 1)
				}
			}
		}
	}
}

func collapseQ(s string) string {
	for strings.Contains(s, "??") {
		s = strings.ReplaceAll(s, "??", "?")
	}
	return s
}

// c14Norm removes the spellings the printer is allowed to normalise away (they drop no input):
// runs of '?', the optional mark on an identity segment (".?" is "."), leading zeros of integers.
func c14Norm(s string) string {
	s = collapseQ(s)
	var b strings.Builder
	inQuote := false
	for i := 0; i < len(s); i++ {
		ch := s[i]
		if ch == '"' {
			inQuote = !inQuote
		}
		b.WriteByte(ch)
		if !inQuote && ch == '.' {
			for i+1 < len(s) && s[i+1] == '?' {
				i++
			}
		}
	}
	return normInts(b.String())
}

var intRun = regexp.MustCompile(`-?[0-9]+`)

// normInts rewrites every run of digits (with an optional minus sign) in its canonical
// decimal spelling, so that texts which differ only in leading zeros / "-0" compare equal.
func normInts(s string) string {
	return intRun.ReplaceAllStringFunc(s, func(m string) string {
		n, ok := new(big.Int).SetString(m, 10)
		if !ok {
			return m
		}
		return n.String()
	})
}
