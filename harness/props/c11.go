package props

import (
	"fmt"
	"math"
	"math/rand/v2"

	"github.com/ipld/go-ipld-prime/datamodel"

	"github.com/ucan-wg/go-ucan/pkg/policy"

	"verifharness/gen"
	"verifharness/mon"
	"verifharness/ref"
)

func init() {
	register(&mon.Prop{
		ID:    "C11",
		Level: "exploration",
		Rule: "seeded (policy, data) cases: policy ASTs to depth 4 over all 11 statement kinds; data trees of every kind (boundary ints, finite floats, NaN/Inf, empty collections, lists of maps under quantifiers). " +
			"(a) inside the fragment where every selector resolves: Match == conjunction of the classical reading (reference evaluator, no short-circuit); " +
			"(b) permutation groups: all orders (<=4) or 6 random orders of the operands of every and/or (any depth) and of the elements of every list visited by all/any must give the same Match and PartialMatch, on data that mixes present, missing-required and missing-optional paths; " +
			"(a2) numeric grid: every comparison kind (plain and negated) over every ordered pair of 45 delicate numbers - integers around +-2^53, +-2^62, the ends of int64 (where float64 rounding collapses neighbours), floats at the same places, +-0, +-MaxFloat64, denormals - same-kind and cross-kind; " +
			"(c) top-level and + one operand / all + one element never turns a failing Match into a passing one; (d) Match => PartialMatch; (e) Match(P1||P2) == Match(P1) && Match(P2), same for PartialMatch; " +
			"(f) a single top-level leaf over missing required data gives (Match false, PartialMatch true), over missing optional data passes both. " +
			"Purity (also in a -race build): a sample of these calls on shared objects is repeated in reverse / shuffled order and from 16..32 goroutines at once; every outcome must equal the first one and the race detector must stay silent. " +
			"non-trivial = policy with a connective/quantifier/negation or a non-equality leaf; distinct = (policy, data).",
		Assumptions: []string{
			"reference evaluator ref.Eval (120 lines); both the constructor-built and the IPLD-decoded form of each policy are matched",
			"not judged: empty or, NaN/Inf operands of ordering statements and NaN under ==, quantifiers whose selector yields a map or scalar, integers above 2^63-1; (c) is applied to statements not nested under not, and to Match only",
		},
		Shards:          shards(8, 16),
		RaceShards:      shards(1, 2),
		RaceIsViolation: true,
		Run:             runC11,
		MinEvals:        floor(150000, 4000000),
		MinDistinct:     floor(20000, 500000),
		RequiredCells: func(string) []string {
			cells := []string{"purity/policy-match/history", "purity/policy-match/concurrent", "grid", "grid/int-vs-int", "grid/float-vs-float", "grid/int-vs-float", "grid/float-vs-int", "grid/both-beyond-2^53", "a/true", "a/false", "a/map-literal-reordered", "a/link-same-hash-other-codec", "a/float-opposite-huge", "b/and", "b/or", "b/all", "b/any", "c/and", "c/all", "d", "e", "f/missing-required", "f/missing-optional", "data/nan-inf", "data/empty-collections", "via/constructors", "via/ipld", "via/dagjson", "twins", "twins/top", "twins/and", "twins/or"}
			for _, k := range ref.AllKinds {
				cells = append(cells, "a/kind/"+k)
			}
			for _, conn := range []string{"and", "or", "all", "any"} {
				for _, cls := range []string{"T", "F", "missing", "optional-missing"} {
					cells = append(cells, "b/"+conn+"/operand="+cls)
				}
			}
			return cells
		},
	})
}

// c11Data: a map with scalars, lists of ints, lists of small maps (some lacking keys).
func c11Data(r *rand.Rand) ref.V {
	scal := func() ref.V {
		switch r.IntN(8) {
		case 0:
			return ref.Int(gen.Int(r))
		case 1:
			return ref.Int(int64(r.IntN(5)))
		case 2:
			return ref.Float(gen.Float(r, gen.ValOpts{NonFinite: r.IntN(4) == 0, IntegralF: true}))
		case 3:
			return ref.Str(gen.String(r, gen.ValOpts{}))
		case 4:
			return ref.Bool(r.IntN(2) == 0)
		case 5:
			return ref.Bytes(gen.Bytes(r, r.IntN(3)))
		case 6:
			return ref.Null()
		default:
			return ref.Int(int64(r.IntN(3)))
		}
	}
	small := func() ref.V {
		m := ref.V{K: ref.KMap, M: []ref.KV{}}
		for _, k := range []string{"k", "v"} {
			if r.IntN(3) > 0 {
				m.M = append(m.M, ref.KV{K: k, V: ref.Int(int64(r.IntN(4)))})
			}
		}
		return m
	}
	d := ref.V{K: ref.KMap, M: []ref.KV{}}
	for _, k := range []string{"a", "b", "c"} {
		if r.IntN(4) > 0 {
			d.M = append(d.M, ref.KV{K: k, V: scal()})
		}
	}
	if r.IntN(5) > 0 {
		l := ref.V{K: ref.KList, L: []ref.V{}}
		for i := 0; i < r.IntN(5); i++ {
			l.L = append(l.L, small())
		}
		d.M = append(d.M, ref.KV{K: "xs", V: l})
	}
	if r.IntN(5) > 0 {
		l := ref.V{K: ref.KList, L: []ref.V{}}
		for i := 0; i < r.IntN(5); i++ {
			l.L = append(l.L, ref.Int(int64(r.IntN(6))))
		}
		d.M = append(d.M, ref.KV{K: "ys", V: l})
	}
	if r.IntN(3) == 0 {
		d.M = append(d.M, ref.KV{K: "m", V: ref.Map(ref.E("k", scal()), ref.E("z", ref.List()))})
	}
	return d
}

var c11ScalarKeys = []string{"a", "b", "c", "nope"}

// c11Leaf draws a leaf statement whose selector may be present, missing or optional-missing.
func c11Leaf(r *rand.Rand, d ref.V, elemScope bool) ref.Stmt {
	var sel ref.Sel
	if elemScope {
		switch r.IntN(4) {
		case 0:
			sel = ref.Sel{} // the element itself
		default:
			sel = ref.Sel{{Kind: ref.SField, Name: gen.Pick(r, []string{"k", "v", "nope"}), Opt: r.IntN(3) == 0}}
		}
	} else {
		sel = ref.Sel{{Kind: ref.SField, Name: gen.Pick(r, c11ScalarKeys), Opt: r.IntN(3) == 0}}
		if r.IntN(6) == 0 {
			sel = ref.Sel{{Kind: ref.SField, Name: "m"}, {Kind: ref.SField, Name: gen.Pick(r, []string{"k", "nope"}), Opt: r.IntN(2) == 0}}
		}
		if r.IntN(8) == 0 {
			sel = ref.Sel{{Kind: ref.SField, Name: "ys"}, {Kind: ref.SIndex, Idx: int64(r.IntN(4)) - 1, Opt: r.IntN(2) == 0}}
		}
	}
	// the value the selector reaches, if any, guides the literal
	var cur ref.V
	o, v := ref.Select(sel, d)
	if o == ref.OValue {
		cur = v
	} else {
		cur = ref.Int(int64(r.IntN(4)))
	}
	switch cur.K {
	case ref.KInt:
		lit := cur.I + int64(r.IntN(3)) - 1
		if lit > gen.MaxSafe || lit < -gen.MaxSafe {
			lit = cur.I
		}
		return ref.Stmt{Kind: gen.Pick(r, ref.CmpKinds), Sel: sel, Val: ref.Int(lit)}
	case ref.KFloat:
		if r.IntN(4) == 0 {
			return ref.Stmt{Kind: gen.Pick(r, ref.CmpKinds), Sel: sel, Val: ref.Int(int64(r.IntN(3)))} // int vs float: different kinds
		}
		f := cur.F
		if !math.IsNaN(f) && !math.IsInf(f, 0) {
			f += gen.Pick(r, []float64{0, 0, 0.5, -0.5})
		}
		return ref.Stmt{Kind: gen.Pick(r, ref.CmpKinds), Sel: sel, Val: ref.Float(f)}
	case ref.KString:
		if r.IntN(2) == 0 {
			return ref.Stmt{Kind: "like", Sel: sel, Pat: c11Glob(r, cur.S)}
		}
		return ref.Stmt{Kind: "==", Sel: sel, Val: ref.Str(cur.S + gen.Pick(r, []string{"", "", "x"}))}
	default:
		if r.IntN(4) == 0 {
			return ref.Stmt{Kind: gen.Pick(r, ref.CmpKinds[1:]), Sel: sel, Val: ref.Int(1)}
		}
		if r.IntN(4) == 0 {
			return ref.Stmt{Kind: "like", Sel: sel, Pat: "*"}
		}
		val := cur
		if r.IntN(2) == 0 {
			val = gen.Pick(r, []ref.V{ref.Null(), ref.Bool(true), ref.Bool(false), ref.Bytes(nil), ref.List(), ref.Map()})
		}
		return ref.Stmt{Kind: "==", Sel: sel, Val: val}
	}
}

func c11Stmt(r *rand.Rand, d ref.V, depth int, elemScope bool) ref.Stmt {
	k := r.IntN(10)
	if depth <= 0 {
		k = 0
	}
	switch {
	case k < 4:
		return c11Leaf(r, d, elemScope)
	case k == 4:
		return ref.Stmt{Kind: "not", Subs: []ref.Stmt{c11Stmt(r, d, depth-1, elemScope)}}
	case k < 8:
		s := ref.Stmt{Kind: gen.Pick(r, []string{"and", "or"})}
		n := 1 + r.IntN(4)
		if r.IntN(12) == 0 {
			n = 0
		}
		for i := 0; i < n; i++ {
			s.Subs = append(s.Subs, c11Stmt(r, d, depth-1, elemScope))
		}
		return s
	default:
		if elemScope {
			return c11Leaf(r, d, elemScope)
		}
		key := gen.Pick(r, []string{"xs", "xs", "ys", "nope"})
		sel := ref.Sel{{Kind: ref.SField, Name: key, Opt: r.IntN(4) == 0}}
		var elem ref.V = ref.Map()
		if l, ok := d.Get(key); ok && l.K == ref.KList && len(l.L) > 0 {
			elem = l.L[r.IntN(len(l.L))]
		}
		return ref.Stmt{Kind: gen.Pick(r, []string{"all", "any"}), Sel: sel, Subs: []ref.Stmt{c11Stmt(r, elem, depth-1, true)}}
	}
}

type c11Pol struct {
	ast  ref.Policy
	cons policy.Policy
	ipld policy.Policy
	json policy.Policy // read from DAG-JSON text (nil: not representable there)
}

func c11Build(w *mon.W, p ref.Policy) (*c11Pol, bool) {
	c, err := gen.BuildPolicy(p)
	if err != nil {
		w.Inconclusive("C11 policy could not be constructed: " + err.Error() + " " + p.String())
		return nil, false
	}
	i, err := gen.BuildPolicyIPLD(p)
	if err != nil {
		w.Inconclusive("C11 policy could not be read from IPLD: " + err.Error() + " " + p.String())
		return nil, false
	}
	out := &c11Pol{ast: p, cons: c, ipld: i}
	// the same policy written as DAG-JSON text by the harness and read with FromDagJson (bytes
	// and links take their {"/": ...} forms there)
	// (the dependency's DAG-JSON writer prints an integral-valued float without a decimal point -
	// known finding K3 -, so such policies have no faithful text form here and are left out)
	if txt, err := ref.EncodeDagJson(p.ToV()); err == nil && !hasIntegralFloat(p.ToV()) {
		if j, err := policy.FromDagJson(string(txt)); err == nil {
			out.json = j
		} else {
			w.Count("policy-not-readable-from-dagjson", 1)
		}
	}
	return out, true
}

type mres struct{ match, partial bool }

type c11Poison struct {
	pol  policy.Policy
	data datamodel.Node
}

var c11PoisonCtr int

// c11Poisons: == / ordering statements over containers whose comparison hits an unreadable
// integer (2^64-1) or a NaN while other, unequal pairs are still to be compared.
var c11Poisons = func() []c11Poison {
	big := ref.Uint(math.MaxUint64)
	cases := []struct{ lit, data ref.V }{
		{ref.List(ref.Int(6), ref.Int(1)), ref.List(ref.Int(5), big)},
		{ref.List(ref.Int(6), ref.Int(1), ref.Int(2)), ref.List(big, ref.Int(7), ref.Int(8))},
		{ref.Map(ref.E("a", ref.Int(1)), ref.E("b", ref.List(ref.Int(2), ref.Int(3)))), ref.Map(ref.E("a", big), ref.E("b", ref.List(ref.Int(9), ref.Int(9))))},
		{ref.List(ref.List(ref.Int(1), ref.Int(2)), ref.Int(3)), ref.List(ref.List(big, ref.Int(0)), ref.Int(4))},
		{ref.Int(5), big},
		{ref.List(ref.Float(1), ref.Float(2)), ref.List(ref.Float(math.NaN()), ref.Float(3))},
		{ref.Str("x"), ref.List(big)},
	}
	var out []c11Poison
	for _, c := range cases {
		for _, kind := range []string{"==", "<", ">="} {
			st := ref.Stmt{Kind: kind, Sel: ref.Sel{{Kind: ref.SField, Name: "v"}}, Val: c.lit}
			for _, wrap := range []bool{false, true} {
				s2 := st
				if wrap {
					s2 = ref.Stmt{Kind: "not", Subs: []ref.Stmt{st}}
				}
				if pol, err := gen.BuildPolicy(ref.Policy{s2}); err == nil {
					out = append(out, c11Poison{pol, ref.Map(ref.E("v", c.data)).Node()})
				}
			}
		}
	}
	return out
}()

// c11Match matches through one of the two forms (alternating), guarding against panics
// (which C09 judges).
func c11Match(w *mon.W, p *c11Pol, n datamodel.Node, via int) (mres, bool) {
	var out mres
	pol := p.cons
	switch {
	case via%3 == 2 && p.json != nil:
		pol = p.json
		w.Cover("via/dagjson")
	case via%2 == 1:
		pol = p.ipld
		w.Cover("via/ipld")
	default:
		w.Cover("via/constructors")
	}
	// every third judged match is preceded by a hostile one (lists holding integers above
	// MaxInt64 next to unequal elements, NaN, kind clashes - comparisons that fail or panic
	// inside the library and are recovered there): what it leaves behind must not matter
	if c11PoisonCtr++; c11PoisonCtr%3 == 0 {
		pp := c11Poisons[(c11PoisonCtr/3)%len(c11Poisons)]
		mon.Guard(func() { _, _ = pp.pol.Match(pp.data); _, _ = pp.pol.PartialMatch(pp.data) })
		w.Cover("after-hostile-match")
	}
	pi := mon.Guard(func() {
		out.match, _ = pol.Match(n)
		out.partial, _ = pol.PartialMatch(n)
	})
	w.Eval(2)
	if pi != nil {
		w.Count("match-panics(judged by C09)", 1)
		return out, false
	}
	return out, true
}

func perms(n int, r *rand.Rand) [][]int {
	id := make([]int, n)
	for i := range id {
		id[i] = i
	}
	if n <= 4 {
		var out [][]int
		var rec func(k int)
		rec = func(k int) {
			if k == n {
				out = append(out, append([]int{}, id...))
				return
			}
			for i := k; i < n; i++ {
				id[k], id[i] = id[i], id[k]
				rec(k + 1)
				id[k], id[i] = id[i], id[k]
			}
		}
		rec(0)
		return out
	}
	out := [][]int{append([]int{}, id...)}
	for i := 0; i < 6; i++ {
		p := append([]int{}, id...)
		r.Shuffle(n, func(a, b int) { p[a], p[b] = p[b], p[a] })
		out = append(out, p)
	}
	return out
}

func operandClass(s ref.Stmt, d ref.V) string {
	t, why := ref.Eval(s, d)
	switch {
	case t == ref.True:
		return "T"
	case t == ref.False:
		return "F"
	case why == ref.WOptional:
		return "optional-missing"
	case why == ref.WMissing:
		return "missing"
	}
	return "unspecified"
}

// connectives lists the paths (indexes into Subs) to every and/or with >=2 operands.
func connectives(s *ref.Stmt, path []int, out *[][]int) {
	if (s.Kind == "and" || s.Kind == "or") && len(s.Subs) >= 2 {
		*out = append(*out, append([]int{}, path...))
	}
	for i := range s.Subs {
		connectives(&s.Subs[i], append(path, i), out)
	}
}

func stmtAt(s *ref.Stmt, path []int) *ref.Stmt {
	for _, i := range path {
		s = &s.Subs[i]
	}
	return s
}

func cloneStmt(s ref.Stmt) ref.Stmt {
	o := s
	o.Subs = make([]ref.Stmt, len(s.Subs))
	for i := range s.Subs {
		o.Subs[i] = cloneStmt(s.Subs[i])
	}
	return o
}

func nontrivialPolicy(p ref.Policy) bool {
	for _, s := range p {
		if s.Kind != "==" {
			return true
		}
	}
	return len(p) > 1
}

func runC11(w *mon.W) {
	if purityGate(w, c11Purity) {
		return
	}
	c11NumericGrid(w)
	c11Twins(w)
	c11KindGrid(w)
	c11DeepNesting(w)
	r := w.Rng
	// ---------- (a) classical reading inside the resolving fragment
	na := w.Share(w.Pick(120000, 1500000))
	for it := 0; it < na; it++ {
		d := gen.MapValue(r, 3, gen.ValOpts{MaxWidth: 5, NonFinite: it%5 == 0, IntegralF: true, Links: true})
		if len(d.M) == 0 {
			continue
		}
		if it%5 == 0 {
			w.Cover("data/nan-inf")
		}
		var paths []gen.Path
		gen.Paths(d, nil, &paths, 3)
		var p ref.Policy
		for i := 0; i < 1+r.IntN(3); i++ {
			p = append(p, gen.StmtOver(r, d, paths, 3))
		}
		t, _ := ref.EvalPolicy(p, d)
		if t == ref.Unresolved {
			w.Count("a/skipped-unresolved-or-open", 1)
			continue
		}
		if reorderedMapLiteral(p, d) {
			w.Cover("a/map-literal-reordered")
		}
		c11CoverDelicate(w, p, d)
		bp, ok := c11Build(w, p)
		if !ok {
			continue
		}
		got, ok := c11Match(w, bp, d.Node(), it)
		if !ok {
			continue
		}
		w.Cover("a/" + t.String())
		var kinds []string
		for _, k := range ref.AllKinds {
			for _, s := range p {
				if containsKind(s, k) {
					w.Cover("a/kind/" + k)
					kinds = append(kinds, k)
					break
				}
			}
		}
		if nontrivialPolicy(p) {
			w.Distinct("a", p.String(), d.String())
		}
		if got.match != (t == ref.True) {
			// find the first statement that disagrees, for the signature
			kind := "policy"
			for _, s := range p {
				st, _ := ref.Eval(s, d)
				sp, ok1 := c11Build(w, ref.Policy{s})
				if !ok1 {
					continue
				}
				g, ok2 := c11Match(w, sp, d.Node(), it)
				if ok2 && g.match != (st == ref.True) {
					kind = innermostDisagreeing(w, s, d, it)
					break
				}
			}
			w.Violate(fmt.Sprintf("a/match=%v/model=%s/%s", got.match, t, kind),
				fmt.Sprintf("every selector resolves; Match = %v but the classical reading gives %s for %s on %s", got.match, t, mon.Trunc(p.String(), 400), mon.Trunc(d.String(), 300)),
				map[string]any{"policy": p.String(), "data": d.String(), "match": got.match, "model": t.String()})
		}
		if got.match && !got.partial {
			w.Violate("d/match-without-partial", "Match is true but PartialMatch is false", map[string]any{"policy": p.String(), "data": d.String()})
		}
		if w.WantSample() && len(kinds) >= 3 {
			w.Sample(map[string]any{"policy": p.String(), "data": d.String(), "match": got.match, "partial": got.partial, "model": t.String()})
		}
	}

	// like over a two-letter alphabet: wildcards followed by self-overlapping literals
	for it := 0; it < w.Share(w.Pick(18000, 100000)); it++ {
		mk := func(n int, alpha string) string {
			b := make([]byte, n)
			for i := range b {
				b[i] = alpha[r.IntN(len(alpha))]
			}
			return string(b)
		}
		str := mk(r.IntN(8), "ab")
		pat := mk(1+r.IntN(6), "ab*")
		if r.IntN(3) == 0 && len(str) > 0 {
			pat = "*" + str[r.IntN(len(str)):]
		}
		d := ref.Map(ref.E("s", ref.Str(str)))
		st := ref.Stmt{Kind: "like", Sel: ref.Sel{{Kind: ref.SField, Name: "s"}}, Pat: pat}
		if r.IntN(4) == 0 {
			st = ref.Stmt{Kind: "not", Subs: []ref.Stmt{st}}
		}
		p := ref.Policy{st}
		t, _ := ref.EvalPolicy(p, d)
		bp, ok := c11Build(w, p)
		if !ok || t == ref.Unresolved {
			continue
		}
		got, ok := c11Match(w, bp, d.Node(), it)
		if !ok {
			continue
		}
		w.Cover("a/kind/like")
		w.Distinct("like", pat, str)
		if got.match != (t == ref.True) {
			w.Violate(fmt.Sprintf("a/match=%v/model=%s/like", got.match, t), fmt.Sprintf("Match = %v but the classical reading gives %s for %s on %s", got.match, t, p, d),
				map[string]any{"policy": p.String(), "data": d.String(), "match": got.match, "model": t.String()})
		}
	}

	// ---------- (b)-(f) on mixed present / missing / optional-missing data
	nb := w.Share(w.Pick(30000, 300000))
	for it := 0; it < nb; it++ {
		d := c11Data(r)
		dn := d.Node()
		if l, ok := d.Get("xs"); ok && len(l.L) == 0 {
			w.Cover("data/empty-collections")
		}
		s := c11Stmt(r, d, 3, false)
		p := ref.Policy{s}
		bp, ok := c11Build(w, p)
		if !ok {
			continue
		}
		base, ok := c11Match(w, bp, dn, it)
		if !ok {
			continue
		}
		w.Distinct("b", p.String(), d.String())
		// (d)
		w.Cover("d")
		if base.match && !base.partial {
			w.Violate("d/match-without-partial", "Match is true but PartialMatch is false", map[string]any{"policy": p.String(), "data": d.String()})
		}
		// (b) operand permutations of every and/or
		var conns [][]int
		connectives(&s, nil, &conns)
		for _, path := range conns {
			orig := stmtAt(&s, path)
			for _, c := range orig.Subs {
				// operand classes are relative to the data the connective is evaluated on; at the top
				// level that is d (good enough for coverage accounting)
				if len(path) == 0 {
					w.Cover("b/" + orig.Kind + "/operand=" + operandClass(c, d))
				}
			}
			for _, pm := range perms(len(orig.Subs), r)[1:] {
				s2 := cloneStmt(s)
				tgt := stmtAt(&s2, path)
				subs := make([]ref.Stmt, len(pm))
				for i, j := range pm {
					subs[i] = orig.Subs[j]
				}
				tgt.Subs = subs
				bp2, ok := c11Build(w, ref.Policy{s2})
				if !ok {
					continue
				}
				got, ok := c11Match(w, bp2, dn, it)
				if !ok {
					continue
				}
				w.Cover("b/" + orig.Kind)
				if got != base {
					var cls []string
					for _, c := range orig.Subs {
						cls = append(cls, operandClass(c, d))
					}
					which := "match"
					if got.match == base.match {
						which = "partial"
					}
					w.Violate(fmt.Sprintf("b/order-dependent/%s/%s/depth=%d", orig.Kind, which, len(path)),
						fmt.Sprintf("reordering the operands of an %q changes the outcome: %s -> Match=%v PartialMatch=%v ; %s -> Match=%v PartialMatch=%v ; data %s (operand classes at top level: %v)",
							orig.Kind, mon.Trunc(s.String(), 300), base.match, base.partial, mon.Trunc(s2.String(), 300), got.match, got.partial, mon.Trunc(d.String(), 300), cls),
						map[string]any{"policy": s.String(), "permuted": s2.String(), "data": d.String(), "base": base, "got": got})
					break
				}
			}
		}
		// (b) element permutations of the lists visited by quantifiers (top-level quantifier over xs / ys)
		if (s.Kind == "all" || s.Kind == "any") && len(s.Sel) == 1 {
			key := s.Sel[0].Name
			if l, ok := d.Get(key); ok && l.K == ref.KList && len(l.L) >= 2 {
				for _, e := range l.L {
					w.Cover("b/" + s.Kind + "/operand=" + operandClass(s.Subs[0], e))
				}
				for _, pm := range perms(len(l.L), r)[1:] {
					d2 := cloneV(d)
					for i := range d2.M {
						if d2.M[i].K == key {
							nl := make([]ref.V, len(pm))
							for a, b := range pm {
								nl[a] = l.L[b]
							}
							d2.M[i].V = ref.V{K: ref.KList, L: nl}
						}
					}
					got, ok := c11Match(w, bp, d2.Node(), it)
					if !ok {
						continue
					}
					w.Cover("b/" + s.Kind)
					if got != base {
						var cls []string
						for _, e := range l.L {
							cls = append(cls, operandClass(s.Subs[0], e))
						}
						which := "match"
						if got.match == base.match {
							which = "partial"
						}
						w.Violate(fmt.Sprintf("b/order-dependent/%s/%s/elements", s.Kind, which),
							fmt.Sprintf("reordering the elements visited by %q changes the outcome: %s on %s -> Match=%v PartialMatch=%v ; on %s -> Match=%v PartialMatch=%v (element classes %v)",
								s.Kind, mon.Trunc(s.String(), 300), mon.Trunc(d.String(), 300), base.match, base.partial, mon.Trunc(d2.String(), 300), got.match, got.partial, cls),
							map[string]any{"policy": s.String(), "data": d.String(), "permuted_data": d2.String(), "base": base, "got": got})
						break
					}
				}
				// (c) all + one element
				if s.Kind == "all" && !base.match {
					d3 := cloneV(d)
					for i := range d3.M {
						if d3.M[i].K == key {
							extra := c11Data(r)
							el := ref.V(ref.Map())
							if x, ok := extra.Get("xs"); ok && len(x.L) > 0 {
								el = x.L[0]
							}
							if key == "ys" {
								el = ref.Int(int64(r.IntN(6)))
							}
							pos := r.IntN(len(l.L) + 1)
							nl := append(append(append([]ref.V{}, l.L[:pos]...), el), l.L[pos:]...)
							d3.M[i].V = ref.V{K: ref.KList, L: nl}
						}
					}
					got, ok := c11Match(w, bp, d3.Node(), it)
					w.Cover("c/all")
					if ok && got.match {
						w.Violate("c/all-plus-element", fmt.Sprintf("adding an element under all turned a failing Match into a passing one: %s on %s then %s", mon.Trunc(s.String(), 300), d, d3),
							map[string]any{"policy": s.String(), "data": d.String(), "extended_data": d3.String()})
					}
				}
			}
		}
		// (c) top-level and + one operand
		if s.Kind == "and" && !base.match {
			s4 := cloneStmt(s)
			extra := c11Stmt(r, d, 2, false)
			pos := r.IntN(len(s4.Subs) + 1)
			s4.Subs = append(append(append([]ref.Stmt{}, s4.Subs[:pos]...), extra), s4.Subs[pos:]...)
			if bp4, ok := c11Build(w, ref.Policy{s4}); ok {
				got, ok := c11Match(w, bp4, dn, it)
				w.Cover("c/and")
				if ok && got.match {
					w.Violate("c/and-plus-operand/"+operandClass(extra, d), fmt.Sprintf("adding an operand (%s, position %d) to a failing top-level and made it pass: %s -> %s on %s", extra, pos, mon.Trunc(s.String(), 300), mon.Trunc(s4.String(), 300), d),
						map[string]any{"policy": s.String(), "extended": s4.String(), "data": d.String(), "added_operand_class": operandClass(extra, d)})
				}
			}
		}
		// (e) concatenation
		if it%2 == 0 {
			q := ref.Policy{c11Stmt(r, d, 2, false), c11Stmt(r, d, 2, false)}
			p1, ok1 := c11Build(w, ref.Policy{s})
			p2, ok2 := c11Build(w, q)
			p12, ok3 := c11Build(w, append(ref.Policy{s}, q...))
			if ok1 && ok2 && ok3 {
				r1, a := c11Match(w, p1, dn, it)
				r2, b := c11Match(w, p2, dn, it)
				r12, c := c11Match(w, p12, dn, it)
				w.Cover("e")
				if a && b && c && (r12.match != (r1.match && r2.match) || r12.partial != (r1.partial && r2.partial)) {
					w.Violate("e/concatenation", fmt.Sprintf("matching the concatenation differs from matching the parts: P1=%s (%v) P2=%s (%v) P1||P2 (%v) on %s", s, r1, q, r2, r12, d),
						map[string]any{"p1": s.String(), "p2": q.String(), "data": d.String(), "r1": r1, "r2": r2, "r12": r12})
				}
			}
		}
		// (f) single top-level leaf
		if it%2 == 1 {
			leaf := c11Leaf(r, d, false)
			_, why := ref.Eval(leaf, d)
			if why == ref.WMissing || why == ref.WOptional {
				if lp, ok := c11Build(w, ref.Policy{leaf}); ok {
					got, ok := c11Match(w, lp, dn, it)
					if ok {
						if why == ref.WMissing {
							w.Cover("f/missing-required")
							if got.match || !got.partial {
								w.Violate(fmt.Sprintf("f/missing-required/match=%v/partial=%v/%s", got.match, got.partial, leaf.Kind), fmt.Sprintf("leaf %s over missing required data on %s: Match=%v PartialMatch=%v, want false/true", leaf, d, got.match, got.partial),
									map[string]any{"statement": leaf.String(), "data": d.String()})
							}
						} else {
							w.Cover("f/missing-optional")
							if !got.match || !got.partial {
								w.Violate(fmt.Sprintf("f/missing-optional/match=%v/partial=%v/%s", got.match, got.partial, leaf.Kind), fmt.Sprintf("leaf %s over missing optional data on %s: Match=%v PartialMatch=%v, want true/true", leaf, d, got.match, got.partial),
									map[string]any{"statement": leaf.String(), "data": d.String()})
							}
						}
					}
				}
			}
		}
	}
}

// innermostDisagreeing descends into a disagreeing statement to name the innermost kind
// whose own verdict differs from the model (for a specific signature).
func innermostDisagreeing(w *mon.W, s ref.Stmt, d ref.V, via int) string {
	for _, c := range s.Subs {
		if s.Kind == "all" || s.Kind == "any" {
			break
		}
		ct, _ := ref.Eval(c, d)
		if ct == ref.Unresolved {
			continue
		}
		cp, ok := c11Build(w, ref.Policy{c})
		if !ok {
			continue
		}
		g, ok := c11Match(w, cp, d.Node(), via)
		if ok && g.match != (ct == ref.True) {
			return innermostDisagreeing(w, c, d, via)
		}
	}
	k := s.Kind
	switch s.Kind {
	case "==", "<", "<=", ">", ">=":
		o, v := ref.Select(s.Sel, d)
		if o == ref.OValue {
			k += "/" + v.K.String() + "-vs-" + s.Val.K.String()
		}
	}
	return k
}

// reorderedMapLiteral tells whether some == literal is a map equal to the selected data
// but listing its entries in a different order (the case an order-sensitive comparison gets
// wrong).
func reorderedMapLiteral(p ref.Policy, d ref.V) bool {
	var walk func(s ref.Stmt, d ref.V) bool
	walk = func(s ref.Stmt, d ref.V) bool {
		if s.Kind == "==" && s.Val.K == ref.KMap && len(s.Val.M) >= 2 {
			if o, v := ref.Select(s.Sel, d); o == ref.OValue && ref.Equal(v, s.Val) && !ref.SameKeyOrder(v, s.Val) {
				return true
			}
		}
		if s.Kind == "all" || s.Kind == "any" {
			return false
		}
		for _, c := range s.Subs {
			if walk(c, d) {
				return true
			}
		}
		return false
	}
	for _, s := range p {
		if walk(s, d) {
			return true
		}
	}
	return false
}

// c11Glob draws a pattern for a string: related to it, or over the string's own small
// alphabet (self-overlapping literals after a wildcard are where backtracking matters).
func c11Glob(r *rand.Rand, s string) string {
	if r.IntN(2) == 0 || len(s) == 0 {
		return gen.GlobFor(r, s)
	}
	var b []byte
	for i := 0; i < 1+r.IntN(6); i++ {
		switch r.IntN(4) {
		case 0:
			b = append(b, '*')
		default:
			b = append(b, gen.EscapeGlob(string(s[r.IntN(len(s))]))...)
		}
	}
	if r.IntN(2) == 0 {
		// a suffix of the string behind a wildcard
		k := r.IntN(len(s))
		return "*" + gen.EscapeGlob(s[k:])
	}
	return string(b)
}

// c11CoverDelicate records delicate operand pairs that occurred: links that share a
// multihash but are different links, and ordering of huge floats of opposite sign.
func c11CoverDelicate(w *mon.W, p ref.Policy, d ref.V) {
	var walk func(s ref.Stmt, d ref.V)
	walk = func(s ref.Stmt, d ref.V) {
		if len(s.Subs) == 0 {
			if o, v := ref.Select(s.Sel, d); o == ref.OValue {
				if s.Kind == "==" && v.K == ref.KLink && s.Val.K == ref.KLink && !v.C.Equals(s.Val.C) && string(v.C.Hash()) == string(s.Val.C.Hash()) {
					w.Cover("a/link-same-hash-other-codec")
				}
				if s.Kind != "==" && s.Kind != "like" && v.K == ref.KFloat && s.Val.K == ref.KFloat && math.Abs(v.F) > 1e307 && math.Abs(s.Val.F) > 1e307 && (v.F < 0) != (s.Val.F < 0) {
					w.Cover("a/float-opposite-huge")
				}
			}
			return
		}
		if s.Kind == "all" || s.Kind == "any" {
			return
		}
		for _, c := range s.Subs {
			walk(c, d)
		}
	}
	for _, s := range p {
		walk(s, d)
	}
}

// c11NumericGrid: every comparison kind over every ordered pair of a grid of delicate numbers
// (integers around +-2^53 and +-2^63 where float64 rounding collapses neighbours, floats
// around the same places and at the ends of the range, signed zeros), same-kind and
// cross-kind (int literal vs float data and vice versa), as a single statement and negated.
// Literals outside +-(2^53-1) can only be built with the constructors (the IPLD decoder
// rejects them), so those go through the constructor form only.
func c11NumericGrid(w *mon.W) {
	ints := []int64{0, 1, -1, 2, 1 << 24, 1<<24 + 1, gen.MaxSafe - 1, gen.MaxSafe, gen.MaxSafe + 1, gen.MaxSafe + 2, gen.MaxSafe + 3,
		-(gen.MaxSafe - 1), -gen.MaxSafe, -(gen.MaxSafe + 1), -(gen.MaxSafe + 2), 1 << 62, 1<<62 + 1, -(1 << 62), -(1<<62 + 1),
		math.MaxInt64, math.MaxInt64 - 1, math.MaxInt64 - 512, math.MinInt64, math.MinInt64 + 1}
	floats := []float64{0, math.Copysign(0, -1), 0.5, -0.5, 1, -1, 1 << 53, 1<<53 + 2, -(1 << 53), 9007199254740993, 1e308, -1e308, math.MaxFloat64, -math.MaxFloat64,
		math.SmallestNonzeroFloat64, -math.SmallestNonzeroFloat64, 1.5e308, -1.5e308, 16777217, 0.1 + 0.2, 0.3}
	var nums []ref.V
	for _, i := range ints {
		nums = append(nums, ref.Int(i))
	}
	for _, f := range floats {
		nums = append(nums, ref.Float(f))
	}
	// as data only: non-finite floats and integers above MaxInt64 (CBOR can carry them)
	datas := append(append([]ref.V{}, nums...), ref.Float(math.NaN()), ref.Float(math.Inf(1)), ref.Float(math.Inf(-1)), ref.Uint(1<<63), ref.Uint(1<<63+1), ref.Uint(math.MaxUint64))
	sel := ref.Sel{{Kind: ref.SField, Name: "n"}}
	idx := 0
	// literals: the same numbers plus integers above MaxInt64 (constructors only)
	lits := append(append([]ref.V{}, nums...), ref.Uint(1<<63), ref.Uint(math.MaxUint64))
	for _, lit := range lits {
		for _, kind := range ref.CmpKinds {
			idx++
			if !w.Mine(idx) {
				continue
			}
			for _, neg := range []bool{false, true} {
				st := ref.Stmt{Kind: kind, Sel: sel, Val: lit}
				if neg {
					st = ref.Stmt{Kind: "not", Subs: []ref.Stmt{st}}
				}
				p := ref.Policy{st}
				cons, err := gen.BuildPolicy(p)
				if err != nil {
					w.Inconclusive("C11 numeric grid: constructor refused " + p.String() + ": " + err.Error())
					continue
				}
				var viaIPLD policy.Policy
				if intsInRange(lit) {
					viaIPLD, _ = gen.BuildPolicyIPLD(p)
				}
				for _, x := range datas {
					d := ref.Map(ref.E("n", x))
					t, _ := ref.EvalPolicy(p, d)
					if t == ref.Unresolved {
						continue
					}
					if x.K == ref.KUint || (x.K == ref.KFloat && (math.IsNaN(x.F) || math.IsInf(x.F, 0))) {
						w.Cover("grid/nan-inf-uint-data")
					}
					want := t == ref.True
					for vi, pol := range []policy.Policy{cons, viaIPLD} {
						if pol == nil {
							continue
						}
						var m, pm bool
						if pi := mon.Guard(func() {
							m, _ = pol.Match(d.Node())
							pm, _ = pol.PartialMatch(d.Node())
						}); pi != nil {
							w.Count("match-panics(judged by C09)", 1)
							continue
						}
						w.Eval(2)
						w.Cover("grid")
						cls := lit.K.String() + "-vs-" + x.K.String()
						w.Cover("grid/" + cls)
						if lit.K == ref.KInt && x.K == ref.KInt && !intsInRange(lit) && !intsInRange(x) {
							w.Cover("grid/both-beyond-2^53")
						}
						w.Distinct("grid", kind, neg, lit.String(), x.String(), vi)
						if m != want || pm != want {
							w.Violate(fmt.Sprintf("a/grid/%s/%s/match=%v", kind, cls, m),
								fmt.Sprintf("policy %s on %s: Match=%v PartialMatch=%v, classical reading says %v (form %s)", p, d, m, pm, want, []string{"constructors", "ipld"}[vi]),
								map[string]any{"policy": p.String(), "data": d.String(), "match": m, "partial": pm, "model": want, "form": []string{"constructors", "ipld"}[vi]})
						}
					}
				}
			}
		}
	}
}

// c11KindGrid: == (plain and negated) over every ordered pair of values that print alike or
// are easily confused but are different values: 1 / 1.0 / "1" / [1] / {"1":1}, true / "true",
// bytes vs the string with the same bytes, a link vs its string form, null vs "null" vs an
// empty list / map / string, nested containers differing in one deep leaf. Equal exactly when
// the reference equality (same kind, same content; maps unordered) says so; ordering
// statements never hold across kinds.
func c11KindGrid(w *mon.W) {
	lk := gen.LinkPool()[0]
	deep := func(leaf ref.V) ref.V {
		return ref.Map(ref.E("a", ref.List(ref.Int(1), ref.Map(ref.E("b", ref.List(ref.Str("x"), leaf))))), ref.E("c", ref.Null()))
	}
	vals := []ref.V{
		ref.Int(1), ref.Float(1), ref.Str("1"), ref.List(ref.Int(1)), ref.Map(ref.E("1", ref.Int(1))), ref.Int(0), ref.Float(0), ref.Str("0"), ref.Bool(false), ref.Str("false"),
		ref.Bool(true), ref.Str("true"), ref.Bytes([]byte("abc")), ref.Str("abc"), ref.Link(lk), ref.Str(lk.String()), ref.Bytes(lk.Bytes()),
		ref.Null(), ref.Str("null"), ref.Str(""), ref.Bytes(nil), ref.List(), ref.Map(), ref.List(ref.Null()), ref.List(ref.List()),
		deep(ref.Int(7)), deep(ref.Int(8)), deep(ref.Float(7)), ref.List(ref.Int(1), ref.Int(2)), ref.List(ref.Int(2), ref.Int(1)),
		ref.Map(ref.E("a", ref.Int(1)), ref.E("b", ref.Int(2))), ref.Map(ref.E("b", ref.Int(2)), ref.E("a", ref.Int(1))), ref.Map(ref.E("a", ref.Int(1))),
		ref.Int(-1), ref.Str("-1"), ref.Float(-1), ref.Str("é"), ref.Str("é"),
	}
	sel := ref.Sel{{Kind: ref.SField, Name: "v"}}
	idx := 0
	for _, lit := range vals {
		for _, kind := range []string{"==", "<=", ">"} {
			idx++
			if !w.Mine(idx) {
				continue
			}
			if kind != "==" && !lit.IsNumber() {
				continue
			}
			for _, neg := range []bool{false, true} {
				st := ref.Stmt{Kind: kind, Sel: sel, Val: lit}
				if neg {
					st = ref.Stmt{Kind: "not", Subs: []ref.Stmt{st}}
				}
				p := ref.Policy{st}
				var pols []policy.Policy
				if c, err := gen.BuildPolicy(p); err == nil {
					pols = append(pols, c)
				}
				if ip, err := gen.BuildPolicyIPLD(p); err == nil {
					pols = append(pols, ip)
				}
				for _, x := range vals {
					d := ref.Map(ref.E("v", x))
					t, _ := ref.EvalPolicy(p, d)
					if t == ref.Unresolved {
						continue
					}
					want := t == ref.True
					for vi, pol := range pols {
						var m, pm bool
						if pi := mon.Guard(func() {
							m, _ = pol.Match(d.Node())
							pm, _ = pol.PartialMatch(d.Node())
						}); pi != nil {
							w.Count("match-panics(judged by C09)", 1)
							continue
						}
						w.Eval(2)
						w.Cover("kind-grid")
						if lit.K != x.K {
							w.Cover("kind-grid/cross-kind")
						}
						w.Distinct("kind-grid", kind, neg, lit.String(), x.String(), vi)
						if m != want || pm != want {
							w.Violate(fmt.Sprintf("a/kind-grid/%s/%s-vs-%s/match=%v", kind, lit.K, x.K, m),
								fmt.Sprintf("policy %s on %s: Match=%v PartialMatch=%v, classical reading says %v", p, d, m, pm, want),
								map[string]any{"policy": p.String(), "data": d.String(), "match": m, "partial": pm, "model": want, "form": vi})
						}
					}
				}
			}
		}
	}
}

// c11DeepNesting: a statement under d enclosing not / and / or statements, d on both sides of
// every plausible limit (up to 300): the value of the whole follows from the leaf by the
// classical reading whatever the depth - a depth guard that substitutes a constant is
// flipped by the enclosing negations. Built through the constructors and through IPLD.
func c11DeepNesting(w *mon.W) {
	r := w.Rng
	depths := []int{5, 16, 17, 31, 32, 33, 34, 63, 64, 65, 100, 127, 128, 129, 130, 200, 255, 256, 257, 300}
	idx := 0
	for _, d := range depths {
		for variant := 0; variant < 6; variant++ {
			idx++
			if !w.Mine(idx) {
				continue
			}
			leafTrue := variant%2 == 0
			data := ref.Map(ref.E("a", ref.Int(1)))
			st := ref.Stmt{Kind: "==", Sel: ref.Sel{{Kind: ref.SField, Name: "a"}}, Val: ref.Int(1)}
			if !leafTrue {
				st.Val = ref.Int(2)
			}
			for i := 0; i < d; i++ {
				k := "not"
				switch variant / 2 {
				case 1:
					k = []string{"not", "and", "or"}[i%3]
				case 2:
					k = []string{"not", "not", "and", "or", "not"}[r.IntN(5)]
				}
				switch k {
				case "not":
					st = ref.Stmt{Kind: "not", Subs: []ref.Stmt{st}}
				case "and":
					st = ref.Stmt{Kind: "and", Subs: []ref.Stmt{{Kind: "==", Sel: ref.Sel{{Kind: ref.SField, Name: "a"}}, Val: ref.Int(1)}, st}}
				default:
					st = ref.Stmt{Kind: "or", Subs: []ref.Stmt{st, {Kind: "==", Sel: ref.Sel{{Kind: ref.SField, Name: "a"}}, Val: ref.Int(3)}}}
				}
			}
			p := ref.Policy{st}
			t, _ := ref.EvalPolicy(p, data)
			if t == ref.Unresolved {
				continue
			}
			want := t == ref.True
			var pols []policy.Policy
			if c, err := gen.BuildPolicy(p); err == nil {
				pols = append(pols, c)
			} else {
				w.Count("deep/constructor-refused", 1)
			}
			if ip, err := gen.BuildPolicyIPLD(p); err == nil {
				pols = append(pols, ip)
			} else {
				w.Count("deep/ipld-refused", 1)
			}
			for vi, pol := range pols {
				var m, pm bool
				if pi := mon.Guard(func() {
					m, _ = pol.Match(data.Node())
					pm, _ = pol.PartialMatch(data.Node())
				}); pi != nil {
					w.Count("match-panics(judged by C09)", 1)
					continue
				}
				w.Eval(2)
				w.Cover("deep-nesting")
				if d > 128 {
					w.Cover("deep-nesting/over-128")
				}
				w.Distinct("deep", d, variant, vi)
				if m != want || pm != want {
					w.Violate(fmt.Sprintf("a/deep-nesting/match=%v/want=%v", m, want),
						fmt.Sprintf("a leaf that is %v under %d enclosing not/and/or statements: Match=%v PartialMatch=%v, the classical reading gives %v (form %d)", leafTrue, d, m, pm, want, vi),
						map[string]any{"depth": d, "leaf_true": leafTrue, "variant": variant, "match": m, "partial": pm, "model": want, "policy_head": mon.Trunc(p.String(), 300)})
				}
			}
		}
	}
}

// hasIntegralFloat: a float without fractional part somewhere in the value.
func hasIntegralFloat(v ref.V) bool {
	switch v.K {
	case ref.KFloat:
		return !math.IsInf(v.F, 0) && !math.IsNaN(v.F) && v.F == math.Trunc(v.F)
	case ref.KList:
		for _, e := range v.L {
			if hasIntegralFloat(e) {
				return true
			}
		}
	case ref.KMap:
		for _, e := range v.M {
			if hasIntegralFloat(e.V) {
				return true
			}
		}
	}
	return false
}

// c11Twins: statements that PRINT alike - the same operator and selector over the integer n and
// the float n, over values that render identically (non-finite floats), over a string and the
// number it spells - side by side in one list: at top level, under and, under or, in both
// orders. Each is a statement of its own; the verdict is the classical one.
func c11Twins(w *mon.W) {
	sel := ref.Sel{{Kind: ref.SField, Name: "v"}}
	pairs := [][2]ref.V{
		{ref.Int(1), ref.Float(1)}, {ref.Int(10), ref.Float(10)}, {ref.Int(0), ref.Float(0)}, {ref.Int(-3), ref.Float(-3)},
		{ref.Int(1 << 40), ref.Float(1 << 40)}, {ref.Int(5), ref.Str("5")}, {ref.Bool(true), ref.Str("true")}, {ref.Str("a"), ref.Bytes([]byte("a"))},
		// NaN equals nothing, itself included - alone, in a list, in a map
		{ref.Float(math.NaN()), ref.Float(1)}, {ref.List(ref.Int(1), ref.Float(math.NaN())), ref.List(ref.Int(1), ref.Float(2))},
		{ref.Map(ref.E("k", ref.Float(math.NaN()))), ref.Map(ref.E("k", ref.Float(0)))},
	}
	datas := func(a, b ref.V) []ref.V {
		out := []ref.V{a, b}
		if a.K == ref.KInt {
			out = append(out, ref.Int(a.I+40), ref.Float(float64(a.I)+40), ref.Int(a.I-40), ref.Float(float64(a.I)-0.5))
		}
		return out
	}
	idx := 0
	for _, pr := range pairs {
		for _, kind := range []string{"==", ">=", "<", ">", "<="} {
			if kind != "==" && !(pr[0].IsNumber() && pr[1].IsNumber()) {
				continue
			}
			for _, shape := range []string{"top", "and", "or", "not-and", "all-any"} {
				for _, swap := range []bool{false, true} {
					idx++
					if !w.Mine(idx) {
						continue
					}
					a, b := ref.Stmt{Kind: kind, Sel: sel, Val: pr[0]}, ref.Stmt{Kind: kind, Sel: sel, Val: pr[1]}
					if swap {
						a, b = b, a
					}
					var p ref.Policy
					switch shape {
					case "top":
						p = ref.Policy{a, b}
					case "and":
						p = ref.Policy{{Kind: "and", Subs: []ref.Stmt{a, b}}}
					case "or":
						p = ref.Policy{{Kind: "or", Subs: []ref.Stmt{a, b}}}
					case "not-and":
						p = ref.Policy{{Kind: "not", Subs: []ref.Stmt{{Kind: "and", Subs: []ref.Stmt{a, b}}}}}
					default:
						p = ref.Policy{{Kind: "or", Subs: []ref.Stmt{{Kind: "and", Subs: []ref.Stmt{a, a}}, b, b}}}
					}
					bp, ok := c11Build(w, p)
					if !ok {
						continue
					}
					for _, x := range datas(pr[0], pr[1]) {
						d := ref.Map(ref.E("v", x))
						t, _ := ref.EvalPolicy(p, d)
						if t == ref.Unresolved {
							continue
						}
						want := t == ref.True
						for via := 0; via < 3; via++ {
							got, ok := c11Match(w, bp, d.Node(), via)
							if !ok {
								continue
							}
							w.Cover("twins")
							w.Cover("twins/" + shape)
							w.Distinct("twins", kind, shape, swap, pr[0].String(), pr[1].String(), x.String(), via)
							if got.match != want || got.partial != want {
								w.Violate(fmt.Sprintf("a/twins/%s/%s/%s-and-%s/match=%v", shape, kind, pr[0].K, pr[1].K, got.match),
									fmt.Sprintf("policy %s on %s: Match=%v PartialMatch=%v, the classical reading says %v (both look-alike statements count)", p, d, got.match, got.partial, want),
									map[string]any{"policy": p.String(), "data": d.String(), "match": got.match, "partial": got.partial, "model": want, "form": via})
							}
						}
					}
				}
			}
		}
	}
}
