package props

import (
	"fmt"
	"strings"

	"verifharness/chain"
	"verifharness/gen"
	"verifharness/mon"
)

func init() {
	register(&mon.Prop{
		ID:    "C05",
		Level: "exploration",
		Rule: "seeded scenarios generated conforming by construction (and confirmed by the reference predicate): n in 1..8 links, any principal assignment incl. self-delegation / repeated principals / subject = invoker, all key algorithms for issuers, attenuating command sequences (equal allowed), satisfiable policy sets of every statement kind (statements confirmed true by the reference evaluator), comfortable (>=1h away) or absent time windows, and every setting of the authorization-irrelevant fields: audience (unset / subject / invoker / third party / chain principal), plain and encrypted metadata, nonce length 12..64, cause, iat past/future/absent, invocation expiry; map loader or seal -> container (4 formats) -> reader. " +
			"Oracle: ExecutionAllowed (and the args-hook variant) returns nil. non-trivial = n>=2 or a policy or an irrelevant field set; distinct = (n, principal pattern, command tuple, statement kinds, audience choice, irrelevant-field vector, key algorithms).",
		Assumptions: []string{
			"reference predicate chain.Conforming confirms every generated scenario before it is judged",
			"time bounds are at least one hour away from the wall clock, so the clock is not a deciding input",
		},
		Shards:      shards(8, 16),
		Run:         runC05,
		MinEvals:    floor(3900, 110000),
		MinDistinct: floor(2500, 60000),
		RequiredCells: func(string) []string {
			cells := []string{"hook", "meta-plain", "meta-enc", "nonce-long", "cause", "iat=1", "iat=2", "iat=3", "inv-exp", "self-delegation", "subject=invoker", "equal-commands", "top-root", "policy/ipld", "policy/constructors", "no-policy"}
			for _, a := range []string{"unset", "subject", "invoker", "third", "chain"} {
				cells = append(cells, "audience="+a)
			}
			for n := 1; n <= 8; n++ {
				cells = append(cells, fmt.Sprintf("n=%d", n))
			}
			for w := 0; w <= 4; w++ {
				cells = append(cells, fmt.Sprintf("wire=%d", w))
			}
			for _, k := range gen.Algs {
				cells = append(cells, "issuer-alg="+k)
			}
			for _, k := range []string{"==", "<", "<=", ">", ">=", "like", "not", "and", "or", "all", "any"} {
				cells = append(cells, "stmt/"+k)
			}
			return cells
		},
	})
}

func runC05(w *mon.W) {
	r := w.Rng
	total := w.Share(w.Pick(4000, 120000))
	for it := 0; it < total; it++ {
		n := 1 + it%8
		s := chain.FullConformant(r, n, 25)
		if it%5 == 0 {
			// subject = invoker (self-invocation through a chain that loops back)
			s.Links[0].Aud = s.Subject
			s.Invoker = s.Subject
		}
		avoid := []*gen.Principal{s.Subject, s.Invoker}
		for _, l := range s.Links {
			avoid = append(avoid, l.Iss, l.Aud)
		}
		audName := []string{"unset", "subject", "invoker", "third", "chain"}[it%5]
		switch audName {
		case "subject":
			s.Audience = s.Subject
		case "invoker":
			s.Audience = s.Invoker
		case "third":
			s.Audience = other(r, avoid...)
		case "chain":
			s.Audience = s.Links[r.IntN(len(s.Links))].Iss
		}
		ok, why := s.Conforming()
		if !ok {
			w.Inconclusive("C05 generator produced a non-conforming scenario: " + why)
			continue
		}
		b, err := s.Build(r)
		if err != nil {
			// constructing / transporting tokens is C07's and C17's subject, not this property's
			w.Inconclusive("C05 scenario could not be realised: " + err.Error() + " " + fmt.Sprint(s.Describe()))
			continue
		}
		hook := r.IntN(4) == 0
		e := allowed(b.Inv, b.Loader, hook)
		w.Eval(1)
		// coverage
		w.Cover(fmt.Sprintf("n=%d", n))
		w.Cover(fmt.Sprintf("wire=%d", s.Wire))
		w.Cover("audience=" + audName)
		if hook {
			w.Cover("hook")
		}
		if s.MetaPlain {
			w.Cover("meta-plain")
		}
		if s.MetaEnc {
			w.Cover("meta-enc")
		}
		if s.NonceLen > 12 {
			w.Cover("nonce-long")
		}
		if s.Cause {
			w.Cover("cause")
		}
		if s.Iat > 0 {
			w.Cover(fmt.Sprintf("iat=%d", s.Iat))
		}
		if s.InvExp != nil {
			w.Cover("inv-exp")
		}
		if s.Invoker == s.Subject {
			w.Cover("subject=invoker")
		}
		algs := map[string]bool{}
		kinds := map[string]bool{}
		npol := 0
		eq := false
		for k, l := range s.Links {
			if l.Iss == l.Aud {
				w.Cover("self-delegation")
			}
			algs[l.Iss.Alg] = true
			for _, kk := range strings.Split(l.Pol.Kinds(), ",") {
				if kk != "" {
					kinds[kk] = true
				}
			}
			npol += len(l.Pol)
			if len(l.Pol) > 0 {
				if l.PolIPLD {
					w.Cover("policy/ipld")
				} else {
					w.Cover("policy/constructors")
				}
			}
			prev := s.Cmd
			if k > 0 {
				prev = s.Links[k-1].Cmd
			}
			if prev == l.Cmd {
				eq = true
			}
		}
		if eq {
			w.Cover("equal-commands")
		}
		if s.Links[n-1].Cmd == "/" {
			w.Cover("top-root")
		}
		if npol == 0 {
			w.Cover("no-policy")
		}
		var ks, as []string
		for k := range kinds {
			w.Cover("stmt/" + k)
			ks = append(ks, k)
		}
		for a := range algs {
			w.Cover("issuer-alg=" + a)
			as = append(as, a)
		}
		if n >= 2 || npol > 0 || s.MetaPlain || s.MetaEnc || s.Cause {
			cmds := []string{s.Cmd}
			for _, l := range s.Links {
				cmds = append(cmds, l.Cmd)
			}
			sortStrings(ks)
			sortStrings(as)
			w.Distinct(n, s.Pattern(), strings.Join(cmds, " "), strings.Join(ks, ","), audName, s.MetaPlain, s.MetaEnc, s.NonceLen, s.Cause, s.Iat, s.Wire, strings.Join(as, ","))
		}
		if e != nil {
			d := s.Describe()
			d["error"] = e.Error()
			d["hook"] = hook
			w.Violate("denied/"+classifyErr(e)+"/audience="+audName, "a rule-conforming chain was denied: "+errStr(e), d)
		}
		if w.WantSample() && n >= 2 && npol >= 2 {
			d := s.Describe()
			d["allowed"] = e == nil
			w.Sample(d)
		}
	}
}
