package props

import (
	"errors"
	"fmt"
	"github.com/ucan-wg/go-ucan/pkg/args"
	"strings"

	"verifharness/chain"
	"verifharness/gen"
	"verifharness/mon"
	"verifharness/ref"
)

func init() {
	register(&mon.Prop{
		ID:    "C05",
		Level: "exploration",
		Rule: "seeded scenarios generated conforming by construction (and confirmed by the reference predicate): n in 1..8 links, any principal assignment incl. self-delegation / repeated principals / subject = invoker, all key algorithms for issuers, attenuating command sequences (equal allowed), satisfiable policy sets of every statement kind (statements confirmed true by the reference evaluator), comfortable (>=1h away) or absent time windows and bounds more than 292 years away (year 2330 .. 2^53-1 s expirations expirations on links and invocation: beyond the range of time.Duration / UnixNano differences), and every setting of the authorization-irrelevant fields: audience (unset / subject / invoker / third party / chain principal), plain and encrypted metadata, nonce length 12..64, cause, iat past/future/absent, invocation expiry; map loader or seal -> container (4 formats) -> reader. " +
			"Oracle: ExecutionAllowed (and the args-hook variant) returns nil. non-trivial = n>=2 or a policy or an irrelevant field set; distinct = (n, principal pattern, command tuple, statement kinds, audience choice, irrelevant-field vector, key algorithms).",
		Assumptions: []string{
			"reference predicate chain.Conforming confirms every generated scenario before it is judged",
			"time bounds are at least one hour away from the wall clock, so the clock is not a deciding input",
		},
		Shards:          shards(8, 16),
		RaceShards:      shards(1, 2),
		RaceIsViolation: true,
		Run:             runC05,
		MinEvals:        floor(3900, 110000),
		MinDistinct:     floor(2500, 60000),
		RequiredCells: func(string) []string {
			cells := []string{"purity/chain-verdicts/history", "purity/chain-verdicts/concurrent", "purity/chain-verdicts/concurrent-focused", "chain-purity/ExecutionAllowed/same-proofs-arguments/model=allow", "chain-purity/ExecutionAllowed/shared-lower-links/model=allow", "after-fault/hook-nil-nil", "after-fault/hook-duplicate-key", "after-fault/hook-error", "after-fault/hook-panics", "after-fault/loader-fails-midway", "after-fault/policy-violated", "after-a-denied-check-with-incomplete-store", "deep-nesting", "vacuous", "vacuous/no-arguments", "vacuous/unrelated-argument", "far-bounds/inv-exp", "far-bounds/exp>292y", "scale", "scale/long-chain", "scale/deep-command", "scale/many-statements", "scale/principal-thrice", "hook", "meta-plain", "meta-enc", "nonce-long", "cause", "iat=1", "iat=2", "iat=3", "inv-exp", "self-delegation", "subject=invoker", "equal-commands", "top-root", "policy/ipld", "policy/constructors", "no-policy"}
			for _, a := range []string{"unset", "subject", "invoker", "third", "chain"} {
				cells = append(cells, "audience="+a)
			}
			for n := 1; n <= 8; n++ {
				cells = append(cells, fmt.Sprintf("n=%d", n))
			}
			for w := 0; w <= 4; w++ {
				cells = append(cells, fmt.Sprintf("wire=%d", w))
			}
			for _, k := range gen.Algs {
				cells = append(cells, "issuer-alg="+k)
			}
			for _, k := range []string{"==", "<", "<=", ">", ">=", "like", "not", "and", "or", "all", "any"} {
				cells = append(cells, "stmt/"+k)
			}
			return cells
		},
	})
}

func runC05(w *mon.W) {
	if purityGate(w, c05Purity) {
		return
	}
	c05Scale(w)
	c05Vacuous(w)
	c05Deep(w)
	c05AfterFaults(w)
	r := w.Rng
	total := w.Share(w.Pick(6000, 120000))
	for it := 0; it < total; it++ {
		n := 1 + it%8
		s := chain.FullConformant(r, n, 25)
		if it%5 == 0 {
			// subject = invoker (self-invocation through a chain that loops back)
			s.Links[0].Aud = s.Subject
			s.Invoker = s.Subject
		}
		avoid := []*gen.Principal{s.Subject, s.Invoker}
		for _, l := range s.Links {
			avoid = append(avoid, l.Iss, l.Aud)
		}
		audName := []string{"unset", "subject", "invoker", "third", "chain"}[it%5]
		switch audName {
		case "subject":
			s.Audience = s.Subject
		case "invoker":
			s.Audience = s.Invoker
		case "third":
			s.Audience = other(r, avoid...)
		case "chain":
			s.Audience = s.Links[r.IntN(len(s.Links))].Iss
		}
		ok, why := s.Conforming()
		if !ok {
			w.Inconclusive("C05 generator produced a non-conforming scenario: " + why)
			continue
		}
		b, err := s.Build(r)
		if err != nil {
			// constructing / transporting tokens is C07's and C17's subject, not this property's
			w.Inconclusive("C05 scenario could not be realised: " + err.Error() + " " + fmt.Sprint(s.Describe()))
			continue
		}
		hook := r.IntN(4) == 0
		// sometimes the same token object was first checked while its proofs were not all
		// available yet (a store still filling up): that check is denied, the one after it - with
		// every delegation loadable - must be allowed all the same
		if it%3 == 1 && len(b.Cids) > 0 {
			gone := b.Cids[r.IntN(len(b.Cids))]
			_ = allowed(b.Inv, &withoutLoader{inner: b.Loader, gone: gone}, r.IntN(2) == 0)
			w.Eval(1)
			w.Cover("after-a-denied-check-with-incomplete-store")
		}
		e := allowed(b.Inv, b.Loader, hook)
		w.Eval(1)
		// coverage
		w.Cover(fmt.Sprintf("n=%d", n))
		w.Cover(fmt.Sprintf("wire=%d", s.Wire))
		w.Cover("audience=" + audName)
		if hook {
			w.Cover("hook")
		}
		if s.MetaPlain {
			w.Cover("meta-plain")
		}
		if s.MetaEnc {
			w.Cover("meta-enc")
		}
		if s.NonceLen > 12 {
			w.Cover("nonce-long")
		}
		if s.Cause {
			w.Cover("cause")
		}
		if s.Iat > 0 {
			w.Cover(fmt.Sprintf("iat=%d", s.Iat))
		}
		if s.InvExp != nil {
			w.Cover("inv-exp")
		}
		if s.InvExpAbs != nil {
			w.Cover("far-bounds/inv-exp")
		}
		for _, l := range s.Links {
			if l.ExpAbs != nil {
				w.Cover("far-bounds/exp>292y")
			}
			if l.NbfAbs != nil {
				w.Cover("far-bounds/nbf<-292y")
			}
		}
		if s.Invoker == s.Subject {
			w.Cover("subject=invoker")
		}
		algs := map[string]bool{}
		kinds := map[string]bool{}
		npol := 0
		eq := false
		for k, l := range s.Links {
			if l.Iss == l.Aud {
				w.Cover("self-delegation")
			}
			algs[l.Iss.Alg] = true
			for _, kk := range strings.Split(l.Pol.Kinds(), ",") {
				if kk != "" {
					kinds[kk] = true
				}
			}
			npol += len(l.Pol)
			if len(l.Pol) > 0 {
				if l.PolIPLD {
					w.Cover("policy/ipld")
				} else {
					w.Cover("policy/constructors")
				}
			}
			prev := s.Cmd
			if k > 0 {
				prev = s.Links[k-1].Cmd
			}
			if prev == l.Cmd {
				eq = true
			}
		}
		if eq {
			w.Cover("equal-commands")
		}
		if s.Links[n-1].Cmd == "/" {
			w.Cover("top-root")
		}
		if npol == 0 {
			w.Cover("no-policy")
		}
		var ks, as []string
		for k := range kinds {
			w.Cover("stmt/" + k)
			ks = append(ks, k)
		}
		for a := range algs {
			w.Cover("issuer-alg=" + a)
			as = append(as, a)
		}
		if n >= 2 || npol > 0 || s.MetaPlain || s.MetaEnc || s.Cause {
			cmds := []string{s.Cmd}
			for _, l := range s.Links {
				cmds = append(cmds, l.Cmd)
			}
			sortStrings(ks)
			sortStrings(as)
			w.Distinct(n, s.Pattern(), strings.Join(cmds, " "), strings.Join(ks, ","), audName, s.MetaPlain, s.MetaEnc, s.NonceLen, s.Cause, s.Iat, s.Wire, strings.Join(as, ","))
		}
		if e != nil {
			d := s.Describe()
			d["error"] = e.Error()
			d["hook"] = hook
			w.Violate("denied/"+classifyErr(e)+"/audience="+audName, "a rule-conforming chain was denied: "+errStr(e), d)
		}
		if w.WantSample() && n >= 2 && npol >= 2 {
			d := s.Describe()
			d["allowed"] = e == nil
			w.Sample(d)
		}
	}
}

// c05Scale: conforming chains beyond the usual sizes - 9..48 links, commands of up to 40
// segments with long / non-ASCII segments, policies of up to 130 (true) statements, a
// principal occurring three or more times - each checked twice on the same token (plain and
// hook path) and once more through a second invocation sharing the delegations.
func c05Scale(w *mon.W) {
	r := w.Rng
	total := w.Share(w.Pick(500, 4000))
	counts := []int{0, 1, 5, 17, 33, 65, 130}
	segs := []string{"a", "b", "crud", "é", "è", "ほげ", "x-y"}
	for it := 0; it < total; it++ {
		n := 1 + r.IntN(4)
		if it%3 == 0 {
			n = 9 + r.IntN(40)
		}
		s := chain.Conformant(r, n, 3)
		if it%4 == 1 && n >= 3 {
			// one principal three times along the chain: A -> X -> A -> X -> A ...
			x := gen.PickPrincipal(r, 0)
			for k := 0; k+1 < n; k += 2 {
				// link k: Iss -> Aud ; make the audience of link k+1 (= issuer of link k) be x
				s.Links[k].Iss = x
				s.Links[k+1].Aud = x
			}
			w.Cover("scale/principal-thrice")
		}
		depth := 1 + r.IntN(40)
		sg := make([]string, depth)
		for k := range sg {
			sg[k] = gen.Pick(r, segs)
			if r.IntN(10) == 0 {
				sg[k] = strings.Repeat(sg[k], 1+r.IntN(100))
			}
		}
		s.Cmd = ref.CmdFromSegments(sg)
		for k := range s.Links {
			if len(sg) > 0 && r.IntN(n+1) < depth {
				sg = sg[:len(sg)-1]
			}
			s.Links[k].Cmd = ref.CmdFromSegments(sg)
		}
		s.Args = gen.ArgsMap(r)
		var paths []gen.Path
		gen.Paths(s.Args, nil, &paths, 3)
		paths = append(paths, gen.RelPaths(r, s.Args, paths, 6)...)
		npol := 0
		for k := range s.Links {
			c := counts[r.IntN(len(counts))]
			if n > 8 {
				c = r.IntN(3)
			}
			for j := 0; j < c && len(paths) > 0; j++ {
				if st, ok := gen.StmtWithTruth(r, s.Args, paths, 1, true); ok {
					s.Links[k].Pol = append(s.Links[k].Pol, st)
				}
			}
			npol += len(s.Links[k].Pol)
			if len(s.Links[k].Pol) >= 33 {
				w.Cover("scale/many-statements")
			}
			s.Links[k].PolIPLD = r.IntN(3) == 0
		}
		s.Wire = r.IntN(5)
		if ok, why := s.Conforming(); !ok {
			w.Inconclusive("C05 scale generator produced a non-conforming scenario: " + why)
			continue
		}
		b, err := s.Build(r)
		if err != nil {
			w.Inconclusive("C05 scale scenario could not be realised: " + err.Error())
			continue
		}
		e1 := allowed(b.Inv, b.Loader, false)
		e2 := allowed(b.Inv, b.Loader, true)
		inv2, err := s.MakeInvocation(b, nil, r)
		var e3 error
		if err == nil {
			e3 = allowed(inv2, b.Loader, it%2 == 0)
		}
		w.Eval(3)
		w.Cover("scale")
		if n > 8 {
			w.Cover("scale/long-chain")
		}
		if depth > 8 {
			w.Cover("scale/deep-command")
		}
		w.Distinct("scale", n, s.Pattern(), s.Cmd, npol, s.Wire)
		for i, e := range []error{e1, e2, e3} {
			if e != nil {
				d := s.Describe()
				d["error"] = e.Error()
				d["call"] = []string{"first check", "second check of the same token (hook path)", "second invocation over the same delegations"}[i]
				w.Violate("denied/scale/"+classifyErr(e), fmt.Sprintf("a rule-conforming chain (%d links, command depth %d, %d statements) was denied on %s: %s", n, depth, npol, d["call"], errStr(e)), d)
				break
			}
		}
	}
}

// c05Vacuous: conforming chains whose policies are satisfied by ABSENCE: every statement is a
// leaf over an optional selector that finds nothing (the property of C11: a statement over
// missing optional data passes), and the invocation carries no arguments at all, or only
// unrelated ones. Nothing is violated, so the chain must be allowed.
func c05Vacuous(w *mon.W) {
	r := w.Rng
	for it := 0; it < w.Share(w.Pick(900, 6000)); it++ {
		n := 1 + r.IntN(4)
		s := chain.Conformant(r, n, 3)
		switch it % 3 {
		case 0:
			s.Args = ref.Map()
			w.Cover("vacuous/no-arguments")
		case 1:
			s.Args = ref.Map(ref.E("unrelated", ref.Int(1)))
			w.Cover("vacuous/unrelated-argument")
		default:
			s.Args = ref.Map(ref.E("unrelated", ref.Map(ref.E("k", ref.Str("v")))), ref.E("n", ref.Int(3)))
			w.Cover("vacuous/unrelated-argument")
		}
		for k := range s.Links {
			for j := 0; j < r.IntN(3); j++ {
				sel := ref.Sel{{Kind: ref.SField, Name: gen.Pick(r, []string{"x", "amount", "to"}), Opt: true}}
				if r.IntN(3) == 0 {
					sel = ref.Sel{{Kind: ref.SField, Name: "unrelated", Opt: true}, {Kind: ref.SField, Name: "absent", Opt: true}}
				}
				var st ref.Stmt
				switch r.IntN(4) {
				case 0:
					st = ref.Stmt{Kind: "==", Sel: sel, Val: ref.Int(1)}
				case 1:
					st = ref.Stmt{Kind: gen.Pick(r, []string{"<", "<=", ">", ">="}), Sel: sel, Val: ref.Int(10)}
				case 2:
					st = ref.Stmt{Kind: "like", Sel: sel, Pat: "a*"}
				default:
					st = ref.Stmt{Kind: "==", Sel: sel, Val: ref.Str("x")}
				}
				if _, why := ref.Eval(st, s.Args); why != ref.WOptional {
					continue // the selector found something after all
				}
				s.Links[k].Pol = append(s.Links[k].Pol, st)
			}
			s.Links[k].PolIPLD = r.IntN(2) == 0
		}
		npol := 0
		for _, l := range s.Links {
			npol += len(l.Pol)
		}
		if npol == 0 {
			continue
		}
		s.Wire = r.IntN(5)
		b, err := s.Build(r)
		if err != nil {
			w.Inconclusive("C05 vacuous scenario could not be realised: " + err.Error())
			continue
		}
		hook := it%4 == 0
		e := allowed(b.Inv, b.Loader, hook)
		w.Eval(1)
		w.Cover("vacuous")
		w.Distinct("vacuous", n, s.Args.String(), kindsPerLink(s), s.Wire)
		if e != nil {
			d := s.Describe()
			d["error"] = e.Error()
			d["hook"] = hook
			w.Violate("denied/vacuous/"+classifyErr(e), fmt.Sprintf("a rule-conforming chain whose policy statements are all over missing optional data (arguments %s) was denied: %s", s.Args, errStr(e)), d)
		}
	}
}

// c05Deep: a conforming chain one of whose policies holds a statement that is TRUE under
// 17..300 enclosing not / and / or statements must be allowed.
func c05Deep(w *mon.W) {
	r := w.Rng
	idx := 0
	for _, d := range []int{17, 32, 33, 34, 64, 65, 128, 129, 130, 200, 300} {
		for variant := 0; variant < 4; variant++ {
			idx++
			if !w.Mine(idx) {
				continue
			}
			n := 1 + r.IntN(3)
			s := chain.Conformant(r, n, 0)
			// an even number of negations keeps a true leaf true, an odd one makes a false leaf true
			nots := 0
			st := ref.Stmt{Kind: "==", Sel: ref.Sel{{Kind: ref.SField, Name: "role"}}, Val: ref.Str("admin")}
			for i := 0; i < d; i++ {
				if variant < 2 || i%3 == 0 {
					st = ref.Stmt{Kind: "not", Subs: []ref.Stmt{st}}
					nots++
				} else if i%3 == 1 {
					st = ref.Stmt{Kind: "and", Subs: []ref.Stmt{st}}
				} else {
					st = ref.Stmt{Kind: "or", Subs: []ref.Stmt{st}}
				}
			}
			role := "admin"
			if nots%2 == 1 {
				role = "user"
			}
			s.Args = ref.Map(ref.E("role", ref.Str(role)))
			k := r.IntN(n)
			s.Links[k].Pol = ref.Policy{st}
			s.Links[k].PolIPLD = variant%2 == 1
			if ok, why := s.Conforming(); !ok {
				w.Inconclusive("C05 deep generator produced a non-conforming scenario: " + why)
				continue
			}
			s.Wire = r.IntN(3)
			b, err := s.Build(r)
			if err != nil {
				w.Count("deep/scenario-not-realisable", 1)
				continue
			}
			e := allowed(b.Inv, b.Loader, variant == 3)
			w.Eval(1)
			w.Cover("deep-nesting")
			w.Distinct("deep", d, variant, k, n)
			if e != nil {
				dd := s.Describe()
				dd["depth"] = d
				dd["error"] = e.Error()
				delete(dd, "proofs_leaf_to_root")
				w.Violate("denied/deep-nesting/"+classifyErr(e), fmt.Sprintf("a conforming chain whose link %d holds a statement that is true under %d enclosing not/and/or statements was denied: %s", k, d, errStr(e)), dd)
			}
		}
	}
}

// c05AfterFaults: a conforming chain Y is checked right after a check of ANOTHER chain X (which
// carries policies) went wrong in some way - its argument hook returned (nil, nil), an argument
// map listing a key twice, an error, or panicked; its loader failed half-way; its arguments
// violated a policy. Whatever X left behind, Y must be allowed.
func c05AfterFaults(w *mon.W) {
	r := w.Rng
	for it := 0; it < w.Share(w.Pick(400, 6000)); it++ {
		x := chain.FullConformant(r, 1+r.IntN(4), 0)
		for k := range x.Links {
			if len(x.Links[k].Pol) == 0 {
				x.Links[k].Pol = ref.Policy{{Kind: "==", Sel: ref.Sel{{Kind: ref.SField, Name: "from"}}, Val: ref.Str("alice@example.com")}}
			}
		}
		x.Args = ref.Map(ref.E("from", ref.Str("mallory@example.com")), ref.E("n", ref.Int(1)))
		x.Wire = 0
		y := chain.FullConformant(r, 1+r.IntN(4), 0)
		if it%2 == 0 {
			y.Args = ref.Map()
			for k := range y.Links {
				y.Links[k].Pol = nil
			}
		}
		y.Wire = r.IntN(3)
		if ok, _ := y.Conforming(); !ok {
			continue
		}
		bx, err := x.Build(r)
		if err != nil {
			continue
		}
		by, err := y.Build(r)
		if err != nil {
			continue
		}
		fault := []string{"hook-nil-nil", "hook-duplicate-key", "hook-error", "hook-panics", "loader-fails-midway", "policy-violated"}[it%6]
		mon.Guard(func() {
			switch fault {
			case "loader-fails-midway":
				_ = bx.Inv.ExecutionAllowed(&nthFailLoader{inner: bx.Loader, failAt: 1 + r.IntN(len(x.Links))})
			case "policy-violated":
				_ = bx.Inv.ExecutionAllowed(bx.Loader)
			default:
				_ = bx.Inv.ExecutionAllowedWithArgsHook(bx.Loader, func(a args.ReadOnly) (*args.Args, error) {
					switch fault {
					case "hook-nil-nil":
						return nil, nil
					case "hook-duplicate-key":
						c := a.WriteableClone()
						c.Keys = append(c.Keys, c.Keys[0])
						return c, nil
					case "hook-error":
						return nil, errors.New("hook: backend unavailable")
					}
					panic("hook: index out of range")
				})
			}
		})
		e := judged(by.Inv, by.Loader, it%3 == 0)
		w.Eval(2)
		w.Cover("after-fault/" + fault)
		w.Distinct("after-fault", fault, y.Pattern(), len(y.Args.M), y.Wire)
		if e != nil {
			d := y.Describe()
			d["error"] = e.Error()
			d["check_before"] = map[string]any{"fault": fault, "chain": x.Describe()}
			w.Violate("denied/after-fault/"+fault+"/"+classifyErr(e), fmt.Sprintf("a conforming chain was denied (%s) right after a check of another chain had gone wrong (%s)", errStr(e), fault), d)
		}
	}
}
