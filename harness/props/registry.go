// Package props wires one workload + oracle per property.
package props

import (
	"fmt"
	"sort"

	"verifharness/mon"
)

var registry = map[string]*mon.Prop{}

func register(p *mon.Prop) {
	if _, dup := registry[p.ID]; dup {
		panic("duplicate property " + p.ID)
	}
	registry[p.ID] = p
}

func Get(id string) *mon.Prop { return registry[id] }

func All() []*mon.Prop {
	var ids []string
	for id := range registry {
		ids = append(ids, id)
	}
	sort.Strings(ids)
	out := make([]*mon.Prop, len(ids))
	for i, id := range ids {
		out[i] = registry[id]
	}
	return out
}

func shards(q, t int) func(string) int {
	return func(tier string) int {
		if tier == "thorough" {
			return t
		}
		return q
	}
}

func floor(q, t int64) func(string) int64 {
	return func(tier string) int64 {
		if tier == "thorough" {
			return t
		}
		return q
	}
}

func errStr(err error) string {
	if err == nil {
		return "<nil>"
	}
	return mon.Trunc(err.Error(), 300)
}

var _ = fmt.Sprint
