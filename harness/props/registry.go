// Package props wires one workload + oracle per property.
package props

import (
	"fmt"
	"sort"

	"verifharness/mon"
)

var registry = map[string]*mon.Prop{}

func register(p *mon.Prop) {
	if _, dup := registry[p.ID]; dup {
		panic("duplicate property " + p.ID)
	}
	registry[p.ID] = p
}

func Get(id string) *mon.Prop { return registry[id] }

func All() []*mon.Prop {
	var ids []string
	for id := range registry {
		ids = append(ids, id)
	}
	sort.Strings(ids)
	out := make([]*mon.Prop, len(ids))
	for i, id := range ids {
		out[i] = registry[id]
	}
	return out
}

func shards(q, t int) func(string) int {
	return func(tier string) int {
		if tier == "thorough" {
			return t
		}
		return q
	}
}

func floor(q, t int64) func(string) int64 {
	return func(tier string) int64 {
		if tier == "thorough" {
			return t
		}
		return q
	}
}

func errStr(err error) string {
	if err == nil {
		return "<nil>"
	}
	return mon.Trunc(err.Error(), 300)
}

var _ = fmt.Sprint

func sortStrings(s []string) { sort.Strings(s) }

// classifyErr maps an error to a short stable class (its sentinel text without the
// variable parts) for violation signatures.
func classifyErr(err error) string {
	if err == nil {
		return "nil"
	}
	s := err.Error()
	for _, cut := range []string{": delegation ", ": need ", ": expected ", ": [", ": invocation", ": did:", " bafy", ": \""} {
		if i := indexOf(s, cut); i > 0 {
			s = s[:i]
		}
	}
	if len(s) > 70 {
		s = s[:70]
	}
	out := make([]rune, 0, len(s))
	for _, r := range s {
		switch {
		case r >= 'a' && r <= 'z', r >= 'A' && r <= 'Z', r >= '0' && r <= '9':
			out = append(out, r)
		default:
			if len(out) > 0 && out[len(out)-1] != '-' {
				out = append(out, '-')
			}
		}
	}
	return string(out)
}

func indexOf(s, sub string) int {
	for i := 0; i+len(sub) <= len(s); i++ {
		if s[i:i+len(sub)] == sub {
			return i
		}
	}
	return -1
}
