package props

import (
	"encoding/json"
	"fmt"
	"strings"
	"unicode/utf8"

	"github.com/ipld/go-ipld-prime/node/basicnode"

	"github.com/ucan-wg/go-ucan/pkg/policy"

	"verifharness/gen"
	"verifharness/mon"
	"verifharness/ref"
)

func init() {
	register(&mon.Prop{
		ID:         "C13",
		Level:      "exploration",
		Exhaustive: true,
		Rule: "exhaustive: every pattern of length <=5 (thorough <=6) over {a,b,*,\\} x every string of length <=4 (thorough <=5) over the same alphabet, matched through policy.Like(\".\",p) + Policy.Match and compared with the reference glob (tokenise + DP); " +
			"plus every pattern of <=4 (<=5) characters x every string of <=3 (<=4) characters over {a,é,*,\\} (a multi-byte character next to wildcards and escapes), for each of 29 characters c that are special elsewhere (line feed, CR, tab, NUL, regular-expression and shell metacharacters, separators) every pattern x string of <=3 (<=4) characters over {a,*,\\,c}, every pattern x string of <=4 characters over {a,*,\\,LF,.}, long subjects (to >4 KiB) against patterns of up to 40 wildcards, seeded random longer pairs with multi-byte characters, every non-string kind as subject, and patterns ending in a lone backslash offered to policy.Like and policy.FromIPLD. " +
			"Purity (also in a -race build): a sample of these calls on shared objects is repeated in reverse / shuffled order and from 16..32 goroutines at once; every outcome must equal the first one and the race detector must stay silent. " +
			"non-trivial = pattern containing * or \\ and string containing * or \\ ; distinct = (pattern,string).",
		Assumptions: []string{
			"reference glob ref.GlobMatch (35 lines), self-tested against the repository's glob test table",
			"strings and patterns are valid UTF-8 (byte-wise and character-wise reading of the glob language coincide there)",
		},
		Shards:          shards(8, 16),
		RaceShards:      shards(1, 2),
		RaceIsViolation: true,
		Run:             runC13,
		MinEvals:        floor(400000, 7000000),
		MinDistinct:     floor(100000, 1000000),
		RequiredCells: func(string) []string {
			return []string{"purity/like/history", "purity/like/concurrent", "pat*/str*", "pat\\/str\\", "pat*/str\\", "pat\\/str*", "lone-backslash/like", "lone-backslash/fromipld", "nonstring/int", "nonstring/bytes", "nonstring/list", "nonstring/map", "nonstring/null", "nonstring/bool", "nonstring/float", "random-long", "multibyte-exhaustive", "special-chars-exhaustive", "linefeed-dot-exhaustive", "long-subjects", "long-subjects/over-4KiB", "self-similar-subjects"}
		},
		Replay: replayC13,
	})
	addSelfTest("R-glob vs in-tree glob vectors", selfTestGlob)
}

func selfTestGlob() error {
	// copied from pkg/policy/glob_test.go (TestSimpleGlobMatch), the entries whose
	// expectation the glob language fixes
	tests := []struct {
		pattern, str string
		matches      bool
	}{
		{"*", "anything", true}, {"a*", "abc", true}, {"*c", "abc", true}, {"a*c", "abc", true}, {"a*c", "abxc", true},
		{"a*c", "ac", true}, {"a*c", "a", false}, {"a*c", "ab", false}, {"a*b*c", "abc", true}, {"a*b*c", "aXbYc", true},
		{"a*b*c", "aXbY", false}, {"a*b*c", "abYc", true}, {"a*b*c", "aXbc", true}, {"a*b*c", "aXbYcZ", false},
		{`a\*b`, "a*b", true}, {`a\*b`, "ab", false}, {"a*b*c*d*e", "abcde", true}, {"a*b*c*d*e", "aXbYcZdWe", true},
		{"*alice@example.com", "alice@example.com", true}, {"alice@*", "alice@example.com", true},
		{"", "", true}, {"", "a", false}, {"*", "", true}, {"**", "abc", true}, {`\*`, "*", true}, {`\*`, "a", false},
		{`a\\b`, `a\b`, true}, {`\a`, "a", true},
	}
	for _, t := range tests {
		got, valid := ref.GlobMatch(t.pattern, t.str)
		if !valid || got != t.matches {
			return fmt.Errorf("GlobMatch(%q,%q) = %v (valid %v), want %v", t.pattern, t.str, got, valid, t.matches)
		}
	}
	if ref.GlobValid(`abc\`) || !ref.GlobValid(`abc\\`) {
		return fmt.Errorf("GlobValid wrong on trailing backslash")
	}
	return nil
}

func allStrings(alpha string, maxLen int) []string {
	out := []string{""}
	prev := []string{""}
	for n := 1; n <= maxLen; n++ {
		var cur []string
		for _, p := range prev {
			for i := 0; i < len(alpha); i++ {
				cur = append(cur, p+alpha[i:i+1])
			}
		}
		out = append(out, cur...)
		prev = cur
	}
	return out
}

func c13Class(pat, s string) string {
	pc := ""
	if strings.Contains(pat, "*") {
		pc += "*"
	}
	if strings.Contains(pat, `\`) {
		pc += `\`
	}
	sc := ""
	if strings.Contains(s, "*") {
		sc += "*"
	}
	if strings.Contains(s, `\`) {
		sc += `\`
	}
	return "pat" + pc + "/str" + sc
}

// c13Match runs the real path: Like statement matched through Policy.Match.
func c13Match(pol policy.Policy, s string) bool {
	ok, _ := pol.Match(basicnode.NewString(s))
	return ok
}

func c13Check(w *mon.W, pat string, pol policy.Policy, s string) {
	want, _ := ref.GlobMatch(pat, s)
	got := c13Match(pol, s)
	w.Eval(1)
	cls := c13Class(pat, s)
	if strings.ContainsAny(pat, `*\`) && strings.ContainsAny(s, `*\`) {
		w.Distinct(pat, s)
		for _, pc := range []string{"*", `\`} {
			for _, sc := range []string{"*", `\`} {
				if strings.Contains(pat, pc) && strings.Contains(s, sc) {
					w.Cover("pat" + pc + "/str" + sc)
				}
			}
		}
	}
	if got != want {
		w.Violate(fmt.Sprintf("like/%s/got=%v", cls, got),
			fmt.Sprintf("like pattern %q on string %q: Match=%v, glob language says %v", pat, s, got, want),
			map[string]any{"pattern": pat, "string": s, "got": got, "want": want})
	}
	if pm, _ := pol.PartialMatch(basicnode.NewString(s)); pm != want {
		w.Violate(fmt.Sprintf("like-partial/%s/got=%v", cls, pm),
			fmt.Sprintf("like pattern %q on string %q: PartialMatch=%v, glob language says %v", pat, s, pm, want),
			map[string]any{"pattern": pat, "string": s, "got": pm, "want": want})
	}
}

func runC13(w *mon.W) {
	if purityGate(w, c13Purity) {
		return
	}
	pats := allStrings(`ab*\`, w.Pick(5, 6))
	strs := allStrings(`ab*\`, w.Pick(4, 5))
	for i, pat := range pats {
		if !w.Mine(i) {
			continue
		}
		pol, err := policy.Construct(policy.Like(".", pat))
		valid := ref.GlobValid(pat)
		if !valid {
			w.Cover("lone-backslash/like")
			w.Eval(1)
			if err == nil {
				w.Violate("lone-backslash/like-accepted", fmt.Sprintf("policy.Like accepted pattern %q ending in a lone backslash", pat), map[string]any{"pattern": pat})
			}
			_, err2 := policy.FromIPLD(ref.Policy{{Kind: "like", Pat: pat}}.ToV().Node())
			w.Cover("lone-backslash/fromipld")
			w.Eval(1)
			if err2 == nil {
				w.Violate("lone-backslash/fromipld-accepted", fmt.Sprintf("policy.FromIPLD accepted pattern %q ending in a lone backslash", pat), map[string]any{"pattern": pat})
			}
			continue
		}
		if err != nil {
			w.Violate("like/valid-pattern-rejected", fmt.Sprintf("policy.Like rejected valid pattern %q: %v", pat, err), map[string]any{"pattern": pat})
			continue
		}
		// the IPLD-decoded form of the same statement must behave identically
		pol2, err := policy.FromIPLD(ref.Policy{{Kind: "like", Pat: pat}}.ToV().Node())
		if err != nil {
			w.Violate("like/valid-pattern-rejected-fromipld", fmt.Sprintf("policy.FromIPLD rejected valid pattern %q: %v", pat, err), map[string]any{"pattern": pat})
			pol2 = nil
		}
		for j, s := range strs {
			c13Check(w, pat, pol, s)
			if pol2 != nil && j%7 == 0 {
				c13Check(w, pat, pol2, s)
			}
			if w.WantSample() && strings.Contains(pat, "*") && strings.Contains(s, "*") && len(s) > 2 {
				m, _ := ref.GlobMatch(pat, s)
				w.Sample(map[string]any{"pattern": pat, "string": s, "match": c13Match(pol, s), "model": m})
			}
		}
	}

	// the same exhaustively over an alphabet with a multi-byte character
	mpats := allStrings4([]string{"a", "é", "*", `\`}, w.Pick(4, 5))
	mstrs := allStrings4([]string{"a", "é", "*", `\`}, w.Pick(3, 4))
	for i, pat := range mpats {
		if !w.Mine(i) || !ref.GlobValid(pat) {
			continue
		}
		pol, err := policy.Construct(policy.Like(".", pat))
		if err != nil {
			w.Violate("like/valid-pattern-rejected", fmt.Sprintf("policy.Like rejected valid pattern %q: %v", pat, err), map[string]any{"pattern": pat})
			continue
		}
		for _, s := range mstrs {
			c13Check(w, pat, pol, s)
		}
		w.Cover("multibyte-exhaustive")
	}

	// characters that are special in OTHER pattern languages (regular expressions, path globs,
	// shells) or in text handling (line ends, NUL, separators) are ordinary characters here: for
	// each of them, exhaustively all patterns x strings of <=3 (<=4) characters over {a,*,\,c};
	// and exhaustively over {a,*,\,LF,.} to length 4
	for ci, c := range c13Specials {
		if !w.Mine(ci) {
			continue
		}
		alpha := []string{"a", "*", `\`, c}
		sp := allStrings4(alpha, w.Pick(3, 4))
		for _, pat := range sp {
			if !ref.GlobValid(pat) || !strings.Contains(pat, c) && !strings.Contains(pat, "*") {
				continue
			}
			pol, err := policy.Construct(policy.Like(".", pat))
			if err != nil {
				w.Violate("like/valid-pattern-rejected", fmt.Sprintf("policy.Like rejected valid pattern %q: %v", pat, err), map[string]any{"pattern": pat})
				continue
			}
			for _, str := range sp {
				if strings.Contains(str, c) {
					c13Check(w, pat, pol, str)
				}
			}
		}
		w.Cover("special-chars-exhaustive")
	}
	{
		alpha := []string{"a", "*", `\`, "\n", "."}
		lp := allStrings4(alpha, 4)
		for i, pat := range lp {
			if !w.Mine(i) || !ref.GlobValid(pat) {
				continue
			}
			pol, err := policy.Construct(policy.Like(".", pat))
			if err != nil {
				w.Violate("like/valid-pattern-rejected", fmt.Sprintf("policy.Like rejected valid pattern %q: %v", pat, err), map[string]any{"pattern": pat})
				continue
			}
			for _, str := range lp {
				c13Check(w, pat, pol, str)
			}
			w.Cover("linefeed-dot-exhaustive")
		}
	}
	// long subjects and patterns with many wildcards (size thresholds): the subject is built from
	// the pattern (match) and then perturbed (mostly no match)
	for i := 0; i < w.Share(w.Pick(1500, 8000)); i++ {
		r := w.Rng
		var pat, str strings.Builder
		pieces := 1 + r.IntN(40)
		for k := 0; k < pieces; k++ {
			lit := strings.Repeat(gen.Pick(r, []string{"a", "ab", "é", "x\ny", ".", "aab"}), 1+r.IntN(gen.Pick(r, []int{2, 2, 30, 200})))
			pat.WriteString(gen.EscapeGlob(lit))
			str.WriteString(lit)
			if r.IntN(3) > 0 {
				pat.WriteString("*")
				str.WriteString(strings.Repeat(gen.Pick(r, []string{"", "a", "\n", "zz", "*"}), r.IntN(gen.Pick(r, []int{2, 50, 2000}))))
			}
		}
		subj := str.String()
		switch r.IntN(4) {
		case 0:
			if len(subj) > 0 {
				cut := r.IntN(len(subj))
				subj = subj[:cut] + "q" + subj[cut:]
			}
		case 1:
			subj += "tail"
		}
		if !utf8.ValidString(subj) {
			continue
		}
		pol, err := policy.Construct(policy.Like(".", pat.String()))
		if err != nil {
			w.Violate("like/valid-pattern-rejected", fmt.Sprintf("policy.Like rejected valid pattern %q: %v", mon.Trunc(pat.String(), 200), err), map[string]any{"pattern": pat.String()})
			continue
		}
		w.Cover("long-subjects")
		if len(subj) > 4096 {
			w.Cover("long-subjects/over-4KiB")
		}
		c13Check(w, pat.String(), pol, subj)
	}

	// much matching work with a positive answer: a self-similar subject (one unit repeated hundreds
	// or thousands of times, then a tail) against '*' + a long run of the unit + the tail, with one
	// to three such groups - the only match lies at the very end of the search, and every earlier
	// position looks promising for as long as the literal run. A matcher that gives up (a step
	// budget, a recursion limit, a timeout) answers 'no match' for a subject of the language.
	for i := 0; i < w.Share(w.Pick(400, 3000)); i++ {
		r := w.Rng
		unit := gen.Pick(r, []string{"a", "ab", "aab", "é", "abab", "*", "\\"})
		groups := 1 + r.IntN(3)
		var pat, str strings.Builder
		for g := 0; g < groups; g++ {
			n := gen.Pick(r, []int{100, 400, 1500, 5000})
			m := 20 + r.IntN(gen.Pick(r, []int{20, 80, 200}))
			if m > n {
				m = n
			}
			tail := gen.Pick(r, []string{"c", "", "b", "é", "tail"})
			str.WriteString(strings.Repeat(unit, n) + tail)
			pat.WriteString("*" + gen.EscapeGlob(strings.Repeat(unit, m)+tail))
		}
		subj := str.String()
		if r.IntN(4) == 0 {
			subj += "q" // ... and now and then not in the language after the same work
		}
		pol, err := policy.Construct(policy.Like(".", pat.String()))
		if err != nil {
			w.Violate("like/valid-pattern-rejected", fmt.Sprintf("policy.Like rejected valid pattern %q: %v", mon.Trunc(pat.String(), 200), err), map[string]any{"pattern": pat.String()})
			continue
		}
		w.Cover("self-similar-subjects")
		c13Check(w, pat.String(), pol, subj)
	}

	// non-string subjects never match, whatever the pattern
	subjects := map[string]ref.V{
		"int": ref.Int(1), "bytes": ref.Bytes([]byte("a")), "list": ref.List(ref.Str("a")), "map": ref.Map(ref.E("a", ref.Str("a"))),
		"null": ref.Null(), "bool": ref.Bool(true), "float": ref.Float(1.5),
	}
	for _, pat := range []string{"*", "a", "", "a*", `\*`, "1", "true", "null"} {
		pol, err := policy.Construct(policy.Like(".", pat))
		if err != nil {
			continue
		}
		for name, v := range subjects {
			ok, _ := pol.Match(v.Node())
			w.Eval(1)
			w.Cover("nonstring/" + name)
			if ok {
				w.Violate("like/nonstring-matches/"+name, fmt.Sprintf("like %q matches a %s value", pat, name), map[string]any{"pattern": pat, "subject": v.String()})
			}
		}
	}

	// random longer pairs with multi-byte characters
	n := w.Share(w.Pick(100000, 400000))
	for i := 0; i < n; i++ {
		s := gen.String(w.Rng, gen.ValOpts{})
		if w.Rng.IntN(2) == 0 {
			s += gen.String(w.Rng, gen.ValOpts{})
		}
		var pat string
		if w.Rng.IntN(3) == 0 {
			pat = gen.GlobFor(w.Rng, s)
		} else {
			// random pattern from the pieces of s plus wildcards / escapes
			for k := 0; k < 1+w.Rng.IntN(5); k++ {
				switch w.Rng.IntN(5) {
				case 0:
					pat += "*"
				case 1:
					pat += `\` + string(gen.Pick(w.Rng, []rune(`*\aé日`)))
				default:
					pat += gen.EscapeGlob(gen.String(w.Rng, gen.ValOpts{}))
				}
			}
		}
		if !ref.GlobValid(pat) {
			continue
		}
		pol, err := policy.Construct(policy.Like(".", pat))
		if err != nil {
			w.Violate("like/valid-pattern-rejected", fmt.Sprintf("policy.Like rejected valid pattern %q: %v", pat, err), map[string]any{"pattern": pat})
			continue
		}
		w.Cover("random-long")
		c13Check(w, pat, pol, s)
	}
}

// c13Specials: characters with a special meaning in regular expressions, shell / path globs
// or text handling; ordinary characters in the like language.
var c13Specials = []string{"\n", "\r", "\t", "\x00", ".", "?", "+", "^", "$", "|", "(", ")", "[", "]", "{", "}", "-", "/", " ", ",", "\"", "'", "\u2028", "\u0085", "\ufffd", "%", "_", "!", "#"}

func replayC13(raw json.RawMessage) (string, bool, error) {
	var c struct {
		Pattern string `json:"pattern"`
		String  string `json:"string"`
	}
	if err := json.Unmarshal(raw, &c); err != nil {
		return "", false, err
	}
	pol, err := policy.Construct(policy.Like(".", c.Pattern))
	if err != nil {
		return fmt.Sprintf("policy.Like(%q) rejected: %v", c.Pattern, err), ref.GlobValid(c.Pattern), nil
	}
	if !ref.GlobValid(c.Pattern) {
		return fmt.Sprintf("policy.Like(%q) accepted a lone trailing backslash", c.Pattern), true, nil
	}
	want, _ := ref.GlobMatch(c.Pattern, c.String)
	got := c13Match(pol, c.String)
	return fmt.Sprintf("pattern %q string %q: Match=%v model=%v", c.Pattern, c.String, got, want), got != want, nil
}

func allStrings4(alpha []string, maxLen int) []string {
	out := []string{""}
	prev := []string{""}
	for n := 1; n <= maxLen; n++ {
		var cur []string
		for _, p := range prev {
			for _, a := range alpha {
				cur = append(cur, p+a)
			}
		}
		out = append(out, cur...)
		prev = cur
	}
	return out
}
