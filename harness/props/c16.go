package props

import (
	"crypto/ecdsa"
	"crypto/elliptic"
	cryptorand "crypto/rand"
	"crypto/rsa"
	"crypto/x509"
	"encoding/binary"
	"fmt"
	"math/big"
	"math/rand/v2"
	"strings"

	secp "github.com/decred/dcrd/dcrec/secp256k1/v4"
	"github.com/libp2p/go-libp2p/core/crypto"
	mbase "github.com/multiformats/go-multibase"

	"github.com/ucan-wg/go-ucan/did"

	"verifharness/gen"
	"verifharness/mon"
)

func init() {
	register(&mon.Prop{
		ID:    "C16",
		Level: "exploration",
		Rule: "keys: the committed pool (Ed25519, secp256k1, P-256, P-384, P-521, RSA-2048/3072/4096/8192 - 8192 bits is the largest RSA key libp2p accepts) + freshly generated keys of every non-RSA algorithm (RSA fresh in thorough) + ECDSA-typed keys on the secp256k1 curve (coerced by FromPubKey), selected so that several have an X or Y coordinate with leading zero bytes. Per key: FromPubKey -> String -> Parse -> == and PubKey().Equals; DID equality vs key equality over all pairs; ~40 alternative encodings of its key material under the right multicodec (uncompressed / hybrid / wrong-prefix / off-curve / padded / truncated points, wrong-length raw keys, RSA as PKIX, non-minimal DER, trailing bytes), non-minimal multicodec varints, other multibase prefixes, case and whitespace changes, bad base58 characters, unsupported codecs; plus random strings. " +
			"Oracle: every accepted identifier from which a key can be extracted must be FromPubKey(key).String() (one principal, one DID); non-base58btc / non-did:key / unsupported-codec strings rejected; PubKey() returns a key or an error (a panic is caught and reported). " +
			"Purity (also in a -race build): a sample of these calls on shared objects is repeated in reverse / shuffled order and from 16..32 goroutines at once; every outcome must equal the first one and the race detector must stay silent. " +
			"non-trivial = alternative encoding or pair of different keys; distinct = the identifier string.",
		Assumptions: []string{
			"key equality is libp2p's PubKey.Equals",
			"alternative encodings are built by the harness from the key's coordinates / DER structure, independently of go-ucan",
		},
		Shards:          shards(4, 16),
		RaceShards:      shards(1, 2),
		RaceIsViolation: true,
		Run:             runC16,
		MinEvals:        floor(8000, 150000),
		MinDistinct:     floor(2000, 40000),
		RequiredCells: func(string) []string {
			cells := []string{"purity/did/history", "purity/did/concurrent", "purity/did/churn-between-passes", "degenerate/fresh", "degenerate/after-printing-undefined-values", "rsa-shapes", "rsa-shapes/small-exponent", "rsa-shapes/odd-bit-length", "rsa-shapes/modulus-out-of-range", "rsa-every-byte-length", "coerced-secp256k1/normal", "coerced-secp256k1/short-coordinate", "pairs/equal", "pairs/different", "alt/accepted-canonical", "alt/rejected-by-parse", "alt/rejected-by-pubkey", "string/rejected", "string/decorated", "multibase/other", "codec/unsupported", "varint/non-minimal"}
			for _, a := range []string{"ed25519", "secp256k1", "p256", "p384", "p521", "rsa2048", "rsa3072", "rsa4096", "rsa8192"} {
				cells = append(cells, "roundtrip/"+a)
			}
			for _, k := range []string{"uncompressed", "hybrid", "flipped-parity", "off-curve", "truncated", "trailing", "padded", "pkix", "der-nonminimal", "short", "long"} {
				cells = append(cells, "alt/"+k)
			}
			return cells
		},
	})
}

func didString(code uint64, material []byte) string {
	b := binary.AppendUvarint(nil, code)
	b = append(b, material...)
	s, _ := mbase.Encode(mbase.Base58BTC, b)
	return "did:key:" + s
}

var didCodes = map[string]uint64{"ed25519": 0xed, "secp256k1": 0xe7, "p256": 0x1200, "p384": 0x1201, "p521": 0x1202, "rsa2048": 0x1205, "rsa3072": 0x1205, "rsa4096": 0x1205, "rsa8192": 0x1205}

type altEnc struct {
	kind string
	s    string
}

// ecPoint extracts the affine coordinates and the field size in bytes.
func ecPoint(p *gen.Principal) (x, y *big.Int, size int, ok bool) {
	switch p.Alg {
	case "p256", "p384", "p521":
		std, err := crypto.PubKeyToStdKey(p.Pub)
		if err != nil {
			return nil, nil, 0, false
		}
		e, ok2 := std.(*ecdsa.PublicKey)
		if !ok2 {
			return nil, nil, 0, false
		}
		return e.X, e.Y, (e.Curve.Params().BitSize + 7) / 8, true
	case "secp256k1":
		raw, err := p.Pub.Raw() // compressed
		if err != nil {
			return nil, nil, 0, false
		}
		pk, err := secp.ParsePubKey(raw)
		if err != nil {
			return nil, nil, 0, false
		}
		return pk.X(), pk.Y(), 32, true
	}
	return nil, nil, 0, false
}

func pad(b []byte, n int) []byte {
	if len(b) >= n {
		return b
	}
	return append(make([]byte, n-len(b)), b...)
}

// altEncodings builds alternative encodings of the key material of p.
func altEncodings(r *rand.Rand, p *gen.Principal) []altEnc {
	code := didCodes[p.Alg]
	canon := p.DID.String()
	_, cb, _ := mbase.Decode(strings.TrimPrefix(canon, "did:key:"))
	_, n := binary.Uvarint(cb)
	material := cb[n:]
	var out []altEnc
	add := func(kind string, m []byte) { out = append(out, altEnc{kind, didString(code, m)}) }
	// generic
	add("truncated", material[:len(material)-1])
	add("truncated", material[:len(material)/2])
	add("truncated", nil)
	add("trailing", append(append([]byte{}, material...), 0))
	add("trailing", append(append([]byte{}, material...), material...))
	add("padded", append([]byte{0}, material...))
	// non-minimal varint of the code
	{
		v := binary.AppendUvarint(nil, code)
		v[len(v)-1] |= 0x80
		v = append(v, 0)
		b := append(v, material...)
		s, _ := mbase.Encode(mbase.Base58BTC, b)
		out = append(out, altEnc{"varint-nonminimal", "did:key:" + s})
	}
	switch p.Alg {
	case "ed25519":
		add("short", material[:31])
		add("long", append(append([]byte{}, material...), 1))
		// same bytes under the X25519 code (not a signing key type)
		out = append(out, altEnc{"codec-x25519", didString(0xec, material)})
	case "secp256k1", "p256", "p384", "p521":
		x, y, sz, ok := ecPoint(p)
		if ok {
			xb, yb := pad(x.Bytes(), sz), pad(y.Bytes(), sz)
			add("uncompressed", append(append([]byte{4}, xb...), yb...))
			h := byte(6)
			if y.Bit(0) == 1 {
				h = 7
			}
			add("hybrid", append(append([]byte{h}, xb...), yb...))
			flipped := append([]byte{}, material...)
			flipped[0] ^= 1 // 02 <-> 03: the negated point, a different valid key
			add("flipped-parity", flipped)
			bad := append([]byte{}, material...)
			bad[0] = 5
			add("bad-prefix", bad)
			// off-curve x: search a few x values without a square root
			for t := 0; t < 40; t++ {
				c := append([]byte{}, material...)
				c[1+r.IntN(len(c)-1)] ^= byte(1 + r.IntN(255))
				var on bool
				switch p.Alg {
				case "secp256k1":
					_, err := secp.ParsePubKey(c)
					on = err == nil
				case "p256":
					xx, _ := elliptic.UnmarshalCompressed(elliptic.P256(), c)
					on = xx != nil
				case "p384":
					xx, _ := elliptic.UnmarshalCompressed(elliptic.P384(), c)
					on = xx != nil
				default:
					xx, _ := elliptic.UnmarshalCompressed(elliptic.P521(), c)
					on = xx != nil
				}
				if !on {
					add("off-curve", c)
					break
				}
			}
			// x >= field prime
			big1 := append([]byte{material[0]}, bytesOf(0xff, sz)...)
			add("off-curve", big1)
			// all-zero x
			add("off-curve", append([]byte{material[0]}, make([]byte, sz)...))
			// the same point under another curve's code
			for alg, c := range didCodes {
				if c != code && !strings.HasPrefix(alg, "rsa") && alg != "ed25519" {
					out = append(out, altEnc{"wrong-curve-code", didString(c, material)})
				}
			}
		}
	case "rsa2048", "rsa3072", "rsa4096", "rsa8192":
		raw, err := p.Pub.Raw() // PKIX
		if err == nil {
			add("pkix", raw)
		}
		// non-minimal DER: outer SEQUENCE length in a longer form
		if len(material) > 4 && material[0] == 0x30 && material[1] == 0x82 {
			nm := append([]byte{0x30, 0x83, 0x00, material[2], material[3]}, material[4:]...)
			add("der-nonminimal", nm)
			// modulus INTEGER with an extra leading zero: 02 82 LL LL 00 ... -> 02 82 (LL+1) 00 00 ...
			if material[4] == 0x02 && material[5] == 0x82 {
				l := int(material[6])<<8 | int(material[7])
				body := material[8 : 8+l]
				rest := material[8+l:]
				ni := append([]byte{0x02, 0x82, byte((l + 1) >> 8), byte(l + 1), 0}, body...)
				inner := append(ni, rest...)
				seq := append([]byte{0x30, 0x82, byte(len(inner) >> 8), byte(len(inner))}, inner...)
				add("der-nonminimal", seq)
			}
		}
	}
	return out
}

func bytesOf(b byte, n int) []byte {
	o := make([]byte, n)
	for i := range o {
		o[i] = b
	}
	return o
}

// c16Judge applies the one-principal-one-DID oracle to an identifier string.
func c16Judge(w *mon.W, kind, s string, from *gen.Principal) {
	var d did.DID
	var perr error
	pi := mon.Guard(func() { d, perr = did.Parse(s) })
	w.Eval(1)
	w.Distinct(s)
	w.Cover("alt/" + kind)
	c := map[string]any{"identifier": s, "kind": kind}
	if from != nil {
		c["derived_from"] = from.Name
		c["canonical"] = from.DID.String()
	}
	if pi != nil {
		w.Violate("parse-panics/"+kind, "did.Parse panicked: "+pi.Value, c)
		return
	}
	if perr != nil {
		w.Cover("alt/rejected-by-parse")
		return
	}
	if d == did.Undef {
		w.Violate("parse-returns-undefined/"+kind, fmt.Sprintf("did.Parse(%q) reports success but returns the undefined DID", s), c)
		return
	}
	var k crypto.PubKey
	var kerr error
	pi = mon.Guard(func() { k, kerr = d.PubKey() })
	w.Eval(1)
	if pi != nil {
		c["panic"] = pi.Value
		c["stack"] = pi.Stack
		alg := "?"
		if from != nil {
			alg = from.Alg
		}
		w.Violate("pubkey-panics/"+kind+"/"+alg, fmt.Sprintf("DID.PubKey() panicked on parsed identifier %s (%s): %s", s, kind, pi.Value), c)
		return
	}
	if kerr != nil {
		w.Cover("alt/rejected-by-pubkey")
		return
	}
	if k == nil {
		w.Violate("pubkey-returns-neither-key-nor-error/"+kind, fmt.Sprintf("DID.PubKey() on parsed identifier %s (%s) returns (nil, nil)", mon.Trunc(s, 120), kind), c)
		return
	}
	// a key can be extracted: the identifier must be the canonical one of that key
	cd, err := did.FromPubKey(k)
	if err != nil {
		w.Violate("frompubkey-fails-on-extracted-key/"+kind, "did.FromPubKey fails on a key PubKey() returned: "+err.Error(), c)
		return
	}
	if cd.String() != s || cd != d {
		alg := "?"
		if from != nil {
			alg = from.Alg
		}
		c["canonical_of_extracted_key"] = cd.String()
		w.Violate("non-canonical-accepted/"+kind+"/"+alg, fmt.Sprintf("identifier %s (%s) is accepted and yields a key whose canonical identifier is %s: two DIDs for one principal", s, kind, cd.String()), c)
		return
	}
	w.Cover("alt/accepted-canonical")
}

func runC16(w *mon.W) {
	if purityGate(w, c16Purity) {
		return
	}
	r := w.Rng
	var keys []*gen.Principal
	for i, p := range gen.Pool() {
		if w.Mine(i) {
			keys = append(keys, p)
		}
	}
	// fresh keys
	nf := w.Share(w.Pick(800, 5000))
	for i := 0; i < nf; i++ {
		var priv crypto.PrivKey
		var d did.DID
		var err error
		alg := ""
		switch i % 5 {
		case 0:
			priv, d, err = did.GenerateEd25519()
			alg = "ed25519"
		case 1:
			priv, d, err = did.GenerateSecp256k1()
			alg = "secp256k1"
		case 2:
			priv, d, err = did.GenerateECDSA()
			alg = "p256"
		case 3:
			priv, d, err = did.GenerateECDSAWithCurve(did.P384)
			alg = "p384"
		default:
			priv, d, err = did.GenerateECDSAWithCurve(did.P521)
			alg = "p521"
		}
		if err != nil || priv == nil {
			w.Violate("generate-fails/"+alg, fmt.Sprintf("did.Generate* for %s failed: %v", alg, err), map[string]any{"alg": alg})
			continue
		}
		keys = append(keys, &gen.Principal{Name: fmt.Sprintf("fresh-%s-%d", alg, i), Alg: alg, Priv: priv, Pub: priv.GetPublic(), DID: d})
	}
	if w.Thorough() && w.Shard < 2 {
		priv, d, err := did.GenerateRSA()
		if err == nil && priv != nil {
			keys = append(keys, &gen.Principal{Name: "fresh-rsa3072", Alg: "rsa3072", Priv: priv, Pub: priv.GetPublic(), DID: d})
		}
	}

	// RSA public keys of every delicate shape libp2p accepts: modulus lengths on both sides of
	// the byte / DER-length boundaries, public exponents from 3 to 2^31-1 (a DID only needs
	// the public key, so the modulus is a random odd number of the exact bit length)
	{
		bitsList := []int{2048, 2049, 2055, 2056, 2057, 3072, 4095, 4096, 8191, 8192}
		exps := []int{3, 5, 17, 257, 65537, 65539, 1<<31 - 1}
		idx := 0
		for _, bits := range bitsList {
			for _, e := range exps {
				idx++
				if !w.Mine(idx) || (!w.Thorough() && bits > 4096 && e != 3 && e != 65537) {
					continue
				}
				n := new(big.Int).SetBytes(gen.Bytes(r, (bits+7)/8))
				n.SetBit(n, bits-1, 1)
				for b := n.BitLen() - 1; b >= bits; b-- {
					n.SetBit(n, b, 0)
				}
				n.SetBit(n, 0, 1)
				der, err := x509.MarshalPKIXPublicKey(&rsa.PublicKey{N: n, E: e})
				if err != nil {
					continue
				}
				pub, err := crypto.UnmarshalRsaPublicKey(der)
				if err != nil {
					w.Count("fabricated-rsa-refused-by-libp2p", 1)
					continue
				}
				alg := "rsa2048"
				switch {
				case bits > 4096:
					alg = "rsa8192"
				case bits > 3072:
					alg = "rsa4096"
				case bits > 2057:
					alg = "rsa3072"
				}
				w.Cover("rsa-shapes")
				if e < 65537 {
					w.Cover("rsa-shapes/small-exponent")
				}
				if bits%8 != 0 {
					w.Cover("rsa-shapes/odd-bit-length")
				}
				name := fmt.Sprintf("fabricated-rsa-%dbit-e%d", bits, e)
				d, err := did.FromPubKey(pub)
				w.Eval(1)
				if err != nil {
					w.Violate("frompubkey-fails/"+alg, fmt.Sprintf("did.FromPubKey failed on an RSA public key libp2p accepts (%d-bit modulus, e=%d): %v", bits, e, err), map[string]any{"key": name, "pkix_hex": mon.Hex(der)})
					continue
				}
				keys = append(keys, &gen.Principal{Name: name, Alg: alg, Pub: pub, DID: d})
			}
		}
	}

	// an RSA public key of EVERY modulus byte length libp2p accepts (2048 .. 8192 bits in steps of
	// 8, and one bit less at each step): FromPubKey -> String -> Parse gives the same DID and the
	// same key (which identifier lengths and prefixes are special cannot be known from outside)
	{
		for bits := 2048; bits <= 8192; bits += 8 {
			if !w.Mine(bits / 8) {
				continue
			}
			for _, bl := range []int{bits, bits - 1} {
				if bl < 2048 {
					continue
				}
				n := new(big.Int).SetBytes(gen.Bytes(r, (bl+7)/8))
				n.SetBit(n, bl-1, 1)
				for b := n.BitLen() - 1; b >= bl; b-- {
					n.SetBit(n, b, 0)
				}
				n.SetBit(n, 0, 1)
				der, err := x509.MarshalPKIXPublicKey(&rsa.PublicKey{N: n, E: 65537})
				if err != nil {
					continue
				}
				pub, err := crypto.UnmarshalRsaPublicKey(der)
				if err != nil {
					w.Count("rsa-every-length/libp2p-refuses", 1)
					continue
				}
				w.Eval(1)
				w.Cover("rsa-every-byte-length")
				d, err := did.FromPubKey(pub)
				if err != nil {
					w.Violate("frompubkey-fails/rsa-every-length", fmt.Sprintf("did.FromPubKey fails on an RSA key libp2p accepts (%d-bit modulus): %v", bl, err), map[string]any{"bits": bl})
					continue
				}
				txt := d.String()
				d2, perr := did.Parse(txt)
				if perr != nil || d2 != d {
					w.Violate("roundtrip/parse-of-printed-did/rsa-every-length", fmt.Sprintf("the DID of an RSA key with a %d-bit modulus prints to a %d-character identifier (%s...) that does not parse back to it: %v", bl, len(txt), mon.Trunc(txt, 24), perr),
						map[string]any{"bits": bl, "identifier_len": len(txt), "identifier_head": mon.Trunc(txt, 40), "error": errStr(perr)})
					continue
				}
				if k, err := d2.PubKey(); err != nil || k == nil || !k.Equals(pub) {
					w.Violate("roundtrip/pubkey-of-parsed-did/rsa-every-length", fmt.Sprintf("the parsed DID of an RSA key with a %d-bit modulus does not yield that key (err=%v)", bl, err), map[string]any{"bits": bl})
				}
			}
		}
	}

	// RSA identifiers over well-formed PKCS#1 material whose modulus lies OUTSIDE what libp2p
	// accepts (below 2048 bits, above 8192): parsed or not, key extraction yields a key or an error
	{
		for bi, bits := range []int{512, 1024, 2040, 2047, 8193, 8200, 16384} {
			if !w.Mine(bi) {
				continue
			}
			for _, e := range []int{3, 65537} {
				n := new(big.Int).SetBytes(gen.Bytes(r, (bits+7)/8))
				n.SetBit(n, bits-1, 1)
				for b := n.BitLen() - 1; b >= bits; b-- {
					n.SetBit(n, b, 0)
				}
				n.SetBit(n, 0, 1)
				der := x509.MarshalPKCS1PublicKey(&rsa.PublicKey{N: n, E: e})
				w.Cover("rsa-shapes/modulus-out-of-range")
				c16Judge(w, fmt.Sprintf("rsa-modulus-%dbit", bits), didString(0x1205, der), nil)
			}
		}
	}

	// ECDSA-typed keys on the secp256k1 curve are coerced to the secp256k1 key type by
	// FromPubKey; coordinates with leading zero bytes (1 key in 64) are the delicate ones
	{
		normal, short := 0, 0
		for i := 0; i < w.Pick(1500, 6000) && (short < w.Pick(6, 40) || normal < 20); i++ {
			sk, err := ecdsa.GenerateKey(secp.S256(), cryptorand.Reader)
			if err != nil {
				break
			}
			isShort := len(sk.X.Bytes()) < 32 || len(sk.Y.Bytes()) < 32
			if (isShort && short >= w.Pick(6, 40)) || (!isShort && normal >= 20) {
				continue
			}
			priv, pub, err := crypto.ECDSAKeyPairFromKey(sk)
			if err != nil {
				continue
			}
			cell := "coerced-secp256k1/normal"
			if isShort {
				short++
				cell = "coerced-secp256k1/short-coordinate"
			} else {
				normal++
			}
			w.Cover(cell)
			d, err := did.FromPubKey(pub)
			w.Eval(1)
			c := map[string]any{"x": sk.X.Text(16), "y": sk.Y.Text(16), "x_bytes": len(sk.X.Bytes()), "y_bytes": len(sk.Y.Bytes())}
			if err != nil {
				w.Violate("frompubkey-fails/ecdsa-on-secp256k1/"+cell[18:], fmt.Sprintf("did.FromPubKey fails on an ECDSA key over the secp256k1 curve (X %d bytes, Y %d bytes): %v", len(sk.X.Bytes()), len(sk.Y.Bytes()), err), c)
				continue
			}
			// the native secp256k1 key with the same point must give the same DID
			var xb, yb [32]byte
			sk.X.FillBytes(xb[:])
			sk.Y.FillBytes(yb[:])
			nat, err := secp.ParsePubKey(append(append([]byte{4}, xb[:]...), yb[:]...))
			if err == nil {
				np := crypto.Secp256k1PublicKey(*nat)
				nd, err := did.FromPubKey(&np)
				if err != nil || nd != d {
					w.Violate("coerced-did-differs", fmt.Sprintf("the DID of an ECDSA key on secp256k1 (%s) differs from the DID of the same point as a secp256k1 key (%s, err=%v)", d, nd, err), c)
				}
			}
			keys = append(keys, &gen.Principal{Name: fmt.Sprintf("coerced-secp256k1-%d", i), Alg: "secp256k1", Priv: priv, Pub: pubOf(d, pub), DID: d})
		}
	}

	for _, p := range keys {
		// 1. round trip
		d, err := did.FromPubKey(p.Pub)
		w.Eval(1)
		c := map[string]any{"key": p.Name, "alg": p.Alg}
		if err != nil {
			w.Violate("frompubkey-fails/"+p.Alg, "did.FromPubKey failed on a generatable key: "+err.Error(), c)
			continue
		}
		s := d.String()
		c["did"] = s
		w.Cover("roundtrip/" + p.Alg)
		d2, err := did.Parse(s)
		w.Eval(1)
		if err != nil {
			w.Violate("roundtrip/parse-rejects-own-string/"+p.Alg, fmt.Sprintf("did.Parse rejects the string of a DID built by FromPubKey (%s): %v", p.Alg, err), c)
			continue
		}
		if d2 != d || d2.String() != s {
			w.Violate("roundtrip/parse-differs/"+p.Alg, "Parse(String()) is not == the original DID", c)
		}
		var k crypto.PubKey
		pi := mon.Guard(func() { k, err = d2.PubKey() })
		w.Eval(1)
		switch {
		case pi != nil:
			w.Violate("roundtrip/pubkey-panics/"+p.Alg, "PubKey() panicked on a DID built from a valid key: "+pi.Value, c)
		case err != nil:
			w.Violate("roundtrip/pubkey-fails/"+p.Alg, "PubKey() fails on a DID built from a valid key: "+err.Error(), c)
		case !k.Equals(p.Pub):
			w.Violate("roundtrip/pubkey-differs/"+p.Alg, "PubKey() of the round-tripped DID is not the original key", c)
		}
		if k2, err := did.ToPubKey(s); err != nil || !k2.Equals(p.Pub) {
			w.Violate("roundtrip/topubkey/"+p.Alg, fmt.Sprintf("did.ToPubKey(%s) err=%v or differs", s, err), c)
		}
		if p.Priv == nil {
			// fabricated public key (no private key exists)
		} else if fp, err := did.FromPrivKey(p.Priv); err != nil || fp != d {
			w.Violate("roundtrip/fromprivkey/"+p.Alg, fmt.Sprintf("did.FromPrivKey differs from FromPubKey: %v", err), c)
		}
		if w.WantSample() && p.Alg != "ed25519" {
			w.Sample(map[string]any{"key": p.Name, "did": s, "parsed_equal": d2 == d})
		}
		// 3. alternative encodings
		for _, a := range altEncodings(r, p) {
			if a.kind == "varint-nonminimal" {
				w.Cover("varint/non-minimal")
			}
			if a.kind == "codec-x25519" {
				w.Cover("codec/unsupported")
			}
			c16Judge(w, a.kind, a.s, p)
		}
		// other multibase prefixes and textual variants of the canonical string
		body := strings.TrimPrefix(s, "did:key:")
		_, raw, _ := mbase.Decode(body)
		for _, enc := range []mbase.Encoding{mbase.Base16, mbase.Base32, mbase.Base64, mbase.Base58Flickr, mbase.Base64url, mbase.Base36} {
			o, _ := mbase.Encode(enc, raw)
			w.Cover("multibase/other")
			c16RejectOnly(w, "multibase-"+string(rune(enc)), "did:key:"+o)
		}
		for _, v := range []string{"DID:KEY:" + body, "did:Key:" + body, " " + s, s + " ", s + "\n", "did:key:" + strings.ToUpper(body), "did:key:" + body[1:], "did:key:" + body + "0", "did:key:" + body[:5] + "O" + body[6:], "did:key:" + body[:5] + "l" + body[6:], "did:web:" + body, "did:key" + body, "key:" + body, body} {
			c16RejectOnly(w, "textual", v)
		}
		// the canonical identifier decorated with what a URL / URI parser would strip or ignore: none
		// of these is a did:key identifier (accepted => a second spelling of the same principal)
		for _, suf := range []string{":", ":x", ":" + body, "#", "#" + body, "#key-1", "/", "/path", "?", "?q=1", ";v=1", "%20", "%00", "\x00", "\t", "\r\n", "=", "==", ".", ","} {
			c16RejectOnly(w, "decorated", s+suf)
		}
		for _, pre := range []string{"\n", "\t", "\ufeff", "urn:", "did:key:", ":", "<", "\""} {
			c16RejectOnly(w, "decorated", pre+s)
		}
		c16RejectOnly(w, "decorated", "did:key::"+body)
		c16RejectOnly(w, "decorated", "did::key:"+body)
		c16RejectOnly(w, "decorated", "did:key:"+body[:len(body)/2]+":"+body[len(body)/2:])
		c16RejectOnly(w, "decorated", "did:key:"+body[:len(body)/2]+" "+body[len(body)/2:])
		w.Cover("string/decorated")
	}
	// 2. pairs
	for i, a := range keys {
		for j, b := range keys {
			if j < i {
				continue
			}
			eqKey := a.Pub.Equals(b.Pub)
			eqDID := a.DID == b.DID
			w.Eval(1)
			if eqKey {
				w.Cover("pairs/equal")
			} else {
				w.Cover("pairs/different")
				w.Distinct("pair", a.DID.String(), b.DID.String())
			}
			if eqKey != eqDID {
				w.Violate("pairs/equality-disagrees", fmt.Sprintf("keys equal=%v but DIDs equal=%v (%s, %s)", eqKey, eqDID, a.Name, b.Name), map[string]any{"a": a.DID.String(), "b": b.DID.String()})
			}
			// a DID rebuilt from the same key compares equal with ==
			if i == j {
				d2, _ := did.FromPubKey(a.Pub)
				if d2 != a.DID {
					w.Violate("pairs/rebuild-not-equal", "two DIDs built from the same key are not ==", map[string]any{"a": a.DID.String()})
				}
			}
		}
	}
	// degenerate identifiers - among them whatever the undefined DID prints as - before and after
	// calls that print undefined values (failing constructors do, in their error messages)
	for pass, label := range []string{"fresh", "after-printing-undefined-values"} {
		if pass == 1 {
			churn(8)
		}
		for _, s := range []string{"did:key:z", "did:key:", "did:key", "did:", "", "z", did.Undef.String(), "did:key:z ", "did:key:Z", "did:key:z1", "did:key:z11", "did:key:m", "did:key:zz"} {
			c16Judge(w, "degenerate", s, nil)
		}
		w.Cover("degenerate/" + label)
	}
	// unsupported codecs over plausible material, and random strings
	for i := 0; i < w.Share(w.Pick(9000, 60000)); i++ {
		var s string
		switch i % 4 {
		case 0:
			code := gen.Pick(r, []uint64{0xec, 0xea, 0xeb, 0x1203, 0x1204, 0x1206, 0x00, 0x12, 0x55, 0xe8, 0x120b, 1 << 40})
			s = didString(code, gen.Bytes(r, gen.Pick(r, []int{0, 32, 33, 48, 65})))
			w.Cover("codec/unsupported")
			c16RejectOnly(w, "unsupported-codec", s)
			continue
		case 1:
			// supported code over random material of plausible length
			alg := gen.Pick(r, []string{"ed25519", "secp256k1", "p256", "p384", "p521", "rsa2048"})
			ln := map[string][]int{"ed25519": {32, 31, 33, 0}, "secp256k1": {33, 65, 32}, "p256": {33, 65, 32}, "p384": {49, 97}, "p521": {67, 133}, "rsa2048": {270, 10, 300}}[alg]
			m := gen.Bytes(r, gen.Pick(r, ln))
			if len(m) > 0 && alg != "ed25519" && alg != "rsa2048" {
				m[0] = gen.Pick(r, []byte{2, 3, 4, 6, 7, 0})
			}
			c16Judge(w, "random-material", didString(didCodes[alg], m), &gen.Principal{Name: "random", Alg: alg})
			continue
		case 2:
			s = "did:key:z" + string(gen.Bytes(r, r.IntN(60)))
		default:
			s = gen.String(r, gen.ValOpts{}) + gen.String(r, gen.ValOpts{})
		}
		c16Judge(w, "random-string", s, nil)
	}
}

// c16RejectOnly: strings that are not base58btc did:key identifiers of a supported key
// type must be rejected by the parser.
func c16RejectOnly(w *mon.W, kind, s string) {
	var err error
	pi := mon.Guard(func() { _, err = did.Parse(s) })
	w.Eval(1)
	w.Distinct(s)
	if pi != nil {
		w.Violate("parse-panics/"+kind, "did.Parse panicked: "+pi.Value, map[string]any{"identifier": s})
		return
	}
	if err == nil {
		// an identifier that parses must at least be canonical for its key; if it is also not
		// in the did:key/base58btc form it is an outright acceptance of a foreign form
		if !strings.HasPrefix(s, "did:key:z") {
			w.Violate("foreign-form-accepted/"+kind, fmt.Sprintf("did.Parse accepts %q, which is not a base58btc did:key identifier", s), map[string]any{"identifier": s})
			return
		}
		c16Judge(w, kind, s, nil)
		return
	}
	w.Cover("string/rejected")
}

// pubOf returns the key PubKey() extracts from d (the coerced key's canonical form), or pub.
func pubOf(d did.DID, pub crypto.PubKey) crypto.PubKey {
	if k, err := d.PubKey(); err == nil {
		return k
	}
	return pub
}
