package props

import (
	"fmt"
	"github.com/ipfs/go-cid"
	"strings"
	"time"

	"verifharness/ref"

	"github.com/ucan-wg/go-ucan/pkg/command"
	"github.com/ucan-wg/go-ucan/pkg/policy"
	"github.com/ucan-wg/go-ucan/token"
	"github.com/ucan-wg/go-ucan/token/delegation"
	"github.com/ucan-wg/go-ucan/token/invocation"

	"verifharness/chain"
	"verifharness/gen"
	"verifharness/mon"
)

func init() {
	register(&mon.Prop{
		ID:    "C04",
		Level: "exploration",
		Rule: "A (pure, exhaustive over a grid): delegations and invocations built with every combination of absent/present nbf/exp from {now-10y, now-1d, now-1h, now+1h, now+1d, now+10y, 2^53-1 s (exp/nbf via absolute option)} incl. exp<nbf, as constructed and after seal/unseal, plus tokens decoded from hand-signed payloads whose exp/nbf take every delicate value (0, +-1, +-(2^53-1), the Go zero time, 2^31, year 10000, null/absent; the reported window must be the signed one); each token probed with IsValidAt at b+{-100y,-1h,-1s,-(1s-1ns),-1us,-1ns,+1ns,+1us,+(1s-1ns),+1s,+1h,+100y} around each reported bound b; instants strictly inside the reported window must be valid, strictly outside invalid (instants on a bound are recorded, not judged). " +
			"B (chains): conforming chains with one or more expired / not-yet-active tokens at every position (invocation, leaf, middle, root), offsets from {3s, 45s, 6min, 31min, 1h, 1d, 10y} on either side (a tolerance for clock skew, a comparison in coarser units or against a stale reading would show at the small ones); allowed => the invocation and every link are valid. " +
			"C (bounds passing while the process runs): chains and single tokens built with an expiration or a not-before 2.5 s ahead (leaf, middle, root, invocation; ExecutionAllowed and IsValidNow), checked at once, then - after a silence without any library call until every bound lies more than a second behind - checked again, a different kind of call coming first after the silence in every cycle and shard, and once more afterwards; a verdict remembered from before, a clock that is read lazily, cached or refreshed in the background would show here. " +
			"non-trivial = token with >=1 bound (A) / chain with >=1 out-of-window token (B); distinct = (type, bounds, codec state, probe) / (n, offsets vector).",
		Assumptions: []string{
			"B: the call is bracketed by two clock readings; a token counts as expired only if its reported expiration lies more than a second BEFORE the bracket and as not yet active only if its not-before lies more than a second AFTER it (so whatever instant inside the bracket the library read, the verdict is the same); a scenario with a bound inside the bracket is discarded. Offsets down to 3 s are used this way without the clock ever deciding",
			"the window is the one the token itself reports through NotBefore()/Expiration()",
			"C: the sleep between the two phases only lets time pass; every verdict is decided by the same bracket rule as in B (a call whose bracket comes within a second of the moving bound is discarded), so a slow or overloaded machine cannot produce an alarm",
		},
		Shards:      shards(8, 16),
		Run:         runC04,
		MinEvals:    floor(7000, 50000),
		MinDistinct: floor(3000, 15000),
		RequiredCells: func(string) []string {
			cells := []string{"A/zones", "B/long-chain", "B/far-bound", "B/near-bound", "A/inside", "A/before-nbf", "A/after-exp", "A/on-bound", "A/decoded", "A/constructed", "A/delegation", "A/invocation", "A/exp<nbf", "A/far-future-bound", "A/decoded-from-signed-payload",
				"B/all-valid", "B/expired@inv", "B/no-proofs", "B/no-proofs/expired", "A2/requested-vs-reported", "A2/chain/notyet", "A2/chain/valid", "C/before/inside", "C/before/outside", "C/after/inside", "C/after/outside", "C/later/outside", "C/after/chain/exp@leaf/first-call-after-silence", "C/after/IsValidNow/dlg-exp/first-call-after-silence", "C/after/chain/exp@inv/first-call-after-silence"}
			for _, pos := range []string{"first", "middle", "last", "only"} {
				cells = append(cells, "B/expired@"+pos, "B/notyet@"+pos)
			}
			return cells
		},
	})
}

var c04Offsets = []time.Duration{-10 * 365 * 24 * time.Hour, -24 * time.Hour, -time.Hour, time.Hour, 24 * time.Hour, 10 * 365 * 24 * time.Hour}

var c04Probes = []time.Duration{-100 * 365 * 24 * time.Hour, -time.Hour, -time.Second, -(time.Second - 1), -time.Microsecond, -1, 0, 1, time.Microsecond, time.Second - 1, time.Second, time.Hour, 100 * 365 * 24 * time.Hour}

var c04Zones = []*time.Location{time.FixedZone("east", 14*3600), time.FixedZone("west", -12*3600+1800)}

type validator interface {
	IsValidAt(time.Time) bool
}

func c04Probe(w *mon.W, kind, state string, tk validator, nbf, exp *time.Time, desc string) {
	bounds := []*time.Time{nbf, exp}
	if nbf == nil && exp == nil {
		// unbounded: valid everywhere
		for _, t := range []time.Time{time.Unix(0, 0), time.Now(), time.Unix(1<<53-1, 0), time.Unix(-(1<<53 - 1), 0)} {
			w.Eval(1)
			if !tk.IsValidAt(t) {
				w.Violate("A/unbounded-invalid/"+kind, fmt.Sprintf("%s %s without bounds is invalid at %s", state, kind, t.UTC()), map[string]any{"token": desc, "probe": t.UTC().String()})
			}
		}
		return
	}
	for _, b := range bounds {
		if b == nil {
			continue
		}
		for _, d := range c04Probes {
			t := b.Add(d)
			got := tk.IsValidAt(t)
			w.Eval(1)
			// the same instant in other representations (other locations) must get the same answer
			for zi, z := range c04Zones {
				if g2 := tk.IsValidAt(t.In(z)); g2 != got {
					w.Violate(fmt.Sprintf("A/representation-dependent/%s/%s", kind, state),
						fmt.Sprintf("%s %s: IsValidAt(%s) = %v but = %v for the same instant in location %s", state, kind, t.UTC().Format(time.RFC3339Nano), got, g2, z),
						map[string]any{"token": desc, "probe": t.UTC().Format(time.RFC3339Nano), "zone": zi})
				}
				w.Eval(1)
			}
			w.Cover("A/zones")
			// classify against the reported window
			before := nbf != nil && t.Before(*nbf)
			after := exp != nil && t.After(*exp)
			onBound := (nbf != nil && t.Equal(*nbf)) || (exp != nil && t.Equal(*exp))
			w.Distinct(kind, state, desc, d)
			switch {
			case onBound:
				w.Cover("A/on-bound")
			case before || after:
				if before {
					w.Cover("A/before-nbf")
				} else {
					w.Cover("A/after-exp")
				}
				if got {
					side := "after-exp"
					if before {
						side = "before-nbf"
					}
					w.Violate(fmt.Sprintf("A/valid-outside/%s/%s/%s", kind, state, side),
						fmt.Sprintf("%s %s reports window [%s, %s] but IsValidAt(%s) = true", state, kind, fmtT(nbf), fmtT(exp), t.UTC().Format(time.RFC3339Nano)),
						map[string]any{"token": desc, "probe_offset": d.String(), "probe": t.UTC().Format(time.RFC3339Nano), "nbf": fmtT(nbf), "exp": fmtT(exp)})
				}
			default:
				w.Cover("A/inside")
				if !got {
					w.Violate(fmt.Sprintf("A/invalid-inside/%s/%s", kind, state),
						fmt.Sprintf("%s %s reports window [%s, %s] but IsValidAt(%s) = false", state, kind, fmtT(nbf), fmtT(exp), t.UTC().Format(time.RFC3339Nano)),
						map[string]any{"token": desc, "probe_offset": d.String(), "probe": t.UTC().Format(time.RFC3339Nano), "nbf": fmtT(nbf), "exp": fmtT(exp)})
				}
			}
		}
	}
}

func fmtT(t *time.Time) string {
	if t == nil {
		return "-"
	}
	return t.UTC().Format(time.RFC3339Nano)
}

func runC04(w *mon.W) {
	r := w.Rng
	cmd := command.MustParse("/a")
	far := time.Unix(1<<53-1, 0)
	idx := 0
	// ---- A: delegations
	type bound struct {
		absent bool
		off    time.Duration
		far    bool
	}
	var choices []bound
	choices = append(choices, bound{absent: true})
	for _, o := range c04Offsets {
		choices = append(choices, bound{off: o})
	}
	choices = append(choices, bound{far: true})
	for _, nb := range choices {
		for _, ex := range choices {
			idx++
			if !w.Mine(idx) {
				continue
			}
			p := gen.Ed(idx)
			var opts []delegation.Option
			desc := "delegation nbf="
			switch {
			case nb.absent:
				desc += "-"
			case nb.far:
				opts = append(opts, delegation.WithNotBefore(far))
				desc += "2^53-1"
				w.Cover("A/far-future-bound")
			default:
				opts = append(opts, delegation.WithNotBeforeIn(nb.off))
				desc += nb.off.String()
			}
			desc += " exp="
			switch {
			case ex.absent:
				desc += "-"
			case ex.far:
				opts = append(opts, delegation.WithExpiration(far))
				desc += "2^53-1"
				w.Cover("A/far-future-bound")
			default:
				opts = append(opts, delegation.WithExpirationIn(ex.off))
				desc += ex.off.String()
			}
			tk, err := delegation.Root(p.DID, gen.Ed(idx+1).DID, cmd, policy.Policy{}, opts...)
			if err != nil {
				w.Inconclusive("C04 delegation could not be built: " + desc + ": " + err.Error())
				continue
			}
			w.Cover("A/delegation")
			w.Cover("A/constructed")
			if tk.NotBefore() != nil && tk.Expiration() != nil && tk.Expiration().Before(*tk.NotBefore()) {
				w.Cover("A/exp<nbf")
			}
			c04Probe(w, "delegation", "constructed", tk, tk.NotBefore(), tk.Expiration(), desc)
			if w.WantSample() && !nb.absent && !ex.absent {
				w.Sample(map[string]any{"token": desc, "reported_nbf": fmtT(tk.NotBefore()), "reported_exp": fmtT(tk.Expiration()), "probes_per_bound": len(c04Probes)})
			}
			sealed, _, err := tk.ToSealed(p.Priv)
			if err != nil {
				w.Inconclusive("C04 seal: " + err.Error())
				continue
			}
			for vi, dec := range []func() (validator, *time.Time, *time.Time, error){
				func() (validator, *time.Time, *time.Time, error) {
					d, _, err := delegation.FromSealed(sealed)
					if err != nil {
						return nil, nil, nil, err
					}
					return d, d.NotBefore(), d.Expiration(), nil
				},
				func() (validator, *time.Time, *time.Time, error) {
					t, _, err := token.FromSealed(sealed)
					if err != nil {
						return nil, nil, nil, err
					}
					d := t.(*delegation.Token)
					return t, d.NotBefore(), d.Expiration(), nil
				},
			} {
				v, nbf, exp, err := dec()
				if err != nil {
					w.Inconclusive("C04 unseal: " + err.Error())
					continue
				}
				w.Cover("A/decoded")
				c04Probe(w, "delegation", []string{"decoded", "decoded-generic"}[vi], v, nbf, exp, desc)
			}
		}
	}
	// ---- A: invocations (expiry only)
	for _, ex := range choices {
		idx++
		if !w.Mine(idx) {
			continue
		}
		p := gen.Ed(idx)
		var opts []invocation.Option
		desc := "invocation exp="
		switch {
		case ex.absent:
			desc += "-"
		case ex.far:
			opts = append(opts, invocation.WithExpiration(far))
			desc += "2^53-1"
		default:
			opts = append(opts, invocation.WithExpirationIn(ex.off))
			desc += ex.off.String()
		}
		tk, err := invocation.New(p.DID, p.DID, cmd, nil, opts...)
		if err != nil {
			w.Inconclusive("C04 invocation could not be built: " + err.Error())
			continue
		}
		w.Cover("A/invocation")
		c04Probe(w, "invocation", "constructed", tk, nil, tk.Expiration(), desc)
		sealed, _, err := tk.ToSealed(p.Priv)
		if err != nil {
			w.Inconclusive("C04 seal: " + err.Error())
			continue
		}
		d, _, err := invocation.FromSealed(sealed)
		if err != nil {
			w.Inconclusive("C04 unseal: " + err.Error())
			continue
		}
		c04Probe(w, "invocation", "decoded", d, nil, d.Expiration(), desc)
	}

	// ---- A: tokens decoded from hand-signed payloads carrying every delicate timestamp
	// (0, +-1, the limits of the 53-bit range, null / absent), which the constructors cannot
	// all produce: the reported window must be the signed one and IsValidAt must follow it
	{
		vals := []*int64{nil, ref.I64(0), ref.I64(1), ref.I64(-1), ref.I64(ref.MaxSafe), ref.I64(-ref.MaxSafe), ref.I64(1700000000), ref.I64(-62135596800), ref.I64(1 << 31), ref.I64(253402300800)}
		for _, typ := range []string{"dlg", "inv"} {
			iss := gen.Ed(2)
			spec := gen.RandomSpec(r, typ, gen.SpecOpts{Issuer: iss, Minimal: true})
			tk0, err := spec.Build()
			if err != nil {
				continue
			}
			sealed0, _, err := tk0.ToSealed(iss.Priv)
			if err != nil {
				continue
			}
			env, _ := ref.DecodeDagCbor(sealed0)
			info, err := ref.ReadEnvelope(env)
			if err != nil {
				continue
			}
			for _, ex := range vals {
				for _, nb := range vals {
					if typ == "inv" && nb != nil {
						continue
					}
					idx++
					if !w.Mine(idx) {
						continue
					}
					p := info.Payload
					exV := ref.Null()
					if ex != nil {
						exV = ref.Int(*ex)
					}
					p = withField(p, "exp", &exV)
					if nb != nil {
						nbV := ref.Int(*nb)
						p = withField(p, "nbf", &nbV)
					}
					re, err := ref.SignEnvelope(iss.Priv, nil, info.Tag, p)
					if err != nil {
						continue
					}
					b, err := ref.EncodeDagCbor(re)
					if err != nil {
						continue
					}
					desc := fmt.Sprintf("%s signed payload exp=%v nbf=%v", typ, ptrS(ex), ptrS(nb))
					t2, _, err := token.FromSealed(b)
					w.Eval(1)
					if err != nil {
						w.Violate("A/in-range-timestamp-rejected/"+typ, fmt.Sprintf("a correctly signed %s with in-range time bounds (exp=%v nbf=%v) is rejected: %v", typ, ptrS(ex), ptrS(nb), err), map[string]any{"token": desc, "sealed": mon.Hex(b)})
						continue
					}
					w.Cover("A/decoded-from-signed-payload")
					var nbf, exp *time.Time
					switch x := t2.(type) {
					case *delegation.Token:
						nbf, exp = x.NotBefore(), x.Expiration()
					case *invocation.Token:
						exp = x.Expiration()
					}
					same := func(t *time.Time, v *int64) bool {
						if t == nil || v == nil {
							return t == nil && v == nil
						}
						return t.Unix() == *v && t.Nanosecond() == 0
					}
					if !same(exp, ex) || !same(nbf, nb) {
						w.Violate("A/reported-window-differs-from-signed/"+typ, fmt.Sprintf("%s: the decoded token reports window [%s, %s]", desc, fmtT(nbf), fmtT(exp)), map[string]any{"token": desc, "sealed": mon.Hex(b)})
						continue
					}
					c04Probe(w, map[string]string{"dlg": "delegation", "inv": "invocation"}[typ], "decoded-signed-payload", t2, nbf, exp, desc)
				}
			}
		}
	}

	c04Requested(w)
	c04NoProofs(w)

	// ---- B: chains
	total := w.Share(w.Pick(8000, 60000))
	for it := 0; it < total; it++ {
		n := 1 + r.IntN(w.Pick(5, 7))
		if it%12 == 5 {
			n = 9 + r.IntN(32)
			w.Cover("B/long-chain")
		}
		s := chain.FullConformant(r, n, 5)
		nbad := []int{0, 1, 1, 1, 2, 3}[r.IntN(6)]
		var offs []string
		for k := 0; k < nbad; k++ {
			off := gen.Pick(r, []time.Duration{time.Hour, 24 * time.Hour, 10 * 365 * 24 * time.Hour, 3 * time.Second, 45 * time.Second, 6 * time.Minute, 31 * time.Minute})
			if off < time.Hour {
				w.Cover("B/near-bound")
			}
			where := r.IntN(n + 1) // n = the invocation itself
			switch r.IntN(4) {
			case 0:
				where = 0
			case 1:
				where = n - 1
			}
			if where == n {
				s.InvExp = chain.D(-off)
				offs = append(offs, "inv:exp-"+off.String())
				w.Cover("B/expired@inv")
				continue
			}
			if r.IntN(6) == 0 {
				// further away than a time.Duration can say
				// (the constructors refuse bounds in the past, so only the not-yet-active side can be
				// built this way; far-past expirations are covered by the hand-signed tokens of part A)
				s.Links[where].NbfAbs = chain.T(gen.Pick(r, chain.FarFuture))
				offs = append(offs, fmt.Sprintf("%d:nbf@unix%d", where, s.Links[where].NbfAbs.Unix()))
				w.Cover("B/notyet@" + pos3(where, n))
				w.Cover("B/far-bound")
				continue
			}
			if r.IntN(2) == 0 {
				s.Links[where].Exp = chain.D(-off)
				offs = append(offs, fmt.Sprintf("%d:exp-%s", where, off))
				w.Cover("B/expired@" + pos3(where, n))
			} else {
				s.Links[where].Nbf = chain.D(off)
				offs = append(offs, fmt.Sprintf("%d:nbf+%s", where, off))
				w.Cover("B/notyet@" + pos3(where, n))
			}
		}
		b, err := s.Build(r)
		if err != nil {
			w.Inconclusive("C04 scenario could not be realised: " + err.Error())
			continue
		}
		// the call is bracketed by two clock readings; each reported bound is classified against
		// the bracket (with a second of margin): an expiration before the bracket makes the token
		// invalid during the whole call, a not-before after it likewise; a bound inside the
		// bracket decides nothing and the scenario is discarded
		tb := time.Now()
		e := allowed(b.Inv, b.Loader, it%4 == 0)
		ta := time.Now()
		w.Eval(1)
		want, why, ambiguous := true, "", false
		judge := func(label string, nbf, exp *time.Time) {
			if exp != nil {
				switch {
				case exp.Before(tb.Add(-time.Second)):
					if want {
						want, why = false, "time-exp@"+label
					}
				case exp.After(ta.Add(time.Second)):
				default:
					ambiguous = true
				}
			}
			if nbf != nil {
				switch {
				case nbf.After(ta.Add(time.Second)):
					if want {
						want, why = false, "time-nbf@"+label
					}
				case nbf.Before(tb.Add(-time.Second)):
				default:
					ambiguous = true
				}
			}
		}
		judge("inv", nil, b.Inv.Expiration())
		for k, d := range b.Dlgs {
			judge(fmt.Sprint(k), d.NotBefore(), d.Expiration())
		}
		if why == "time-exp@inv" {
			why = "time@inv"
		}
		if ambiguous {
			w.Count("B/bound-inside-the-call-bracket(discarded)", 1)
			continue
		}
		if mw, _ := s.TimesOK(); mw != want {
			w.Inconclusive(fmt.Sprintf("C04 B: the reported windows (%v) disagree with the generated offsets %v", want, offs))
			continue
		}
		if nbad > 0 {
			w.Distinct(n, offs, s.Wire)
		}
		if want {
			w.Cover("B/all-valid")
		}
		if e == nil && !want {
			d := s.Describe()
			d["out_of_window"] = offs
			w.Violate("B/allowed-outside-window/"+classTime(why, n), fmt.Sprintf("ExecutionAllowed = nil although %s (offsets %v)", why, offs), d)
		}
		if e != nil && want {
			w.Count("conforming_but_denied(judged_by_C05)", 1)
		}
		if w.WantSample() && nbad > 0 && it > 10 {
			d := s.Describe()
			d["allowed"] = e == nil
			d["out_of_window"] = offs
			w.Sample(d)
		}
	}
	c04Transitions(w)
}

func classTime(why string, n int) string {
	var k int
	switch {
	case why == "time@inv":
		return "inv-expired"
	case scan(why, "time-exp@%d", &k):
		return "link-expired/" + pos3(k, n)
	case scan(why, "time-nbf@%d", &k):
		return "link-notyet/" + pos3(k, n)
	}
	return why
}

func scan(s, f string, p *int) bool {
	n, _ := fmt.Sscanf(s, f, p)
	return n == 1
}

func ptrS(v *int64) string {
	if v == nil {
		return "-"
	}
	return fmt.Sprint(*v)
}

// c04Transitions (part C): bounds that pass WHILE THE PROCESS IS RUNNING. Tokens are built with
// an expiration (or a not-before) a few seconds ahead and checked at once; then the process does
// nothing at all until every bound has passed - no check, no library call - and checks again,
// a different kind of call coming first after the silence in every cycle. The sleep only lets
// time pass: each verdict is decided as in part B, by the bracket of clock readings around the
// call against the bounds the tokens report, with a second of margin (a bound inside the
// margin decides nothing).
func c04Transitions(w *mon.W) {
	r := w.Rng
	kinds := []string{"chain/exp@leaf", "chain/exp@root", "chain/exp@inv", "IsValidNow/dlg-exp", "IsValidNow/inv-exp", "chain/nbf@leaf", "IsValidNow/dlg-nbf", "chain/exp@middle"}
	type item struct {
		kind     string
		s        *chain.Scenario
		b        *chain.Built
		nbf, exp *time.Time  // the one bound that moves
		call     func() bool // true = allowed / valid
		desc     string
	}
	cycles := w.Pick(2, 5)
	const lead = 2500 * time.Millisecond
	for cy := 0; cy < cycles; cy++ {
		var items []item
		var latest time.Time
		for _, kind := range kinds {
			n := 1 + r.IntN(3)
			if kind == "chain/exp@middle" {
				n = 3
			}
			s := chain.Conformant(r, n, 5)
			where := -1
			switch kind {
			case "chain/exp@leaf", "IsValidNow/dlg-exp":
				where = 0
				s.Links[0].Exp = chain.D(lead)
			case "chain/exp@root":
				where = n - 1
				s.Links[n-1].Exp = chain.D(lead)
			case "chain/exp@middle":
				where = 1
				s.Links[1].Exp = chain.D(lead)
			case "chain/exp@inv", "IsValidNow/inv-exp":
				s.InvExp = chain.D(lead)
			case "chain/nbf@leaf", "IsValidNow/dlg-nbf":
				where = 0
				s.Links[0].Nbf = chain.D(lead)
			}
			b, err := s.Build(r)
			if err != nil {
				w.Inconclusive("C04 C: scenario could not be realised: " + err.Error())
				continue
			}
			it := item{kind: kind, s: s, b: b, desc: fmt.Sprintf("%s, %d links, bound %s after construction", kind, n, lead)}
			switch {
			case strings.Contains(kind, "nbf"):
				it.nbf = b.Dlgs[where].NotBefore()
			case where >= 0:
				it.exp = b.Dlgs[where].Expiration()
			default:
				it.exp = b.Inv.Expiration()
			}
			switch kind {
			case "IsValidNow/dlg-exp", "IsValidNow/dlg-nbf":
				d := b.Dlgs[0]
				it.call = d.IsValidNow
			case "IsValidNow/inv-exp":
				it.call = b.Inv.IsValidNow
			default:
				inv, ld := b.Inv, b.Loader
				it.call = func() bool { return inv.ExecutionAllowed(ld) == nil }
			}
			for _, t := range []*time.Time{it.nbf, it.exp} {
				if t != nil && t.After(latest) {
					latest = *t
				}
			}
			items = append(items, it)
		}
		probe := func(phase string, pos int, it item) {
			tb := time.Now()
			got := it.call()
			ta := time.Now()
			w.Eval(1)
			// classification of the bracket against the moving bound
			state := "ambiguous"
			switch {
			case it.exp != nil && it.exp.Before(tb.Add(-time.Second)):
				state = "outside"
			case it.exp != nil && it.exp.After(ta.Add(time.Second)):
				state = "inside"
			case it.nbf != nil && it.nbf.After(ta.Add(time.Second)):
				state = "outside"
			case it.nbf != nil && it.nbf.Before(tb.Add(-time.Second)):
				state = "inside"
			}
			if state == "ambiguous" {
				w.Count("C/bound-inside-the-call-bracket(discarded)", 1)
				return
			}
			first := ""
			if phase == "after" && pos == 0 {
				first = "/first-call-after-silence"
			}
			w.Cover("C/" + phase + "/" + state)
			w.Cover("C/" + phase + "/" + it.kind + first)
			w.Distinct("C", cy, it.kind, phase, pos)
			d := map[string]any{"case": it.desc, "phase": phase, "position_after_silence": pos, "bound_nbf": fmtT(it.nbf), "bound_exp": fmtT(it.exp), "clock_before_call": tb.UTC().Format(time.RFC3339Nano), "clock_after_call": ta.UTC().Format(time.RFC3339Nano), "chain": it.s.Describe()}
			if state == "outside" && got {
				w.Violate("C/valid-outside-window/"+it.kind+"/"+phase+first, fmt.Sprintf("%s: reported valid / allowed although the bound (%s%s) lies more than a second outside the call (%s)", it.kind, fmtT(it.nbf), fmtT(it.exp), phase), d)
			}
			if state == "inside" && !got {
				if strings.HasPrefix(it.kind, "IsValidNow") {
					w.Violate("C/invalid-inside-window/"+it.kind+"/"+phase+first, fmt.Sprintf("%s: reported invalid although the call lies more than a second inside the window (%s)", it.kind, phase), d)
				} else {
					w.Count("conforming_but_denied(judged_by_C05)", 1)
				}
			}
		}
		for pos, it := range items {
			probe("before", pos, it)
		}
		// silence until every moving bound lies more than a second behind
		if wait := time.Until(latest.Add(1300 * time.Millisecond)); wait > 0 {
			time.Sleep(wait)
		}
		rot := (cy + w.Shard) % max(1, len(items))
		for pos := range items {
			probe("after", pos, items[(pos+rot)%len(items)])
		}
		// and the same calls once more, now that the clock-reading code is warm again
		for pos := range items {
			probe("later", pos+len(items), items[(pos+rot)%len(items)])
		}
	}
}

// c04Requested (part A2): the window a token reports is the window its maker asked for. Bounds
// are handed to the constructors as instants expressed in several locations (UTC, far east,
// far west with a half-hour offset, a named zone with daylight saving) - the same instant,
// other wall clocks: the reported bound must be that instant (to the second), as constructed
// and after seal / unseal, and a chain whose link is not yet active by hours must be denied
// whatever location the bound was written in.
func c04Requested(w *mon.W) {
	r := w.Rng
	cmd := command.MustParse("/a")
	zones := []*time.Location{time.UTC, time.FixedZone("east", 14*3600), time.FixedZone("west", -12*3600+1800), time.FixedZone("plus2", 2*3600), time.FixedZone("minus5", -5*3600)}
	if ny, err := time.LoadLocation("America/New_York"); err == nil {
		zones = append(zones, ny)
	}
	offs := []time.Duration{2 * time.Hour, 30 * time.Hour, 400 * 24 * time.Hour}
	same := func(got *time.Time, want time.Time) bool {
		if got == nil {
			return false
		}
		d := got.Sub(want)
		return d > -time.Second && d < time.Second
	}
	idx := 0
	for zi, z := range zones {
		for _, off := range offs {
			idx++
			if !w.Mine(idx) {
				continue
			}
			now := time.Now()
			exp, nbf := now.Add(off).In(z), now.Add(off/2).In(z) // (the constructors refuse a not-before in the past)
			iss, aud := gen.Ed(idx), gen.Ed(idx+1)
			d, err := delegation.New(iss.DID, aud.DID, cmd, policy.Policy{}, delegation.WithSubject(iss.DID), delegation.WithExpiration(exp), delegation.WithNotBefore(nbf))
			if err != nil {
				w.Inconclusive("C04 A2 delegation: " + err.Error())
				continue
			}
			w.Cover("A2/requested-vs-reported")
			w.Cover(fmt.Sprintf("A2/zone-%d", zi))
			desc := fmt.Sprintf("delegation WithExpiration(%s) WithNotBefore(%s)", exp.Format(time.RFC3339), nbf.Format(time.RFC3339))
			check := func(state string, gnbf, gexp *time.Time) {
				w.Eval(1)
				w.Distinct("A2", state, z.String(), off)
				if !same(gexp, exp) || !same(gnbf, nbf) {
					w.Violate("A2/reported-window-differs-from-requested/delegation/"+state, fmt.Sprintf("%s: the %s token reports [%s, %s]", desc, state, fmtT(gnbf), fmtT(gexp)),
						map[string]any{"token": desc, "location": z.String(), "requested_nbf_utc": nbf.UTC().Format(time.RFC3339), "requested_exp_utc": exp.UTC().Format(time.RFC3339), "reported_nbf": fmtT(gnbf), "reported_exp": fmtT(gexp)})
				}
			}
			check("constructed", d.NotBefore(), d.Expiration())
			if sealed, _, err := d.ToSealed(iss.Priv); err == nil {
				if d2, _, err := delegation.FromSealed(sealed); err == nil {
					check("decoded", d2.NotBefore(), d2.Expiration())
				}
			}
			inv, err := invocation.New(iss.DID, iss.DID, cmd, nil, invocation.WithExpiration(exp), invocation.WithInvokedAt(nbf))
			if err == nil {
				w.Eval(1)
				if !same(inv.Expiration(), exp) || !same(inv.InvokedAt(), nbf) {
					w.Violate("A2/reported-window-differs-from-requested/invocation/constructed", fmt.Sprintf("invocation WithExpiration(%s) WithInvokedAt(%s) reports exp=%s iat=%s", exp.Format(time.RFC3339), nbf.Format(time.RFC3339), fmtT(inv.Expiration()), fmtT(inv.InvokedAt())),
						map[string]any{"location": z.String(), "requested_exp_utc": exp.UTC().Format(time.RFC3339)})
				}
			}
			// chains: one link not yet active (by `off`), its bound written in location z; then one
			// link expiring in `off`, which must not matter
			n := 1 + r.IntN(3)
			for _, kind := range []string{"notyet", "valid"} {
				s := chain.Conformant(r, n, 5)
				k := r.IntN(n)
				if kind == "notyet" {
					s.Links[k].NbfAbs = chain.T(now.Add(off).In(z))
				} else {
					s.Links[k].ExpAbs = chain.T(now.Add(off).In(z))
				}
				b, err := s.Build(r)
				if err != nil {
					w.Inconclusive("C04 A2 chain: " + err.Error())
					continue
				}
				e := b.Inv.ExecutionAllowed(b.Loader)
				w.Eval(1)
				w.Cover("A2/chain/" + kind)
				if kind == "notyet" && e == nil {
					dd := s.Describe()
					dd["location"] = z.String()
					w.Violate("A2/chain-allowed-before-requested-not-before", fmt.Sprintf("ExecutionAllowed = nil although link %d was built with WithNotBefore(%s), %s from now", k, now.Add(off).In(z).Format(time.RFC3339), off), dd)
				}
				if kind == "valid" && e != nil {
					w.Count("conforming_but_denied(judged_by_C05)", 1)
				}
			}
		}
	}
}

// c04NoProofs: the chain of length zero. An invocation that lists no proofs at all - issued by
// its subject or by someone else - is never allowed when it is itself expired (whatever the
// check makes of the empty proof list otherwise, which C01 judges).
func c04NoProofs(w *mon.W) {
	cmd := command.MustParse("/a/b")
	idx := 0
	for _, self := range []bool{true, false} {
		for _, off := range []time.Duration{-10 * 365 * 24 * time.Hour, -time.Hour, -45 * time.Second, time.Hour, 0} {
			for _, hook := range []bool{false, true} {
				for _, decoded := range []bool{false, true} {
					idx++
					if !w.Mine(idx) {
						continue
					}
					iss, sub := gen.Ed(idx), gen.Ed(idx)
					if !self {
						sub = gen.Ed(idx + 1)
					}
					var opts []invocation.Option
					if off != 0 {
						opts = append(opts, invocation.WithExpirationIn(off))
					}
					if idx%3 == 0 {
						opts = append(opts, invocation.WithArgument("k", "v"))
					}
					var prf []cid.Cid
					if idx%2 == 0 {
						prf = []cid.Cid{}
					}
					inv, err := invocation.New(iss.DID, sub.DID, cmd, prf, opts...)
					if err != nil {
						w.Inconclusive("C04 no-proofs invocation: " + err.Error())
						continue
					}
					if decoded {
						sealed, _, err := inv.ToSealed(iss.Priv)
						if err != nil {
							continue
						}
						if inv, _, err = invocation.FromSealed(sealed); err != nil {
							w.Inconclusive("C04 no-proofs unseal: " + err.Error())
							continue
						}
					}
					ld := &chain.MapLoader{M: map[cid.Cid]*delegation.Token{}, Errs: map[cid.Cid]bool{}}
					tb := time.Now()
					e := judged(inv, ld, hook)
					ta := time.Now()
					w.Eval(1)
					w.Cover("B/no-proofs")
					w.Distinct("no-proofs", self, off, hook, decoded)
					exp := inv.Expiration()
					if exp != nil && exp.Before(tb.Add(-time.Second)) {
						w.Cover("B/no-proofs/expired")
						if e == nil {
							w.Violate("B/allowed-outside-window/inv-expired/no-proofs", fmt.Sprintf("ExecutionAllowed = nil for an invocation without proofs (issuer %s subject) that expired at %s", map[bool]string{true: "==", false: "!="}[self], fmtT(exp)),
								map[string]any{"issuer_is_subject": self, "expiration": fmtT(exp), "hook": hook, "decoded": decoded, "clock_before_call": tb.UTC().Format(time.RFC3339Nano), "clock_after_call": ta.UTC().Format(time.RFC3339Nano)})
						}
					}
				}
			}
		}
	}
}
