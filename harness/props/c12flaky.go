package props

import (
	"errors"
	"fmt"
	"sync/atomic"

	"github.com/ipld/go-ipld-prime/datamodel"

	"verifharness/mon"
	"verifharness/ref"
)

// flakyMap is a map node whose iteration fails while it is armed - a node backed by storage
// that is unavailable for a moment. Everything else is the wrapped node's.
type flakyMap struct {
	datamodel.Node
	armed *atomic.Bool
}

func (f *flakyMap) MapIterator() datamodel.MapIterator {
	return &flakyIter{f.Node.MapIterator(), f.armed, 0}
}

type flakyIter struct {
	datamodel.MapIterator
	armed *atomic.Bool
	n     int
}

func (it *flakyIter) Next() (datamodel.Node, datamodel.Node, error) {
	it.n++
	if it.armed.Load() && it.n >= 2 {
		return nil, nil, errors.New("storage: block temporarily unavailable")
	}
	return it.MapIterator.Next()
}

// c12Flaky: a selection on a node that fails for a moment - whatever that call does (an error,
// a panic passing through) - leaves nothing behind: the same selection on the same node
// object, healthy again, gives what the reference interpreter gives.
func c12Flaky(w *mon.W) {
	r := w.Rng
	texts := []string{".[]", ".[]?", ".[][0]", ".[][1:]", ".[][-1]", ".[][0]?", ".", ".a", ".[][:1]"}
	for it := 0; it < w.Share(w.Pick(120, 1200)); it++ {
		n := 2 + r.IntN(4)
		d := ref.V{K: ref.KMap}
		for i := 0; i < n; i++ {
			d.M = append(d.M, ref.KV{K: string(rune('a' + i)), V: ref.Int(int64(r.IntN(50)))})
		}
		for ti, text := range texts {
			// a fresh node object per case; the failing call comes first in every other case
			armed := &atomic.Bool{}
			node := &flakyMap{d.Node(), armed}
			order := []bool{false, true, false, false}
			if (it+ti)%2 == 0 {
				order = []bool{true, false, false}
			}
			sel, ok, _ := ref.ParseSel(text)
			if !ok {
				continue
			}
			mo, mv := ref.Select(sel, d)
			if mo == ref.OUnspec {
				continue
			}
			want := selRes{class: mo, val: mv}
			var outcomes []string
			for phase, arm := range order {
				armed.Store(arm)
				var got selRes
				var perr error
				pi := mon.Guard(func() { got, perr = c12Select(text, node) })
				w.Eval(1)
				switch {
				case pi != nil:
					outcomes = append(outcomes, "panic: "+mon.Trunc(pi.Value, 80))
				case perr != nil:
					outcomes = append(outcomes, "harness: "+perr.Error())
				default:
					outcomes = append(outcomes, got.String())
				}
				if arm {
					w.Cover("flaky/while-failing")
					continue
				}
				w.Cover(fmt.Sprintf("flaky/%d-calls/healthy-phase-%d", len(order), phase))
				if pi != nil || perr != nil || !got.same(want) {
					w.Violate(fmt.Sprintf("flaky-node/healthy-result-differs/phase=%d", phase),
						fmt.Sprintf("Select(%q) on a healthy map node %s: %s, the segment-by-segment semantics give %s (calls on this node object so far, a failing iterator being injected in one of them: %v)", text, mon.Trunc(d.String(), 120), outcomes[len(outcomes)-1], want, outcomes),
						map[string]any{"selector": text, "data": d.String(), "outcomes_in_order": outcomes, "phase": phase})
					break
				}
			}
			armed.Store(false)
			w.Distinct("flaky", text, d.String())
		}
	}
}
