package props

import (
	"bytes"
	"fmt"
	"math"

	"github.com/ipld/go-ipld-prime/node/basicnode"

	"github.com/ucan-wg/go-ucan/pkg/command"
	"github.com/ucan-wg/go-ucan/pkg/policy"
	"github.com/ucan-wg/go-ucan/token"
	"github.com/ucan-wg/go-ucan/token/delegation"
	"github.com/ucan-wg/go-ucan/token/invocation"

	"verifharness/gen"
	"verifharness/mon"
	"verifharness/ref"
)

// c10LibrarySealed: what the LIBRARY ITSELF seals. Constructors do not police everything the
// decoders must (a command assembled with New / Join, an integer of a policy built by hand);
// such a token is sealed through every writing API of the library and the bytes are offered to
// every decoder straight away, in the same process: sealing something is no reason to accept
// it later. A decoder may refuse; if it returns a token, the token must be well-formed.
func c10LibrarySealed(w *mon.W) {
	iss, aud := gen.Ed(3), gen.Ed(4)
	cmds := []struct {
		name string
		c    command.Command
	}{
		{"valid", command.MustParse("/ok/cmd")},
		{"upper-case-via-New", command.New("Storage", "Write")},
		{"upper-case-via-Join", command.Top().Join("crud", "É")},
		{"no-leading-slash", command.Command("no-slash")},
		{"trailing-slash", command.Command("/trailing/")},
		{"empty", command.Command("")},
	}
	ints := []struct {
		name string
		v    int64
	}{
		{"none", 0}, {"2^53-1", ref.MaxSafe}, {"2^53", ref.MaxSafe + 1}, {"-(2^53)", -ref.MaxSafe - 1}, {"max-int64", math.MaxInt64}, {"min-int64", math.MinInt64},
	}
	idx := 0
	for _, c := range cmds {
		for _, iv := range ints {
			for _, typ := range []string{"dlg", "inv"} {
				idx++
				if !w.Mine(idx) {
					continue
				}
				var tk token.Token
				var tag string
				var forms = map[string][]byte{}
				switch typ {
				case "dlg":
					tag = ref.TagDelegation
					pol := policy.Policy{}
					if iv.name != "none" {
						p, err := gen.BuildPolicy(ref.Policy{{Kind: ">=", Sel: ref.Sel{{Kind: ref.SField, Name: "n"}}, Val: ref.Int(iv.v)}})
						if err != nil {
							w.Cover("library-sealed/constructor-refuses")
							continue
						}
						pol = p
					}
					d, err := delegation.New(iss.DID, aud.DID, c.c, pol, delegation.WithSubject(iss.DID))
					if err != nil {
						w.Cover("library-sealed/constructor-refuses")
						continue
					}
					tk = d
					if b, _, err := d.ToSealed(iss.Priv); err == nil {
						forms["ToSealed"] = b
					}
					var buf bytes.Buffer
					if _, err := d.ToSealedWriter(&buf, iss.Priv); err == nil {
						forms["ToSealedWriter"] = buf.Bytes()
					}
					if b, err := d.ToDagCbor(iss.Priv); err == nil {
						forms["ToDagCbor"] = b
					}
					if b, err := d.ToDagJson(iss.Priv); err == nil {
						forms["ToDagJson"] = b
					}
				default:
					tag = ref.TagInvocation
					var opts []invocation.Option
					if iv.name != "none" {
						opts = append(opts, invocation.WithArgument("n", basicnode.NewInt(iv.v)))
					}
					i, err := invocation.New(iss.DID, iss.DID, c.c, nil, opts...)
					if err != nil {
						w.Cover("library-sealed/constructor-refuses")
						continue
					}
					tk = i
					if b, _, err := i.ToSealed(iss.Priv); err == nil {
						forms["ToSealed"] = b
					}
					var buf bytes.Buffer
					if _, err := i.ToSealedWriter(&buf, iss.Priv); err == nil {
						forms["ToSealedWriter"] = buf.Bytes()
					}
					if b, err := i.ToDagCbor(iss.Priv); err == nil {
						forms["ToDagCbor"] = b
					}
					if b, err := i.ToDagJson(iss.Priv); err == nil {
						forms["ToDagJson"] = b
					}
				}
				_ = tk
				for how, in := range forms {
					codec := "dagcbor"
					if how == "ToDagJson" {
						codec = "dagjson"
					}
					for pass := 0; pass < 2; pass++ {
						for _, d := range c10Decoders() {
							if d.codec != codec {
								continue
							}
							var t token.Token
							var derr error
							w.Journal("C10/library-sealed/"+d.name, in)
							pi := mon.Guard(func() { t, derr = d.f(in) })
							w.Eval(1)
							w.Cover("library-sealed/offered")
							w.Distinct("library-sealed", c.name, iv.name, typ, how, d.name)
							if pi != nil {
								w.Count("decoder-panics(judged by C09)", 1)
								continue
							}
							if derr != nil || t == nil {
								w.Cover("library-sealed/rejected")
								continue
							}
							w.Cover("library-sealed/accepted")
							wantTag := tag
							if why := wellFormed(t, wantTag); why != "" {
								if d.tag != "" && d.tag != tag {
									why = "type-does-not-match-tag"
								}
								w.Violate(fmt.Sprintf("ill-formed-token/%s/library-sealed/%s", why, decFamily(d.name)),
									fmt.Sprintf("%s returns a token that is not well-formed (%s) for bytes the library's own %s produced from a constructor-made %s (command %s, integer %s)", d.name, why, how, typ, c.name, iv.name),
									map[string]any{"type": typ, "command": string(c.c), "command_kind": c.name, "integer": iv.name, "sealed_by": how, "decoder": d.name, "pass": pass, "input_hex": mon.Hex(capBytes(in, 4096)), "accepted_fields": gen.Fields(t).String()})
							}
						}
					}
				}
			}
		}
	}
}
