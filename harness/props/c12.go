package props

import (
	"fmt"
	"math"
	"math/rand/v2"
	"regexp"
	"strings"

	"github.com/ipld/go-ipld-prime/datamodel"

	"github.com/ucan-wg/go-ucan/pkg/policy/selector"

	"verifharness/gen"
	"verifharness/mon"
	"verifharness/ref"
)

func init() {
	register(&mon.Prop{
		ID:    "C12",
		Level: "exploration",
		Rule: "seeded (selector, data) pairs: segment sequences of length 1..6 over {identity, .field, [\"quoted field\"] (incl. the empty name and names containing . [ ] space), index, slice, iterator} x {optional, not}; index/slice bounds from {0,+-1,+-2,+-len,+-(len+1),+-(2^53-1),absent}, reversed and empty ranges; data of every IPLD kind (maps with the selected keys present/absent, lists, byte strings, strings with multi-byte characters, scalars, null), segments chosen half of the time to fit the value reached so far. Plus the exhaustive kind x segment matrix (19 catalogue values incl. every empty collection x 40 segment shapes x 6 continuations, at the root and one level down) and the exhaustive slice table: lengths 0..6 x (start,end) in {-8..8,absent}^2 on lists, bytes and strings. " +
			"Oracles: (i) Select == reference interpreter wherever the property pins the result (value deep-equal / no-value / error); (ii) model-free split compositionality: for every split prefix|suffix whose prefix selects v, Select(full,d) == Select(suffix,v), and a failing prefix makes the full selector fail. " +
			"(iii) reuse: one parsed Selector resolved against a series of lists / byte strings / strings of different lengths (forwards, then backwards) yields each time what a freshly parsed one yields. non-trivial = >=2 segments or a slice/negative index; distinct = (selector text, data).",
		Assumptions: []string{
			"reference interpreter ref.Select (90 lines, from the property text; Python slice semantics), self-tested against vectors of the repository's selector tests",
			"not judged (left open by the property): a failing optional slice/iterator (also on 'no value'); after an optional field/index yielded 'no value' the remaining segments are resolved against it: identity keeps it, non-optional segments fail, optional field/index keep it",
			"strings are valid UTF-8; field names contain no quote, colon or backslash",
		},
		Shards:          shards(8, 16),
		RaceShards:      shards(1, 2),
		RaceIsViolation: true,
		Run:             runC12,
		MinEvals:        floor(100000, 3000000),
		MinDistinct:     floor(20000, 500000),
		RequiredCells: func(string) []string {
			cells := []string{"purity/select/history", "purity/select/concurrent", "flaky/while-failing", "flaky/4-calls/healthy-phase-0", "flaky/4-calls/healthy-phase-2", "flaky/3-calls/healthy-phase-1", "flaky/3-calls/healthy-phase-2", "reuse", "reuse/slice-or-negative", "matrix/kind-x-segment", "slice-table/list", "slice-table/bytes", "slice-table/string", "split/prefix-value", "split/prefix-error", "model/value", "model/no-value", "model/error", "model/unspecified", "field/empty-name", "iter/map-then-more", "iter/list-then-more"}
			for _, k := range []string{"identity", "field", "index", "slice", "iter"} {
				for _, d := range []string{"map", "list", "bytes", "string", "int", "null"} {
					cells = append(cells, "seg/"+k+"/on="+d)
				}
				cells = append(cells, "seg/"+k+"/opt")
			}
			return cells
		},
	})
	addSelfTest("R-select vs in-tree selector vectors", selfTestSelect)
}

func selfTestSelect() error {
	i := ref.I64
	d := ref.Map(
		ref.E("name", ref.Map(ref.E("first", ref.Str("Alice")), ref.E("last", ref.Str("Wonderland")))),
		ref.E("age", ref.Int(10)),
		ref.E("nationalities", ref.List(ref.Str("British"), ref.Str("Canadian"))),
		ref.E("bytes", ref.Bytes([]byte{1, 2, 3, 4, 5})),
		ref.E("str", ref.Str("héllo")),
	)
	type tc struct {
		sel  ref.Sel
		out  ref.Outcome
		want ref.V
	}
	tests := []tc{
		{ref.Sel{}, ref.OValue, d},
		{ref.Sel{{Kind: ref.SField, Name: "name"}, {Kind: ref.SField, Name: "first"}}, ref.OValue, ref.Str("Alice")},
		{ref.Sel{{Kind: ref.SField, Name: "name"}, {Kind: ref.SField, Name: "middle", Opt: true}}, ref.ONoValue, ref.V{}},
		{ref.Sel{{Kind: ref.SField, Name: "name"}, {Kind: ref.SField, Name: "middle"}}, ref.OError, ref.V{}},
		{ref.Sel{{Kind: ref.SField, Name: "nationalities"}, {Kind: ref.SIndex, Idx: 0}}, ref.OValue, ref.Str("British")},
		{ref.Sel{{Kind: ref.SField, Name: "nationalities"}, {Kind: ref.SIndex, Idx: -1}}, ref.OValue, ref.Str("Canadian")},
		{ref.Sel{{Kind: ref.SField, Name: "nationalities"}, {Kind: ref.SIndex, Idx: 5}}, ref.OError, ref.V{}},
		{ref.Sel{{Kind: ref.SField, Name: "nationalities"}, {Kind: ref.SIndex, Idx: 5, Opt: true}}, ref.ONoValue, ref.V{}},
		{ref.Sel{{Kind: ref.SField, Name: "nationalities"}, {Kind: ref.SIter}}, ref.OValue, ref.List(ref.Str("British"), ref.Str("Canadian"))},
		{ref.Sel{{Kind: ref.SField, Name: "name"}, {Kind: ref.SIter}}, ref.OValue, ref.List(ref.Str("Alice"), ref.Str("Wonderland"))},
		{ref.Sel{{Kind: ref.SField, Name: "bytes"}, {Kind: ref.SSlice, Lo: i(1), Hi: i(3)}}, ref.OValue, ref.Bytes([]byte{2, 3})},
		{ref.Sel{{Kind: ref.SField, Name: "bytes"}, {Kind: ref.SSlice, Lo: i(-2)}}, ref.OValue, ref.Bytes([]byte{4, 5})},
		{ref.Sel{{Kind: ref.SField, Name: "bytes"}, {Kind: ref.SIndex, Idx: -1}}, ref.OValue, ref.Int(5)},
		{ref.Sel{{Kind: ref.SField, Name: "str"}, {Kind: ref.SSlice, Lo: i(1), Hi: i(3)}}, ref.OValue, ref.Str("él")},
		{ref.Sel{{Kind: ref.SField, Name: "nationalities"}, {Kind: ref.SSlice, Lo: i(3), Hi: i(1)}}, ref.OValue, ref.List()},
		{ref.Sel{{Kind: ref.SField, Name: "age"}, {Kind: ref.SIter}}, ref.OError, ref.V{}},
	}
	for _, t := range tests {
		o, v := ref.Select(t.sel, d)
		if o != t.out || (o == ref.OValue && !ref.Equal(v, t.want)) {
			return fmt.Errorf("ref.Select(%s) = %v %s, want %v %s", t.sel.Text(), o, v, t.out, t.want)
		}
	}
	// Python slice table spot checks: [0,1,2,3,4]
	for _, c := range []struct {
		lo, hi *int64
		a, b   int64
	}{{nil, nil, 0, 5}, {i(-2), nil, 3, 5}, {nil, i(-2), 0, 3}, {i(-100), i(100), 0, 5}, {i(4), i(2), 4, 4}, {i(7), nil, 5, 5}, {i(-1), i(-3), 4, 4}} {
		if a, b := ref.PySlice(c.lo, c.hi, 5); a != c.a || b != c.b {
			return fmt.Errorf("PySlice wrong: got %d,%d want %d,%d", a, b, c.a, c.b)
		}
	}
	return nil
}

var c12Names = []string{"a", "b", "foo", "bar", "k0", "é", "键", "", "a b", "a.b", "x[0]", "with-dash", "$d", "_u", "UP", "0", "-1", "1", "null", "a?",
	// what a text escaper would rewrite: a tab, a zero-width joiner, a byte that is not UTF-8
	"a\tb", "a\u200db", "k\xff", "/"}

func c12Data(r *rand.Rand, depth int) ref.V {
	switch k := r.IntN(12); {
	case k < 4 && depth > 0:
		m := ref.V{K: ref.KMap, M: []ref.KV{}}
		seen := map[string]bool{}
		for i := 0; i < r.IntN(5); i++ {
			n := gen.Pick(r, c12Names)
			if seen[n] {
				continue
			}
			seen[n] = true
			m.M = append(m.M, ref.KV{K: n, V: c12Data(r, depth-1)})
		}
		return m
	case k < 7 && depth > 0:
		l := ref.V{K: ref.KList, L: []ref.V{}}
		for i := 0; i < r.IntN(5); i++ {
			l.L = append(l.L, c12Data(r, depth-1))
		}
		return l
	case k == 7:
		return ref.Bytes(gen.Bytes(r, r.IntN(6)))
	case k == 8:
		return ref.Str(gen.Pick(r, []string{"", "a", "héllo", "日本語テキスト", "abcdef", "ab", "a😀b👍🏽c", "e\u0301e\u0301x", "😀", "\U0001F468\u200d\U0001F469\u200d\U0001F467",
			"漢字かな交じり文のとても長い文字列、三十二文字を超える長さにするための追加のテキストです。", "ßüöä-" + strings.Repeat("é", 70), strings.Repeat("a", 40)}))
	case k == 9:
		if r.IntN(6) == 0 {
			// integers outside the range a token may carry are ordinary data to a selector
			return ref.Int(gen.Pick(r, []int64{1 << 53, -(1 << 53), 1<<53 + 1, math.MaxInt64, math.MinInt64, 1 << 62}))
		}
		return ref.Int(gen.Int(r))
	case k == 10:
		return ref.Null()
	default:
		return gen.Pick(r, []ref.V{ref.Bool(true), ref.Float(1.5), ref.Int(0), ref.Str("x"), ref.List(), ref.Map(), ref.Map(), ref.List(),
			// real maps that SPELL what DAG-JSON reserves for bytes and links
			ref.Map(ref.E("/", ref.Map(ref.E("bytes", ref.Str("AQID"))))), ref.Map(ref.E("/", ref.Str("bafkqaaa"))), ref.Map(ref.E("/", ref.Map(ref.E("bytes", ref.Str(""))))), ref.Map(ref.E("/", ref.Int(1)))})
	}
}

func vlen(v ref.V) int64 {
	switch v.K {
	case ref.KList:
		return int64(len(v.L))
	case ref.KBytes:
		return int64(len(v.Y))
	case ref.KString:
		return int64(len([]rune(v.S)))
	case ref.KMap:
		return int64(len(v.M))
	}
	return 0
}

func c12Bound(r *rand.Rand, n int64) int64 {
	return gen.Pick(r, []int64{0, 1, -1, 2, -2, n, -n, n + 1, -(n + 1), n - 1, gen.MaxSafe, -gen.MaxSafe, 3, 2 * n, 3*n - 1, 40, 100})
}

// c12Seg draws a segment; fit=true biases it to make sense on cur.
func c12Seg(r *rand.Rand, cur ref.V, fit bool) ref.Seg {
	opt := r.IntN(4) == 0
	kind := ref.SegKind(r.IntN(5))
	if fit {
		switch cur.K {
		case ref.KMap:
			kind = gen.Pick(r, []ref.SegKind{ref.SField, ref.SField, ref.SField, ref.SIter, ref.SIdentity})
		case ref.KList:
			kind = gen.Pick(r, []ref.SegKind{ref.SIndex, ref.SIndex, ref.SSlice, ref.SIter, ref.SIdentity})
		case ref.KBytes:
			kind = gen.Pick(r, []ref.SegKind{ref.SIndex, ref.SSlice, ref.SSlice})
		case ref.KString:
			kind = gen.Pick(r, []ref.SegKind{ref.SSlice, ref.SSlice, ref.SIdentity})
		}
	}
	n := vlen(cur)
	switch kind {
	case ref.SIdentity:
		return ref.Seg{Kind: ref.SIdentity}
	case ref.SField:
		name := gen.Pick(r, c12Names)
		if cur.K == ref.KMap && len(cur.M) > 0 && r.IntN(4) > 0 {
			name = cur.M[r.IntN(len(cur.M))].K
		}
		q := !ref.PlainFieldOK(name) || r.IntN(3) == 0
		return ref.Seg{Kind: ref.SField, Name: name, Quoted: q, Opt: opt}
	case ref.SIndex:
		idx := c12Bound(r, n)
		if fit && n > 0 && r.IntN(3) > 0 {
			idx = int64(r.IntN(int(n)))
			if r.IntN(3) == 0 {
				idx -= n
			}
		}
		return ref.Seg{Kind: ref.SIndex, Idx: idx, Opt: opt}
	case ref.SSlice:
		var lo, hi *int64
		if r.IntN(4) > 0 {
			lo = ref.I64(c12Bound(r, n))
		}
		if r.IntN(4) > 0 || lo == nil {
			hi = ref.I64(c12Bound(r, n))
		}
		return ref.Seg{Kind: ref.SSlice, Lo: lo, Hi: hi, Opt: opt}
	default:
		return ref.Seg{Kind: ref.SIter, Opt: opt}
	}
}

type selRes struct {
	class ref.Outcome // OValue / ONoValue / OError
	val   ref.V
	err   string
}

var c12PoisonCtr int

// c12Poisons: selector texts the parser rejects half-way (complete segments followed by an
// unterminated quote, an unbalanced bracket, a bad number, an upper half of a slice).
var c12Poisons = []string{`.x["y`, `.secret.admin["unterminated`, `.a.b[`, `.a[1:`, `.a.b["c"].d["`, `.a[99999999999999999999]`, `.a..b`, `.a["b"]]`, `.a.b.c.d.e.f["`, `a.b`, `.a[1:2:3]`}

func c12Select(text string, d datamodel.Node) (selRes, error) {
	// every fourth parse is preceded by one that fails half-way: what it leaves behind must not
	// matter to the next one
	if c12PoisonCtr++; c12PoisonCtr%4 == 0 {
		mon.Guard(func() { _, _ = selector.Parse(c12Poisons[(c12PoisonCtr/4)%len(c12Poisons)]) })
	}
	sel, err := selector.Parse(text)
	if err != nil {
		return selRes{}, err
	}
	n, err := sel.Select(d)
	switch {
	case err != nil:
		return selRes{class: ref.OError, err: err.Error()}, nil
	case n == nil:
		return selRes{class: ref.ONoValue}, nil
	}
	v, cerr := ref.FromNode(n)
	if cerr != nil {
		return selRes{}, fmt.Errorf("result not convertible: %w", cerr)
	}
	return selRes{class: ref.OValue, val: v}, nil
}

func (a selRes) same(b selRes) bool {
	if a.class != b.class {
		return false
	}
	return a.class != ref.OValue || ref.SameData(a.val, b.val)
}

func (a selRes) String() string {
	switch a.class {
	case ref.OValue:
		return "value " + mon.Trunc(a.val.String(), 200)
	case ref.OError:
		return "error(" + mon.Trunc(a.err, 80) + ")"
	}
	return "no-value"
}

func kindCell(v ref.V) string {
	switch v.K {
	case ref.KMap, ref.KList, ref.KBytes, ref.KString, ref.KInt, ref.KNull:
		return v.K.String()
	}
	return "other"
}

func c12Case(w *mon.W, s ref.Sel, d ref.V) {
	text := s.Text()
	dn := d.Node()
	full, err := c12Select(text, dn)
	w.Eval(1)
	caseOf := func() map[string]any {
		return map[string]any{"selector": text, "data": d.String(), "segments": fmt.Sprint(s)}
	}
	if err != nil {
		w.Violate("parse/well-formed-rejected/"+segShape(s), fmt.Sprintf("well-formed selector %q rejected or unusable: %v", text, err), caseOf())
		return
	}
	if len(s) >= 2 || hasSliceOrNeg(s) {
		w.Distinct(text, d.String())
	}
	// the same selector with its integers spelled with leading zeros ("[010]" is index ten, not
	// eight): where the parser accepts that spelling, it must resolve like the canonical one
	if padded := padInts(text); padded != text {
		if alt, perr := c12Select(padded, dn); perr == nil {
			w.Eval(1)
			w.Cover("spelling/zero-padded-integers")
			if !alt.same(full) {
				m := caseOf()
				m["zero_padded_selector"] = padded
				w.Violate("spelling-dependent/zero-padded/"+segShape(s), fmt.Sprintf("selector %q resolves to %s, the same selector with zero-padded integers %q to %s", text, full, padded, alt), m)
			}
		} else {
			w.Count("spelling/zero-padded-rejected-by-parser(not judged)", 1)
		}
	}
	// coverage: which segment kind meets which data kind (along the model's walk)
	cur := d
	alive := true
	for i, g := range s {
		if alive {
			w.Cover("seg/" + g.Kind.String() + "/on=" + kindCell(cur))
			if g.Kind == ref.SField && g.Name == "" {
				w.Cover("field/empty-name")
			}
			if g.Kind == ref.SIter && i+1 < len(s) {
				switch cur.K {
				case ref.KMap:
					w.Cover("iter/map-then-more")
				case ref.KList:
					w.Cover("iter/list-then-more")
				}
			}
		}
		if g.Opt {
			w.Cover("seg/" + g.Kind.String() + "/opt")
		}
		if alive {
			nx, ok := ref.Step(g, cur)
			if ok {
				cur = nx
			} else {
				alive = false
			}
		}
	}
	// (i) reference interpreter
	mo, mv := ref.Select(s, d)
	w.Cover("model/" + mo.String())
	if mo != ref.OUnspec {
		want := selRes{class: mo, val: mv}
		if !full.same(want) {
			c := caseOf()
			c["select"] = full.String()
			c["model"] = want.String()
			w.Violate(fmt.Sprintf("model/%s/got=%s/want=%s", failShape(s, d), full.class, mo),
				fmt.Sprintf("Select(%q) on %s = %s, segment-by-segment semantics give %s", text, mon.Trunc(d.String(), 200), full, want), c)
		}
	}
	// (ii) split compositionality
	for k := 1; k < len(s); k++ {
		pre, suf := s[:k], s[k:]
		pr, err := c12Select(pre.Text(), dn)
		w.Eval(1)
		if err != nil {
			continue
		}
		switch pr.class {
		case ref.OError:
			w.Cover("split/prefix-error")
			if full.class != ref.OError {
				c := caseOf()
				c["prefix"] = pre.Text()
				c["full_result"] = full.String()
				w.Violate("split/prefix-fails-full-succeeds/"+pre[len(pre)-1].Kind.String(),
					fmt.Sprintf("prefix %q fails on the data but the full selector %q returns %s", pre.Text(), text, full), c)
			}
		case ref.OValue:
			w.Cover("split/prefix-value")
			sr, err := c12Select(suf.Text(), pr.val.Node())
			w.Eval(1)
			if err != nil {
				continue
			}
			if !full.same(sr) {
				c := caseOf()
				c["prefix"] = pre.Text()
				c["prefix_value"] = pr.val.String()
				c["suffix"] = suf.Text()
				c["suffix_on_prefix_value"] = sr.String()
				c["full_result"] = full.String()
				w.Violate(fmt.Sprintf("split/not-compositional/after=%s/on=%s", pre[len(pre)-1].Kind, kindCell(valBefore(pre, d))),
					fmt.Sprintf("Select(%q) = %s but Select(%q) on the value of %q = %s", text, full, suf.Text(), pre.Text(), sr), c)
			}
		}
	}
	if w.WantSample() && len(s) >= 3 && mo == ref.OValue {
		c := caseOf()
		c["select"] = full.String()
		c["model"] = mo.String()
		w.Sample(c)
	}
}

// valBefore returns the value the last segment of pre was applied to (by the model).
func valBefore(pre ref.Sel, d ref.V) ref.V {
	cur := d
	for _, g := range pre[:len(pre)-1] {
		nx, ok := ref.Step(g, cur)
		if !ok {
			return ref.V{K: ref.KNull}
		}
		cur = nx
	}
	return cur
}

func hasSliceOrNeg(s ref.Sel) bool {
	for _, g := range s {
		if g.Kind == ref.SSlice || (g.Kind == ref.SIndex && g.Idx < 0) {
			return true
		}
	}
	return false
}

func segShape(s ref.Sel) string {
	out := ""
	for _, g := range s {
		out += g.Kind.String()[:2]
		if g.Opt {
			out += "?"
		}
	}
	return out
}

// failShape names the first segment at which model and data part ways: kind of segment,
// optional flag, kind of data (a compact, stable class for signatures).
func failShape(s ref.Sel, d ref.V) string {
	cur := d
	for _, g := range s {
		nx, ok := ref.Step(g, cur)
		if !ok {
			o := ""
			if g.Opt {
				o = "?"
			}
			extra := ""
			if g.Kind == ref.SField && g.Name == "" {
				extra = "(empty-name)"
			}
			return fmt.Sprintf("fails-at=%s%s%s/on=%s", g.Kind, o, extra, kindCell(cur))
		}
		if g.Kind == ref.SIter && cur.K == ref.KMap {
			return "after=iter-on-map"
		}
		if g.Kind == ref.SField && g.Name == "" {
			return "after=field(empty-name)"
		}
		cur = nx
	}
	return "resolves/last=" + s[len(s)-1].Kind.String()
}

// c12Long: selectors of 20..100 segments walking a deeply nested value (alternating maps and
// lists), plain and with an optional mark on every segment, correct and with one segment
// that fails somewhere along the way.
func c12Long(w *mon.W) {
	r := w.Rng
	for it := 0; it < w.Share(w.Pick(200, 1200)); it++ {
		n := gen.Pick(r, []int{20, 33, 64, 100})
		var s ref.Sel
		leaf := ref.List(ref.Int(1), ref.Str("日本語"), ref.Null())
		d := leaf
		kinds := make([]int, n)
		for i := range kinds {
			kinds[i] = r.IntN(3)
		}
		for i := n - 1; i >= 0; i-- {
			switch kinds[i] {
			case 0:
				d = ref.Map(ref.E("k", d), ref.E("z", ref.Null()))
			case 1:
				d = ref.List(ref.Int(0), d)
			default:
				d = ref.Map(ref.E("only", d))
			}
		}
		allOpt := it%3 == 1
		for i := 0; i < n; i++ {
			var g ref.Seg
			switch kinds[i] {
			case 0:
				g = ref.Seg{Kind: ref.SField, Name: "k", Quoted: r.IntN(4) == 0}
			case 1:
				g = ref.Seg{Kind: ref.SIndex, Idx: gen.Pick(r, []int64{1, -1})}
			default:
				g = ref.Seg{Kind: ref.SIter}
				// the iterator turns {"only": x} into [x]; step into it
				s = append(s, g)
				g = ref.Seg{Kind: ref.SIndex, Idx: 0}
			}
			g.Opt = allOpt && g.Kind != ref.SIter
			s = append(s, g)
		}
		if it%3 == 2 {
			// one failing segment somewhere
			k := r.IntN(len(s))
			switch s[k].Kind {
			case ref.SField:
				s[k].Name = "missing"
			case ref.SIndex:
				s[k].Idx = 7
			}
			s[k].Opt = r.IntN(2) == 0
		}
		s = append(s, ref.Seg{Kind: ref.SSlice, Lo: ref.I64(-2)})
		w.Cover("long-selectors")
		c12Case(w, s, d)
	}
}

func runC12(w *mon.W) {
	if purityGate(w, c12Purity) {
		return
	}
	c12Long(w)
	c12Reuse(w)
	c12Flaky(w)
	r := w.Rng
	// exhaustive slice table
	idx := 0
	bounds := []*int64{nil}
	for b := int64(-8); b <= 8; b++ {
		bounds = append(bounds, ref.I64(b))
	}
	for n := 0; n <= 6; n++ {
		l := ref.V{K: ref.KList, L: []ref.V{}}
		var by []byte
		rs := []rune{}
		for i := 0; i < n; i++ {
			l.L = append(l.L, ref.Int(int64(i)))
			by = append(by, byte(i+1))
			rs = append(rs, []rune("aé日bcß")[i])
		}
		for _, lo := range bounds {
			for _, hi := range bounds {
				if lo == nil && hi == nil {
					continue // "[:]" is not in the grammar
				}
				idx++
				if !w.Mine(idx) {
					continue
				}
				sg := ref.Sel{{Kind: ref.SSlice, Lo: lo, Hi: hi}}
				c12Case(w, sg, l)
				w.Cover("slice-table/list")
				c12Case(w, sg, ref.Bytes(by))
				w.Cover("slice-table/bytes")
				c12Case(w, sg, ref.Str(string(rs)))
				w.Cover("slice-table/string")
			}
		}
	}
	// exhaustive kind x segment matrix: every segment shape on a catalogue of values of every
	// kind (incl. the empty collections / strings), alone and followed by one more segment
	catalogue := []ref.V{
		ref.Null(), ref.Bool(false), ref.Int(0), ref.Int(-7), ref.Float(2.5), ref.Str(""), ref.Str("a"), ref.Str("héllo wörld"),
		ref.Str("漢字かな交じり文のとても長い文字列、三十二文字を超える長さにするための追加のテキストです。"),
		ref.Bytes(nil), ref.Bytes([]byte{1}), ref.Bytes([]byte{1, 2, 3, 4}), ref.List(), ref.List(ref.Int(1)), ref.List(ref.Int(1), ref.Str("x"), ref.Map(), ref.List()),
		ref.Map(), ref.Map(ref.E("a", ref.Int(1))), ref.Map(ref.E("a", ref.Map()), ref.E("", ref.List()), ref.E("b", ref.Str("s"))), ref.Link(ref.CID([]byte("l"))),
	}
	var shapes []ref.Seg
	for _, opt := range []bool{false, true} {
		shapes = append(shapes, ref.Seg{Kind: ref.SField, Name: "a", Opt: opt}, ref.Seg{Kind: ref.SField, Name: "", Quoted: true, Opt: opt}, ref.Seg{Kind: ref.SField, Name: "zz", Opt: opt}, ref.Seg{Kind: ref.SIter, Opt: opt})
		for _, ix := range []int64{0, 1, -1, 3, -4, 100} {
			shapes = append(shapes, ref.Seg{Kind: ref.SIndex, Idx: ix, Opt: opt})
		}
		for _, b := range [][2]*int64{{ref.I64(0), nil}, {nil, ref.I64(1)}, {ref.I64(0), ref.I64(1)}, {ref.I64(1), ref.I64(3)}, {ref.I64(-2), nil}, {nil, ref.I64(-1)}, {ref.I64(2), ref.I64(1)}, {ref.I64(0), ref.I64(100)}, {ref.I64(50), ref.I64(60)}} {
			shapes = append(shapes, ref.Seg{Kind: ref.SSlice, Lo: b[0], Hi: b[1], Opt: opt})
		}
	}
	tails := []ref.Sel{nil, {{Kind: ref.SField, Name: "a"}}, {{Kind: ref.SIndex, Idx: 0}}, {{Kind: ref.SIter}}, {{Kind: ref.SSlice, Lo: ref.I64(0), Hi: ref.I64(1)}}, {{Kind: ref.SField, Name: "a", Opt: true}}}
	for _, v := range catalogue {
		for _, sh := range shapes {
			for _, tl := range tails {
				idx++
				if !w.Mine(idx) {
					continue
				}
				c12Case(w, append(ref.Sel{sh}, tl...), v)
				// and one level down
				c12Case(w, append(ref.Sel{{Kind: ref.SField, Name: "k"}, sh}, tl...), ref.Map(ref.E("k", v)))
				w.Cover("matrix/kind-x-segment")
			}
		}
	}
	total := w.Share(w.Pick(100000, 900000))
	for it := 0; it < total; it++ {
		d := c12Data(r, 4)
		n := 1 + r.IntN(6)
		var s ref.Sel
		cur := d
		alive := true
		for i := 0; i < n; i++ {
			g := c12Seg(r, cur, alive && r.IntN(10) < 7)
			for g.Kind == ref.SIdentity && len(s) > 0 && s[len(s)-1].Kind == ref.SIdentity {
				g = c12Seg(r, cur, false) // ".." (two identities in a row) is not in the grammar
			}
			s = append(s, g)
			if alive {
				nx, ok := ref.Step(g, cur)
				if ok {
					cur = nx
				} else {
					alive = false
				}
			}
		}
		if it%97 == 0 {
			s = ref.Sel{{Kind: ref.SIdentity, Opt: true}}
		}
		c12Case(w, s, d)
	}
}

// c12Reuse: a parsed selector is a value that callers keep (every policy statement holds
// one): the SAME Selector object resolved against a series of values of different lengths
// and kinds, forwards and then backwards, must give each time what a freshly parsed selector
// gives for that value. Model-free.
func c12Reuse(w *mon.W) {
	r := w.Rng
	total := w.Share(w.Pick(10000, 60000))
	for it := 0; it < total; it++ {
		// a family of collection values of one kind and several lengths, wrapped the same way
		kind := r.IntN(3)
		mk := func(n int) ref.V {
			switch kind {
			case 0:
				l := ref.V{K: ref.KList, L: []ref.V{}}
				for i := 0; i < n; i++ {
					l.L = append(l.L, ref.Int(int64(i)))
				}
				return l
			case 1:
				b := make([]byte, n)
				for i := range b {
					b[i] = byte(i + 1)
				}
				return ref.Bytes(b)
			default:
				rs := []rune("aé日bcß漢字xyzüö")
				s := ""
				for i := 0; i < n; i++ {
					s += string(rs[i%len(rs)])
				}
				return ref.Str(s)
			}
		}
		lens := []int{r.IntN(8), r.IntN(8), r.IntN(3), 5 + r.IntN(40), 0, 1}
		r.Shuffle(len(lens), func(i, j int) { lens[i], lens[j] = lens[j], lens[i] })
		wrap := r.IntN(2) == 0
		var datas []ref.V
		for _, n := range lens {
			v := mk(n)
			if wrap {
				v = ref.Map(ref.E("xs", v), ref.E("other", c12Data(r, 1)))
			}
			datas = append(datas, v)
		}
		if r.IntN(4) == 0 {
			datas = append(datas, c12Data(r, 2))
		}
		var s ref.Sel
		if wrap {
			s = append(s, ref.Seg{Kind: ref.SField, Name: "xs"})
		}
		nseg := 1 + r.IntN(2)
		for k := 0; k < nseg; k++ {
			g := c12Seg(r, mk(lens[0]), true)
			for g.Kind == ref.SIdentity {
				g = c12Seg(r, mk(lens[0]), true) // (".." is not in the grammar)
			}
			if k == 0 && r.IntN(3) > 0 {
				// explicit negative / open bounds are what a write-back would spoil
				lo, hi := ref.I64(-int64(1+r.IntN(4))), ref.I64(-int64(r.IntN(3)))
				switch r.IntN(4) {
				case 0:
					hi = nil
				case 1:
					lo = nil
				case 2:
					*hi = int64(1 + r.IntN(6))
				}
				if lo == nil && hi == nil {
					hi = ref.I64(-1)
				}
				g = ref.Seg{Kind: ref.SSlice, Lo: lo, Hi: hi, Opt: r.IntN(5) == 0}
				if kind != 2 && r.IntN(4) == 0 {
					g = ref.Seg{Kind: ref.SIndex, Idx: -int64(1 + r.IntN(4)), Opt: r.IntN(3) == 0}
				}
			}
			s = append(s, g)
		}
		text := s.Text()
		shared, err := selector.Parse(text)
		if err != nil {
			w.Violate("parse/well-formed-rejected/reuse", fmt.Sprintf("well-formed selector %q rejected: %v", text, err), map[string]any{"selector": text})
			continue
		}
		order := make([]int, 0, 2*len(datas))
		for i := range datas {
			order = append(order, i)
		}
		for i := len(datas) - 1; i >= 0; i-- {
			order = append(order, i)
		}
		var history []string
		for _, di := range order {
			d := datas[di]
			fresh, err := c12Select(text, d.Node())
			if err != nil {
				break
			}
			var got selRes
			n, serr := shared.Select(d.Node())
			w.Eval(2)
			switch {
			case serr != nil:
				got = selRes{class: ref.OError, err: serr.Error()}
			case n == nil:
				got = selRes{class: ref.ONoValue}
			default:
				v, cerr := ref.FromNode(n)
				if cerr != nil {
					break
				}
				got = selRes{class: ref.OValue, val: v}
			}
			history = append(history, fmt.Sprintf("%s -> %s", mon.Trunc(d.String(), 80), got))
			w.Cover("reuse")
			if hasSliceOrNeg(s) {
				w.Cover("reuse/slice-or-negative")
			}
			w.Distinct("reuse", text, d.String(), len(history))
			if !got.same(fresh) {
				w.Violate("reuse/result-depends-on-earlier-resolutions/"+segShape(s), fmt.Sprintf("selector %q parsed once and resolved against a series of values: on %s it yields %s, a freshly parsed selector yields %s", text, mon.Trunc(d.String(), 120), got, fresh),
					map[string]any{"selector": text, "history_on_the_shared_selector": history, "fresh_result": fresh.String()})
				break
			}
		}
	}
}

var c12IntRun = regexp.MustCompile(`-?[0-9]+`)

// padInts spells every integer between brackets with a leading zero (two for single digits).
func padInts(text string) string {
	var b strings.Builder
	depth := 0
	last := 0
	quoted := false
	for i := 0; i < len(text); i++ {
		switch text[i] {
		case '"':
			quoted = !quoted
		case '[':
			if !quoted {
				depth++
			}
		case ']':
			if !quoted && depth > 0 {
				// rewrite the integers of this bracket body
				j := strings.LastIndex(text[:i], "[")
				if j >= last && !strings.Contains(text[j:i], `"`) {
					b.WriteString(text[last : j+1])
					b.WriteString(c12IntRun.ReplaceAllStringFunc(text[j+1:i], func(m string) string {
						neg := strings.HasPrefix(m, "-")
						d := strings.TrimPrefix(m, "-")
						if len(d) > 15 {
							return m
						}
						d = "0" + d
						if neg {
							return "-" + d
						}
						return d
					}))
					last = i
				}
				depth--
			}
		}
	}
	b.WriteString(text[last:])
	return b.String()
}
