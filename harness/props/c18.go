package props

import (
	"bytes"
	"context"
	"crypto/sha256"
	"encoding/base64"
	"errors"
	"fmt"
	"io"
	"math/rand/v2"
	"os"
	"runtime"
	"sort"
	"strings"
	"syscall"
	"testing/iotest"
	"time"

	"github.com/ipfs/go-cid"
	"github.com/ipld/go-ipld-prime/codec/dagcbor"
	"github.com/ipld/go-ipld-prime/codec/dagjson"

	"github.com/ucan-wg/go-ucan/pkg/command"
	"github.com/ucan-wg/go-ucan/pkg/container"
	"github.com/ucan-wg/go-ucan/pkg/policy"
	"github.com/ucan-wg/go-ucan/token"
	"github.com/ucan-wg/go-ucan/token/delegation"
	"github.com/ucan-wg/go-ucan/token/invocation"

	"verifharness/gen"
	"verifharness/mon"
	"verifharness/ref"
)

func init() {
	register(&mon.Prop{
		ID:         "C18",
		Level:      "fault_enumeration",
		Exhaustive: true,
		Rule: "artefacts: sealed tokens of both types (DAG-CBOR and DAG-JSON) and containers in the four formats (quick: 12 artefacts <=1.5 kB; thorough: 200 incl. 40-token containers). " +
			"Read side, for every *Reader function: chunkings (1-byte, half, data-with-EOF, random) must give the tokens and CIDs of the in-memory decode; fault enumeration at EVERY byte offset k (incl. k=len): the reader fails at k as (0,err) and as (n>0,err), and the stream is cut at k - the call must return an error, never a token / CID / reader, except a CAR stream cut exactly between two sections (boundaries computed by the harness's own CAR splitter), which must yield exactly the blocks before the cut. " +
			"Write side, for ToSealedWriter, ToDagCborWriter, ToDagJsonWriter, EncodeWriter and the four container writers: a counting sink measures the N Write calls of the fault-free run (bytes == buffered call for deterministic signatures, CID == hash of the bytes written), then EVERY call index 0..N-1 fails in turn (incl. the final flush), once as (0, err) and once as a short write (n>0, err): the call must return an error. " +
			"non-trivial = fault position strictly inside the artefact; distinct = (artefact, API, fault kind, position).",
		Assumptions: []string{
			"CAR section boundaries from ref.SplitCAR; for base64 CAR a cut is legitimate only where the decoded prefix ends on a section boundary",
			"write faults return (0, err) or (n>0, err); short writes without error (an io.Writer contract violation) are not injected",
		},
		Shards:          shards(8, 16),
		RaceShards:      shards(1, 2),
		RaceIsViolation: true,
		Run:             runC18,
		MinEvals:        floor(40000, 450000),
		MinDistinct:     floor(20000, 400000),
		RequiredCells: func(string) []string {
			cells := []string{"purity/stream-reads/history", "purity/stream-reads/concurrent", "sized/sealed-dlg", "sized/sealed-inv", "sized/json-dlg", "sized/json-inv", "chunk/one-byte", "chunk/half", "chunk/data-err", "chunk/random", "car/legit-boundary-cut", "write/final-flush-fault", "write/clean-call-after-faulted-call", "read/clean-call-after-faulted-calls", "write/bytes-equal-buffered", "write/cid-of-written-bytes"}
			for _, api := range []string{"token.FromSealedReader", "delegation.FromSealedReader", "invocation.FromSealedReader", "token.FromDagCborReader", "token.FromDagJsonReader", "token.DecodeReader", "container.FromCborReader", "container.FromCarReader", "container.FromCborBase64Reader", "container.FromCarBase64Reader"} {
				cells = append(cells, "read-fault/"+api+"/err0", "read-fault/"+api+"/errN", "read-fault/"+api+"/cut")
			}
			for _, api := range []string{"ToSealedWriter", "ToDagCborWriter", "ToDagJsonWriter", "EncodeWriter", "ToCborWriter", "ToCarWriter", "ToCborBase64Writer", "ToCarBase64Writer"} {
				cells = append(cells, "write-fault/"+api)
			}
			return cells
		},
	})
}

var errInjected = errors.New("injected I/O fault")

// faultReader delivers data[:k] in chunks and then fails (mode err0: (0,err); errN: the last
// chunk comes together with the error; cut: clean EOF).
type faultReader struct {
	data  []byte
	k     int
	pos   int
	mode  string
	chunk int
	err   error // the fault to report (errInjected if nil)
	fired bool
}

// c18Faults: what a failing stream may report. Every one of them is a failure (none is io.EOF).
var c18Faults = []error{errInjected, io.ErrUnexpectedEOF, io.ErrClosedPipe, os.ErrDeadlineExceeded, context.Canceled, io.ErrNoProgress, fmt.Errorf("read tcp: %w", syscall.ECONNRESET)}

func (f *faultReader) fault() error {
	f.fired = true
	if f.err != nil {
		return f.err
	}
	return errInjected
}

// zeroReader interleaves (0, nil) reads - which io.Reader permits and callers must treat as
// "nothing happened" - with short reads.
type zeroReader struct {
	r io.Reader
	i int
}

func (z *zeroReader) Read(p []byte) (int, error) {
	z.i++
	if z.i%3 != 0 {
		return 0, nil
	}
	if len(p) > 3 {
		p = p[:3]
	}
	return z.r.Read(p)
}

func (f *faultReader) Read(p []byte) (int, error) {
	if len(p) == 0 {
		return 0, nil
	}
	limit := f.k
	once := strings.HasSuffix(f.mode, "-once")
	if once && f.fired {
		// a transient fault: reported once, the stream carries on afterwards and ends normally
		limit = len(f.data)
		if f.pos >= limit {
			return 0, io.EOF
		}
	}
	remain := limit - f.pos
	if remain <= 0 {
		if f.mode == "cut" {
			return 0, io.EOF
		}
		return 0, f.fault()
	}
	n := len(p)
	if f.chunk > 0 && n > f.chunk {
		n = f.chunk
	}
	if n > remain {
		n = remain
	}
	copy(p, f.data[f.pos:f.pos+n])
	f.pos += n
	if f.pos == f.k && (f.mode == "errN" || (f.mode == "errN-once" && !f.fired)) {
		return n, f.fault()
	}
	return n, nil
}

type randChunkReader struct {
	r   io.Reader
	rng *rand.Rand
}

func (c *randChunkReader) Read(p []byte) (int, error) {
	if len(p) == 0 {
		return 0, nil
	}
	n := 1 + c.rng.IntN(len(p))
	if n > 7 && c.rng.IntN(2) == 0 {
		n = 1 + c.rng.IntN(7)
	}
	return c.r.Read(p[:n])
}

// readResult is a normalised outcome of a *Reader function.
type readResult struct {
	err  error
	keys []string // CIDs (tokens: one; containers: sorted keys)
	flds []string // Fields of each token, in key order
}

func tokRes(t token.Token, c cid.Cid, err error, withCid bool) readResult {
	if err != nil {
		return readResult{err: err}
	}
	if t == nil {
		return readResult{err: errors.New("nil token without error")}
	}
	r := readResult{flds: []string{gen.Fields(t).String()}}
	if withCid {
		r.keys = []string{c.String()}
	}
	return r
}

func ctnRes(rd container.Reader, err error) readResult {
	if err != nil {
		return readResult{err: err}
	}
	var ks []string
	byKey := map[string]string{}
	for k, t := range rd {
		ks = append(ks, k.String())
		byKey[k.String()] = gen.Fields(t).String()
	}
	sort.Strings(ks)
	r := readResult{keys: ks}
	for _, k := range ks {
		r.flds = append(r.flds, byKey[k])
	}
	return r
}

func (a readResult) same(b readResult) bool {
	if (a.err == nil) != (b.err == nil) {
		return false
	}
	if a.err != nil {
		return true
	}
	return fmt.Sprint(a.keys) == fmt.Sprint(b.keys) && fmt.Sprint(a.flds) == fmt.Sprint(b.flds)
}

type readAPI struct {
	name string
	kind string // sealed-dlg sealed-inv json-dlg json-inv cbor car cbor64 car64
	f    func(r io.Reader) readResult
}

func wrapD2(t *delegation.Token, c cid.Cid, err error) (token.Token, cid.Cid, error) {
	if err != nil || t == nil {
		return nil, c, err
	}
	return t, c, nil
}

func wrapI2(t *invocation.Token, c cid.Cid, err error) (token.Token, cid.Cid, error) {
	if err != nil || t == nil {
		return nil, c, err
	}
	return t, c, nil
}

func c18ReadAPIs() []readAPI {
	var out []readAPI
	for _, k := range []string{"sealed-dlg", "sealed-inv"} {
		out = append(out,
			readAPI{"token.FromSealedReader", k, func(r io.Reader) readResult { t, c, err := token.FromSealedReader(r); return tokRes(t, c, err, true) }},
			readAPI{"token.FromDagCborReader", k, func(r io.Reader) readResult {
				t, err := token.FromDagCborReader(r)
				return tokRes(t, cid.Undef, err, false)
			}},
			readAPI{"token.DecodeReader", k, func(r io.Reader) readResult {
				t, err := token.DecodeReader(r, dagcbor.Decode)
				return tokRes(t, cid.Undef, err, false)
			}},
		)
	}
	out = append(out,
		readAPI{"delegation.FromSealedReader", "sealed-dlg", func(r io.Reader) readResult { return tokRes3(wrapD2(delegation.FromSealedReader(r))) }},
		readAPI{"delegation.FromDagCborReader", "sealed-dlg", func(r io.Reader) readResult {
			t, err := delegation.FromDagCborReader(r)
			return tokRes3(wrapD2(t, cid.Undef, err)).noCid()
		}},
		readAPI{"invocation.FromSealedReader", "sealed-inv", func(r io.Reader) readResult { return tokRes3(wrapI2(invocation.FromSealedReader(r))) }},
		readAPI{"invocation.DecodeReader", "sealed-inv", func(r io.Reader) readResult {
			t, err := invocation.DecodeReader(r, dagcbor.Decode)
			return tokRes3(wrapI2(t, cid.Undef, err)).noCid()
		}},
	)
	for _, k := range []string{"json-dlg", "json-inv"} {
		out = append(out,
			readAPI{"token.FromDagJsonReader", k, func(r io.Reader) readResult {
				t, err := token.FromDagJsonReader(r)
				return tokRes(t, cid.Undef, err, false)
			}},
			readAPI{"token.DecodeReader(json)", k, func(r io.Reader) readResult {
				t, err := token.DecodeReader(r, dagjson.Decode)
				return tokRes(t, cid.Undef, err, false)
			}},
		)
	}
	out = append(out,
		readAPI{"delegation.FromDagJsonReader", "json-dlg", func(r io.Reader) readResult {
			t, err := delegation.FromDagJsonReader(r)
			return tokRes3(wrapD2(t, cid.Undef, err)).noCid()
		}},
		readAPI{"invocation.FromDagJsonReader", "json-inv", func(r io.Reader) readResult {
			t, err := invocation.FromDagJsonReader(r)
			return tokRes3(wrapI2(t, cid.Undef, err)).noCid()
		}},
		readAPI{"container.FromCborReader", "cbor", func(r io.Reader) readResult { return ctnRes(container.FromCborReader(r)) }},
		readAPI{"container.FromCarReader", "car", func(r io.Reader) readResult { return ctnRes(container.FromCarReader(r)) }},
		readAPI{"container.FromCborBase64Reader", "cbor64", func(r io.Reader) readResult { return ctnRes(container.FromCborBase64Reader(r)) }},
		readAPI{"container.FromCarBase64Reader", "car64", func(r io.Reader) readResult { return ctnRes(container.FromCarBase64Reader(r)) }},
	)
	return out
}

func (r readResult) noCid() readResult { r.keys = nil; return r }

type artefact struct {
	kind string
	data []byte
	desc string
	// for CAR artefacts
	carCuts   []int
	carBlocks [][]byte
	// sized: built to an exact length; faults are injected at a sample of offsets only
	sized bool
}

// tokRes variant taking the three results of a wrapped call.
func tokRes3(t token.Token, c cid.Cid, err error) readResult { return tokRes(t, c, err, true) }

func c18Artefacts(w *mon.W) []artefact {
	var out []artefact
	n := w.Pick(2, 14)
	for i := 0; i < n; i++ {
		for _, typ := range []string{"dlg", "inv"} {
			o := gen.SpecOpts{AnyAlgPct: 30, NoBig: true}
			if i == 0 {
				o.Minimal = true
			}
			s := gen.RandomSpec(w.Rng, typ, o)
			tk, err := s.Build()
			if err != nil {
				continue
			}
			sealed, _, err := tk.ToSealed(s.Iss.Priv)
			if err != nil {
				continue
			}
			out = append(out, artefact{kind: "sealed-" + typ, data: sealed, desc: fmt.Sprintf("%s by %s", typ, s.Iss.Name)})
			if js, err := tk.ToDagJson(s.Iss.Priv); err == nil {
				if _, err := token.FromDagJson(js); err == nil { // (integral floats are C07's known finding)
					out = append(out, artefact{kind: "json-" + typ, data: js, desc: fmt.Sprintf("%s json by %s", typ, s.Iss.Name)})
				}
			}
		}
	}
	sizes := []int{0, 1, 3}
	if w.Thorough() {
		sizes = []int{0, 1, 2, 3, 5, 8, 40}
	}
	for _, sz := range sizes {
		set := makeSealedSet(w, sz, 10, true)
		wr := container.NewWriter()
		for _, t := range set {
			wr.AddSealed(t.cid, t.sealed)
		}
		for f := 0; f < 4; f++ {
			data, err := writeContainer(wr, f, false)
			if err != nil {
				continue
			}
			a := artefact{kind: containerNames[f], data: data, desc: fmt.Sprintf("%s container of %d tokens", containerNames[f], sz)}
			raw := data
			if f == 3 {
				raw, _ = base64.StdEncoding.DecodeString(string(data))
			}
			if f == 1 || f == 3 {
				cuts, blocks, err := ref.SplitCAR(raw)
				if err != nil {
					w.Inconclusive("C18 harness cannot split a CAR written by the library: " + err.Error())
					continue
				}
				a.carCuts, a.carBlocks = cuts, blocks
			}
			out = append(out, a)
		}
	}
	// tokens whose encoded form has exactly a given size: one below, at and one above the sizes
	// at which a buffer, a limit or a length prefix changes (powers of two)
	exps := []int{12, 16, 20}
	if w.Thorough() {
		exps = []int{10, 12, 13, 15, 16, 17, 20, 21, 22}
	}
	for _, e := range exps {
		for _, delta := range []int{-1, 0, 1} {
			for _, typ := range []string{"dlg", "inv"} {
				for _, js := range []bool{false, true} {
					if data, ok := exactSizeToken(typ, 1<<e+delta, js); ok {
						kind := "sealed-" + typ
						if js {
							kind = "json-" + typ
						}
						out = append(out, artefact{kind: kind, data: data, sized: true, desc: fmt.Sprintf("%s of exactly 2^%d%+d bytes", kind, e, delta)})
					}
				}
			}
		}
	}
	return out
}

// exactSizeToken builds a token by Ed25519 issuer 1 whose sealed (or DAG-JSON) form is exactly
// target bytes long, by padding a metadata string.
func exactSizeToken(typ string, target int, js bool) ([]byte, bool) {
	iss, aud := gen.Ed(1), gen.Ed(2)
	cmd := command.MustParse("/sized")
	nonce := bytes.Repeat([]byte{5}, 12)
	enc := func(pad int) ([]byte, error) {
		padding := strings.Repeat("p", pad)
		if typ == "dlg" {
			d, err := delegation.New(iss.DID, aud.DID, cmd, policy.Policy{}, delegation.WithSubject(iss.DID), delegation.WithNonce(nonce), delegation.WithMeta("pad", padding))
			if err != nil {
				return nil, err
			}
			if js {
				return d.ToDagJson(iss.Priv)
			}
			b, _, err := d.ToSealed(iss.Priv)
			return b, err
		}
		i, err := invocation.New(iss.DID, iss.DID, cmd, nil, invocation.WithNonce(nonce), invocation.WithoutInvokedAt(), invocation.WithMeta("pad", padding))
		if err != nil {
			return nil, err
		}
		if js {
			return i.ToDagJson(iss.Priv)
		}
		b, _, err := i.ToSealed(iss.Priv)
		return b, err
	}
	b0, err := enc(0)
	if err != nil || len(b0) > target {
		return nil, false
	}
	pad := target - len(b0)
	for try := 0; try < 8; try++ {
		b, err := enc(pad)
		if err != nil {
			return nil, false
		}
		if len(b) == target {
			return b, true
		}
		pad += target - len(b)
		if pad < 0 {
			return nil, false
		}
	}
	return nil, false
}

func runC18(w *mon.W) {
	if purityGate(w, c18Purity) {
		return
	}
	r := w.Rng
	arts := c18Artefacts(w)
	apis := c18ReadAPIs()
	for ai, a := range arts {
		if !w.Mine(ai) {
			continue
		}
		for _, api := range apis {
			if api.kind != a.kind {
				continue
			}
			base := api.f(bytes.NewReader(a.data))
			w.Eval(1)
			c := func() map[string]any {
				return map[string]any{"artefact": a.desc, "api": api.name, "data_hex": mon.Hex(capBytes(a.data, 8192))}
			}
			if base.err != nil {
				m := c()
				m["error"] = base.err.Error()
				w.Violate("read/plain-stream-fails/"+api.name, fmt.Sprintf("%s fails on a plain stream of the library's own output: %v", api.name, base.err), m)
				continue
			}
			// the in-memory decode gives the reference keys
			if len(base.keys) > 0 && (a.kind == "sealed-dlg" || a.kind == "sealed-inv") && base.keys[0] != ref.CID(a.data).String() {
				w.Violate("read/cid-differs/"+api.name, fmt.Sprintf("%s returns CID %s, the bytes hash to %s", api.name, base.keys[0], ref.CID(a.data)), c())
			}
			// chunkings
			chunkers := map[string]func() io.Reader{
				"one-byte":   func() io.Reader { return iotest.OneByteReader(bytes.NewReader(a.data)) },
				"half":       func() io.Reader { return iotest.HalfReader(bytes.NewReader(a.data)) },
				"data-err":   func() io.Reader { return iotest.DataErrReader(bytes.NewReader(a.data)) },
				"random":     func() io.Reader { return &randChunkReader{bytes.NewReader(a.data), r} },
				"zero-reads": func() io.Reader { return &zeroReader{r: bytes.NewReader(a.data)} },
			}
			for cname, mk := range chunkers {
				got := api.f(mk())
				w.Eval(1)
				w.Cover("chunk/" + cname)
				if !got.same(base) {
					m := c()
					m["chunking"] = cname
					m["error"] = errStr(got.err)
					w.Violate("read/chunking-changes-result/"+cname+"/"+api.name, fmt.Sprintf("%s gives a different result when the stream is chunked (%s): err=%v", api.name, cname, got.err), m)
				}
			}
			if w.WantSample() && len(a.data) > 200 {
				w.Sample(map[string]any{"artefact": a.desc, "bytes": len(a.data), "api": api.name, "read_fault_positions": 3 * (len(a.data) + 1), "keys": base.keys})
			}
			// fault enumeration at every offset
			if a.sized {
				w.Cover("sized/" + a.kind)
			}
			for k := 0; k <= len(a.data); k++ {
				if a.sized && k > 64 && k < len(a.data)-64 && k%(len(a.data)/16+1) != 0 {
					continue
				}
				for _, mode := range []string{"err0", "errN", "cut", "errN-once", "err0-once"} {
					if k == len(a.data) && mode == "cut" {
						continue // a cut at the end is no fault
					}
					if strings.HasPrefix(mode, "errN") && k == 0 {
						continue
					}
					if strings.HasSuffix(mode, "-once") && (k+ai)%4 != 0 && k != len(a.data) && k != len(a.data)/2 {
						continue // (transient faults: every fourth offset, the middle and the end)
					}
					// the kind of fault rotates with the offset; at the very end (every byte was
					// delivered, then the stream fails instead of ending) and in the middle all kinds are tried
					flavours := []error{c18Faults[(k+ai)%len(c18Faults)]}
					if mode == "cut" {
						flavours = []error{nil}
					} else if k == len(a.data) || k == len(a.data)/2 || k == len(a.data)-1 {
						flavours = c18Faults
					}
					for _, fl := range flavours {
						fr := &faultReader{data: a.data, k: k, mode: mode, chunk: []int{0, 1, 7, 64}[(k+ai)%4], err: fl}
						got := api.f(fr)
						w.Eval(1)
						w.Cover("read-fault/" + api.name + "/" + mode)
						if mode != "cut" {
							if !fr.fired {
								// the decoder stopped reading before the fault position: nothing failed
								w.Count("read-fault-not-reached", 1)
								continue
							}
							w.Cover("read-fault-kind/" + faultName(fl))
							if k == len(a.data) {
								w.Cover("read-fault/at-end-after-all-data")
							}
						}
						if k > 0 && k < len(a.data) {
							w.Distinct(ai, api.name, mode, k)
						}
						if got.err != nil {
							continue
						}
						// success: only legitimate for a CAR cut on a section boundary (after the header)
						legit := false
						if mode == "cut" && (a.kind == "car" || a.kind == "car64") {
							dk := k
							ok := true
							if a.kind == "car64" {
								if k%4 != 0 {
									ok = false
								} else if dec, err := base64.StdEncoding.DecodeString(string(a.data[:k])); err == nil {
									dk = len(dec)
								} else {
									ok = false
								}
							}
							if ok {
								for bi, cut := range a.carCuts {
									if cut == dk {
										// blocks before the cut: bi blocks (cut 0 is after the header)
										var wantKeys []string
										seen := map[string]bool{}
										for _, b := range a.carBlocks[:bi] {
											ks := ref.CID(b).String()
											if !seen[ks] {
												seen[ks] = true
												wantKeys = append(wantKeys, ks)
											}
										}
										sort.Strings(wantKeys)
										if fmt.Sprint(wantKeys) == fmt.Sprint(got.keys) || (len(wantKeys) == 0 && len(got.keys) == 0) {
											legit = true
											w.Cover("car/legit-boundary-cut")
										}
									}
								}
							}
						}
						if !legit {
							m := c()
							m["fault"] = mode
							m["fault_error"] = fmt.Sprint(fl)
							m["offset"] = k
							m["returned_keys"] = got.keys
							sig := fmt.Sprintf("read/fault-swallowed/%s/%s/%s", mode, api.name, faultPlace(k, len(a.data)))
							if fl != nil && fl != errInjected {
								sig += "/" + faultName(fl)
							}
							w.Violate(sig,
								fmt.Sprintf("%s returns success although the stream %s at byte %d of %d (fault: %v)", api.name, map[string]string{"err0": "failed (0,err)", "errN": "failed (n>0,err)", "cut": "ended early", "errN-once": "reported a failure once, together with data, and carried on", "err0-once": "reported a failure once and carried on"}[mode], k, len(a.data), fl), m)
						}
					}
				}
			}
			// failed reads leave nothing behind: a clean read afterwards gives the first result
			again := api.f(bytes.NewReader(a.data))
			w.Eval(1)
			w.Cover("read/clean-call-after-faulted-calls")
			if !again.same(base) {
				m := c()
				m["error"] = errStr(again.err)
				w.Violate("read/state-left-by-failed-calls/"+api.name, fmt.Sprintf("after the faulted reads, %s on the plain stream gives a different result than before (err=%v)", api.name, again.err), m)
			}
		}
	}

	// ---- write side
	nw := w.Pick(3, 20)
	for i := 0; i < nw; i++ {
		if !w.Mine(i) {
			continue
		}
		typ := []string{"dlg", "inv"}[i%2]
		// deterministic signature algorithms so that bytes can be compared
		iss := gen.Ed(i)
		if i%5 == 4 {
			iss = gen.ByAlg("rsa2048")[0]
		}
		s := gen.RandomSpec(r, typ, gen.SpecOpts{Issuer: iss})
		tk, err := s.Build()
		if err != nil {
			continue
		}
		sealed, c0, err := tk.ToSealed(iss.Priv)
		if err != nil {
			continue
		}
		js, _ := tk.ToDagJson(iss.Priv)
		type wapi struct {
			name string
			ref  []byte
			f    func(io.Writer) (cid.Cid, error)
		}
		apis := []wapi{
			{"ToSealedWriter", sealed, func(wr io.Writer) (cid.Cid, error) { return tk.ToSealedWriter(wr, iss.Priv) }},
			{"ToDagCborWriter", sealed, func(wr io.Writer) (cid.Cid, error) { return cid.Undef, tk.ToDagCborWriter(wr, iss.Priv) }},
			{"ToDagJsonWriter", js, func(wr io.Writer) (cid.Cid, error) { return cid.Undef, tk.ToDagJsonWriter(wr, iss.Priv) }},
			{"EncodeWriter", sealed, func(wr io.Writer) (cid.Cid, error) { return cid.Undef, tk.EncodeWriter(wr, iss.Priv, dagcbor.Encode) }},
		}
		for _, a := range apis {
			c18WriteFaults(w, a.name, fmt.Sprintf("%s by %s", typ, iss.Name), a.ref, a.f, c0)
		}
	}
	for i, sz := range []int{0, 1, 2, 4} {
		if !w.Mine(i) {
			continue
		}
		set := makeSealedSet(w, sz, 0, true)
		wr := container.NewWriter()
		for _, t := range set {
			wr.AddSealed(t.cid, t.sealed)
		}
		for f := 0; f < 4; f++ {
			f := f
			name := []string{"ToCborWriter", "ToCarWriter", "ToCborBase64Writer", "ToCarBase64Writer"}[f]
			c18WriteFaults(w, name, fmt.Sprintf("%s container of %d", containerNames[f], sz), nil, func(o io.Writer) (cid.Cid, error) {
				_, err := writeContainerTo(wr, f, o)
				return cid.Undef, err
			}, cid.Undef)
		}
	}
}

func writeContainerTo(wr container.Writer, format int, o io.Writer) (int, error) {
	switch format {
	case 0:
		return 0, wr.ToCborWriter(o)
	case 1:
		return 0, wr.ToCarWriter(o)
	case 2:
		return 0, wr.ToCborBase64Writer(o)
	default:
		return 0, wr.ToCarBase64Writer(o)
	}
}

func faultName(e error) string {
	switch {
	case e == nil || e == errInjected:
		return "generic"
	case e == io.ErrUnexpectedEOF:
		return "unexpected-eof"
	case e == io.ErrClosedPipe:
		return "closed-pipe"
	case e == os.ErrDeadlineExceeded:
		return "deadline"
	case e == context.Canceled:
		return "canceled"
	case e == io.ErrNoProgress:
		return "no-progress"
	}
	return "wrapped-errno"
}

func faultPlace(k, n int) string {
	switch {
	case k == 0:
		return "at-start"
	case k == n:
		return "at-end"
	}
	return "inside"
}

type faultWriter struct {
	buf     bytes.Buffer
	calls   int
	failAt  int // -1: never
	fired   bool
	partial bool
	silent  bool // the short write comes WITHOUT an error (n < len(p), nil)
}

func (f *faultWriter) Write(p []byte) (int, error) {
	i := f.calls
	f.calls++
	if i == f.failAt {
		if f.silent {
			if len(p) == 0 {
				return 0, nil
			}
			f.fired = true
			return f.buf.Write(p[:len(p)-1-(len(p)-1)/2])
		}
		f.fired = true
		if f.partial && len(p) > 1 {
			// a short write together with the error
			n, _ := f.buf.Write(p[:len(p)/2])
			return n, errInjected
		}
		return 0, errInjected
	}
	return f.buf.Write(p)
}

func c18WriteFaults(w *mon.W, api, desc string, refBytes []byte, f func(io.Writer) (cid.Cid, error), wantCid cid.Cid) {
	clean := &faultWriter{failAt: -1}
	c, err := f(clean)
	w.Eval(1)
	cs := func() map[string]any { return map[string]any{"api": api, "artefact": desc} }
	if err != nil {
		w.Violate("write/fault-free-run-fails/"+api, api+" fails without any fault: "+err.Error(), cs())
		return
	}
	if refBytes != nil {
		w.Cover("write/bytes-equal-buffered")
		if !bytes.Equal(clean.buf.Bytes(), refBytes) {
			m := cs()
			m["stream_hex"] = mon.Hex(capBytes(clean.buf.Bytes(), 4096))
			m["buffered_hex"] = mon.Hex(capBytes(refBytes, 4096))
			w.Violate("write/stream-differs-from-buffered/"+api, api+" writes different bytes than the buffered call", m)
		}
	}
	if api == "ToSealedWriter" {
		w.Cover("write/cid-of-written-bytes")
		if !c.Equals(ref.CID(clean.buf.Bytes())) || !c.Equals(wantCid) {
			w.Violate("write/cid-differs/"+api, fmt.Sprintf("ToSealedWriter returned %s, the bytes written hash to %s, ToSealed returned %s", c, ref.CID(clean.buf.Bytes()), wantCid), cs())
		}
	}
	n := clean.calls
	for i := 0; i < 2*n; i++ {
		fw := &faultWriter{failAt: i % n, partial: i >= n}
		i := i % n
		c, err := f(fw)
		w.Eval(1)
		if !fw.fired {
			// this run made fewer Write calls than the measured one (container writers iterate
			// over a Go map, so the write pattern varies between runs): no fault was injected
			w.Count("write-fault-not-reached", 1)
			continue
		}
		w.Cover("write-fault/" + api)
		w.Distinct(desc, api, "write", i)
		last := i == n-1 // the final flush of the measured write pattern
		if last {
			w.Cover("write/final-flush-fault")
		}
		if err == nil {
			m := cs()
			m["failed_write_call"] = i
			m["write_calls"] = n
			m["returned_cid"] = c.String()
			pos := "middle"
			if last {
				pos = "last"
			} else if i == 0 {
				pos = "first"
			}
			w.Violate(fmt.Sprintf("write/fault-swallowed/%s/%s-call", api, pos),
				fmt.Sprintf("%s returns success although Write call %d of %d failed", api, i+1, n), m)
		}
		// a failed call leaves nothing behind: the next, fault-free call of the same API writes
		// what the first fault-free call wrote (same bytes; for containers, whose entry order is
		// not fixed, the same number of bytes and the same multiset of bytes)
		if i%3 == 0 || last {
			again := &faultWriter{failAt: -1}
			_, err2 := f(again)
			w.Eval(1)
			w.Cover("write/clean-call-after-faulted-call")
			same := bytes.Equal(again.buf.Bytes(), clean.buf.Bytes())
			if !same && refBytes == nil && again.buf.Len() == clean.buf.Len() {
				x, y := again.buf.Bytes(), clean.buf.Bytes()
				if strings.Contains(api, "Base64") {
					dx, e1 := base64.StdEncoding.DecodeString(string(x))
					dy, e2 := base64.StdEncoding.DecodeString(string(y))
					if e1 == nil && e2 == nil {
						x, y = dx, dy
					}
				}
				same = byteHistogram(x) == byteHistogram(y)
			}
			if err2 != nil || !same {
				m := cs()
				m["failed_write_call_before"] = i
				m["clean_bytes"] = clean.buf.Len()
				m["bytes_after_fault"] = again.buf.Len()
				m["after_fault_hex"] = mon.Hex(capBytes(again.buf.Bytes(), 2048))
				w.Violate("write/state-left-by-failed-call/"+api, fmt.Sprintf("after a call of %s whose Write call %d failed, a fault-free call writes %d bytes (err=%v) where the first fault-free call wrote %d", api, i+1, again.buf.Len(), err2, clean.buf.Len()), m)
			}
		}
	}
	// a sink that accepts fewer bytes than offered and reports no error (the io.Writer contract
	// forbids it, a full pipe or a buggy wrapper does it anyway): the output is incomplete, so a
	// success status is wrong
	for i := 0; i < n; i++ {
		fw := &faultWriter{failAt: i, silent: true}
		c, err := f(fw)
		w.Eval(1)
		if !fw.fired {
			w.Count("write-fault-not-reached", 1)
			continue
		}
		w.Cover("write-short-silent/" + api)
		w.Distinct(desc, api, "short-write", i)
		if err == nil {
			m := cs()
			m["short_write_call"] = i
			m["write_calls"] = n
			m["returned_cid"] = c.String()
			m["bytes_accepted"] = fw.buf.Len()
			w.Violate(fmt.Sprintf("write/short-write-swallowed/%s", api),
				fmt.Sprintf("%s returns success although Write call %d of %d accepted fewer bytes than offered (and reported no error): the output is incomplete", api, i+1, n), m)
		}
	}
	if strings.Contains(api, "Base64") && n < 2 {
		w.Inconclusive("C18: base64 writer made fewer than 2 Write calls")
	}
}

func byteHistogram(b []byte) [256]int {
	var h [256]int
	for _, x := range b {
		h[x]++
	}
	return h
}

// yieldReader hands its data out in pieces of 1..7 bytes and yields the processor (now and then
// sleeps a little) before each piece: a slow network stream, during whose reads other
// goroutines get to run.
type yieldReader struct {
	data []byte
	pos  int
	n    int
}

func (y *yieldReader) Read(p []byte) (int, error) {
	if y.pos >= len(y.data) {
		return 0, io.EOF
	}
	y.n++
	if y.n%16 == 0 {
		time.Sleep(20 * time.Microsecond)
	} else {
		runtime.Gosched()
	}
	k := 1 + (y.n*5)%7
	if k > len(p) {
		k = len(p)
	}
	if k > len(y.data)-y.pos {
		k = len(y.data) - y.pos
	}
	copy(p, y.data[y.pos:y.pos+k])
	y.pos += k
	return k, nil
}

// c18Purity: the stream readers on slow streams, many at once (different artefacts, same
// artefact): every read returns what it returns alone.
func c18Purity(w *mon.W) {
	arts := c18Artefacts(w)
	apis := c18ReadAPIs()
	var thunks []mon.Thunk
	for ai, a := range arts {
		if ai >= w.Pick(40, 80) || len(a.data) > 6000 {
			continue
		}
		for _, api := range apis {
			if api.kind != a.kind {
				continue
			}
			a, api := a, api
			thunks = append(thunks, mon.Thunk{Label: api.name, Desc: a.desc, F: func() string {
				res := api.f(&yieldReader{data: a.data})
				if res.err != nil {
					return "error"
				}
				return fmt.Sprint(res.keys, res.flds)
			}})
		}
	}
	// the stream writers on slow sinks, many at once: bytes and CID are those of the buffered call
	r := w.Rng
	for i := 0; i < w.Pick(10, 24); i++ {
		typ := []string{"dlg", "inv"}[i%2]
		iss := gen.Ed(i) // deterministic signatures: bytes can be compared
		spec := gen.RandomSpec(r, typ, gen.SpecOpts{Issuer: iss})
		tk, err := spec.Build()
		if err != nil {
			continue
		}
		sealed, c0, err := tk.ToSealed(iss.Priv)
		if err != nil {
			continue
		}
		js, _ := tk.ToDagJson(iss.Priv)
		group := 1000 + i
		mk := func(name string, want string, f func(o io.Writer) (cid.Cid, error)) {
			thunks = append(thunks, mon.Thunk{Label: name, Group: group, Desc: fmt.Sprintf("%s by %s into a slow writer", typ, iss.Name), F: func() string {
				y := &yieldWriter{}
				c, err := f(y)
				if err != nil {
					return "error: " + err.Error()
				}
				return fmt.Sprintf("cid=%s bytes=%x", c, sha256.Sum256(y.buf.Bytes()))
			}, Check: func(out string) string {
				if out == want {
					return ""
				}
				return "the buffered call gives " + want
			}})
		}
		mk("ToSealedWriter", fmt.Sprintf("cid=%s bytes=%x", c0, sha256.Sum256(sealed)), func(o io.Writer) (cid.Cid, error) { return tk.ToSealedWriter(o, iss.Priv) })
		mk("ToDagCborWriter", fmt.Sprintf("cid=%s bytes=%x", cid.Undef, sha256.Sum256(sealed)), func(o io.Writer) (cid.Cid, error) { return cid.Undef, tk.ToDagCborWriter(o, iss.Priv) })
		mk("ToDagJsonWriter", fmt.Sprintf("cid=%s bytes=%x", cid.Undef, sha256.Sum256(js)), func(o io.Writer) (cid.Cid, error) { return cid.Undef, tk.ToDagJsonWriter(o, iss.Priv) })
	}
	w.Purity("stream-reads", thunks, pG(w), pR(w))
}

// yieldWriter is a slow sink: it yields the processor (now and then sleeps a little) at every
// write, so that other goroutines run while a streaming call is half-way.
type yieldWriter struct {
	buf bytes.Buffer
	n   int
}

func (y *yieldWriter) Write(p []byte) (int, error) {
	y.n++
	if y.n%8 == 0 {
		time.Sleep(20 * time.Microsecond)
	} else {
		runtime.Gosched()
	}
	return y.buf.Write(p)
}
