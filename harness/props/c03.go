package props

import (
	"errors"
	"fmt"
	"math"
	"math/rand/v2"

	"github.com/ucan-wg/go-ucan/pkg/args"

	"verifharness/chain"
	"verifharness/gen"
	"verifharness/mon"
	"verifharness/ref"
)

func init() {
	register(&mon.Prop{
		ID:    "C03",
		Level: "exploration",
		Rule: "seeded scenarios: argument maps generated first (nested maps/lists/strings/ints/floats/bytes), policies of every statement kind generated over them inside the unambiguous fragment (every selector resolves; truth of every statement fixed by the reference evaluator), distributed over the links in every pattern (only root / only leaf / all links / last statement of last link ...), then 0..3 statements falsified at chosen (link, statement) positions. " +
			"A second family leaves that fragment: policies with missing / optional selectors and quantifiers over lists of heterogeneous elements (soundness only, strong three-valued reading: a false element under all / a false operand of and denies whatever is unresolved next to it). Oracles: (1) allowed => every statement of every link is true on the checked arguments; (2) monotonicity pairs: a denied chain stays denied after adding a statement to a link or a conforming link carrying a policy; (3) hook: the verdict follows the arguments the hook returns (both directions; returned maps: satisfying, violating, empty, strict subset), the hook receives the token's arguments, a hook error denies. " +
			"non-trivial = at least one policy statement; distinct = (n, statement kinds per link, falsified positions, hook mode).",
		Assumptions: []string{
			"reference evaluator ref.Eval (three-valued, no short-circuit) fixes the truth of every statement; only policies whose every selector resolves on the arguments are generated",
			"principals, commands and time bounds are kept conforming so that a verdict is attributable to the policy rule",
		},
		Shards:          shards(8, 16),
		RaceShards:      shards(1, 2),
		RaceIsViolation: true,
		Run:             runC03,
		MinEvals:        floor(3200, 110000),
		MinDistinct:     floor(1500, 40000),
		RequiredCells: func(string) []string {
			cells := []string{"purity/chain-verdicts/history", "purity/chain-verdicts/concurrent", "purity/chain-verdicts/concurrent-focused", "chain-purity/ExecutionAllowed/same-proofs-arguments/model=deny", "chain-purity/ExecutionAllowed/shared-lower-links/model=deny", "non-finite", "typed-arguments/typed", "typed-arguments/representation", "typed-arguments/reference-false", "typed-arguments/required-field-not-there", "deep-nesting", "twins", "twins/true-then-false", "twins/false-then-true", "twins/same-policy", "twins/different-links", "scale", "scale/long-chain", "scale/many-statements", "scale/history", "heterogeneous", "heterogeneous/some-statement-false", "hook/returns-satisfying", "hook/returns-violating", "hook/returns-empty", "hook/returns-subset", "hook/error", "hook/sees-token-args", "mono/add-statement", "mono/add-link", "pattern/only-root", "pattern/only-leaf", "all-true"}
			for _, lp := range []string{"first", "middle", "last"} {
				for _, sp := range []string{"first", "middle", "last", "only"} {
					cells = append(cells, "false/link="+lp+"/stmt="+sp)
				}
			}
			for _, k := range ref.AllKinds {
				cells = append(cells, "false-kind/"+k)
			}
			return cells
		},
	})
}

func pos3(i, n int) string {
	switch {
	case n == 1:
		return "only"
	case i == 0:
		return "first"
	case i == n-1:
		return "last"
	}
	return "middle"
}

// mutateArgs changes one leaf of the argument map.
func mutateArgs(r *rand.Rand, a ref.V) ref.V {
	out := cloneV(a)
	// walk to a random leaf
	cur := &out
	for depth := 0; depth < 6; depth++ {
		switch cur.K {
		case ref.KMap:
			if len(cur.M) == 0 {
				*cur = ref.Int(1)
				return out
			}
			cur = &cur.M[r.IntN(len(cur.M))].V
			continue
		case ref.KList:
			if len(cur.L) == 0 {
				*cur = ref.List(ref.Int(1))
				return out
			}
			if r.IntN(4) == 0 {
				// another length: what a negative index or an open slice selects moves
				if r.IntN(2) == 0 || len(cur.L) == 1 {
					cur.L = append(cur.L, cloneV(cur.L[r.IntN(len(cur.L))]))
				} else {
					cur.L = cur.L[:len(cur.L)-1]
				}
				return out
			}
			cur = &cur.L[r.IntN(len(cur.L))]
			continue
		}
		break
	}
	switch cur.K {
	case ref.KInt:
		d := gen.Pick(r, []int64{1, -1, 1000, -1000})
		if cur.I+d <= gen.MaxSafe && cur.I+d >= -gen.MaxSafe {
			cur.I += d
		} else {
			cur.I = 0
		}
	case ref.KFloat:
		cur.F = cur.F*2 + 1.5
	case ref.KString:
		if rs := []rune(cur.S); len(rs) > 1 && r.IntN(3) == 0 {
			cur.S = string(rs[:len(rs)-1])
		} else {
			cur.S += "zz"
		}
	case ref.KBool:
		cur.B = !cur.B
	case ref.KBytes:
		cur.Y = append(append([]byte{}, cur.Y...), 7)
	default:
		*cur = ref.Str("changed")
	}
	return out
}

func cloneV(v ref.V) ref.V {
	o := v
	if v.L != nil {
		o.L = make([]ref.V, len(v.L))
		for i := range v.L {
			o.L[i] = cloneV(v.L[i])
		}
	}
	if v.M != nil {
		o.M = make([]ref.KV, len(v.M))
		for i := range v.M {
			o.M[i] = ref.KV{K: v.M[i].K, V: cloneV(v.M[i].V)}
		}
	}
	if v.Y != nil {
		o.Y = append([]byte{}, v.Y...)
	}
	return o
}

func kindsPerLink(s *chain.Scenario) string {
	out := ""
	for _, l := range s.Links {
		out += "[" + l.Pol.Kinds() + fmt.Sprint(len(l.Pol)) + "]"
	}
	return out
}

func runC03(w *mon.W) {
	if purityGate(w, c03Purity) {
		return
	}
	c03Heterogeneous(w)
	c03NonFinite(w)
	c03Typed(w)
	c03Scale(w)
	c03Twins(w)
	c03Deep(w)
	r := w.Rng
	total := w.Share(w.Pick(10000, 100000))
	for it := 0; it < total; it++ {
		n := 1 + r.IntN(w.Pick(5, 7))
		s := chain.FullConformant(r, n, 5)
		var paths []gen.Path
		gen.Paths(s.Args, nil, &paths, 3)
		paths = append(paths, gen.RelPaths(r, s.Args, paths, 6)...)
		// distribution pattern
		switch it % 6 {
		case 0: // only the root link has a policy
			for k := 0; k < n-1; k++ {
				s.Links[k].Pol = nil
			}
			if len(s.Links[n-1].Pol) == 0 {
				if st, ok := gen.StmtWithTruth(r, s.Args, paths, 2, true); ok {
					s.Links[n-1].Pol = ref.Policy{st}
				}
			}
			w.Cover("pattern/only-root")
		case 1: // only the leaf
			for k := 1; k < n; k++ {
				s.Links[k].Pol = nil
			}
			if len(s.Links[0].Pol) == 0 {
				if st, ok := gen.StmtWithTruth(r, s.Args, paths, 2, true); ok {
					s.Links[0].Pol = ref.Policy{st}
				}
			}
			w.Cover("pattern/only-leaf")
		}
		// falsify 0..3 statements
		nf := []int{0, 1, 1, 1, 2, 3}[r.IntN(6)]
		if m := it % 7; m == 2 || m == 3 || m == 5 || m == 6 {
			nf = 0 // hook modes start from an all-true policy
		}
		var falsified []string
		for f := 0; f < nf; f++ {
			k := r.IntN(n)
			switch r.IntN(4) {
			case 0:
				k = 0
			case 1:
				k = n - 1
			}
			st, ok := gen.StmtWithTruth(r, s.Args, paths, 2, false)
			if !ok {
				continue
			}
			pol := s.Links[k].Pol
			var j int
			switch {
			case len(pol) == 0 || r.IntN(3) == 0:
				// insert
				j = r.IntN(len(pol) + 1)
				if r.IntN(2) == 0 {
					j = len(pol) // last statement
				}
				pol = append(pol[:j:j], append(ref.Policy{st}, pol[j:]...)...)
			default:
				j = r.IntN(len(pol))
				if r.IntN(3) == 0 {
					j = len(pol) - 1
				}
				pol = append(ref.Policy{}, pol...)
				pol[j] = st
			}
			s.Links[k].Pol = pol
			falsified = append(falsified, fmt.Sprintf("%d/%d", k, j))
			w.Cover("false/link=" + pos3(k, n) + "/stmt=" + pos3(j, len(pol)))
			w.Cover("false-kind/" + st.Kind)
			for _, kk := range ref.AllKinds {
				if kk != st.Kind && containsKind(st, kk) {
					w.Cover("false-kind/" + kk)
				}
			}
		}
		tri, why := s.PoliciesOK(s.Args)
		if tri == ref.Unresolved {
			w.Inconclusive("C03 generator left the unambiguous fragment at " + why)
			continue
		}
		b, err := s.Build(r)
		if err != nil {
			w.Inconclusive("C03 scenario could not be realised: " + err.Error())
			continue
		}
		npol := 0
		for _, l := range s.Links {
			npol += len(l.Pol)
		}

		mode := it % 7 // 0,1: plain; 2: hook satisfying; 3: hook violating; 4: hook error; 5: hook returns {}; 6: hook returns a subset
		var e error
		expectAllowed := tri == ref.True
		hookDesc := "none"
		switch mode {
		case 0, 1:
			e = b.Inv.ExecutionAllowed(b.Loader)
			w.Eval(1)
		case 2, 3:
			// token carries A_t, hook returns A_h; one satisfies the (all-true) policy, the other does not
			base := s // policy built over s.Args
			good := base.Args
			var bad ref.V
			found := false
			if tri == ref.True && npol > 0 {
				for try := 0; try < 30 && !found; try++ {
					bad = mutateArgs(r, good)
					if t, _ := base.PoliciesOK(bad); t == ref.False {
						found = true
					}
				}
			}
			if !found {
				e = b.Inv.ExecutionAllowed(b.Loader)
				w.Eval(1)
				break
			}
			tokenArgs, hookArgs := bad, good
			hookDesc = "returns-satisfying"
			expectAllowed = true
			if mode == 3 {
				tokenArgs, hookArgs = good, bad
				hookDesc = "returns-violating"
				expectAllowed = false
			}
			s2 := *s
			s2.Args = tokenArgs
			inv, err := s2.MakeInvocation(b, s.Audience, r)
			if err != nil {
				w.Inconclusive("C03 hook invocation could not be realised: " + err.Error())
				continue
			}
			ha, err := chain.ArgsFromV(hookArgs, nil)
			if err != nil {
				w.Inconclusive("C03 hook args: " + err.Error())
				continue
			}
			var seen ref.V
			e = inv.ExecutionAllowedWithArgsHook(b.Loader, func(a args.ReadOnly) (*args.Args, error) {
				n, err := a.ToIPLD()
				if err == nil {
					seen, _ = ref.FromNode(n)
				}
				return ha, nil
			})
			w.Eval(1)
			w.Cover("hook/" + hookDesc)
			w.Cover("hook/sees-token-args")
			if !ref.Equal(seen, tokenArgs) {
				d := s.Describe()
				d["token_args"] = tokenArgs.String()
				d["hook_saw"] = seen.String()
				w.Violate("hook/wrong-input", "the argument hook was not given the token's arguments", d)
			}
			if (e == nil) != expectAllowed {
				d := s.Describe()
				d["token_args"] = tokenArgs.String()
				d["hook_returns"] = hookArgs.String()
				d["error"] = errStr(e)
				w.Violate(fmt.Sprintf("hook/%s/allowed=%v", hookDesc, e == nil),
					fmt.Sprintf("with an argument hook the verdict must follow the returned arguments: hook %s, allowed=%v (%s)", hookDesc, e == nil, errStr(e)), d)
			}
			w.Distinct(n, kindsPerLink(s), falsified, hookDesc)
			continue
		case 5, 6:
			// the hook returns an empty map / a strict subset of the token's arguments: both are
			// legal results, and they are what must be checked
			hookArgs := ref.Map()
			hookDesc = "returns-empty"
			if mode == 6 && len(s.Args.M) > 1 {
				hookDesc = "returns-subset"
				drop := r.IntN(len(s.Args.M))
				for i, e := range s.Args.M {
					if i != drop {
						hookArgs.M = append(hookArgs.M, e)
					}
				}
			}
			ha, err := chain.ArgsFromV(hookArgs, nil)
			if err != nil {
				continue
			}
			e = b.Inv.ExecutionAllowedWithArgsHook(b.Loader, func(a args.ReadOnly) (*args.Args, error) { return ha, nil })
			w.Eval(1)
			w.Cover("hook/" + hookDesc)
			// expectation from the returned arguments: all statements true -> allowed; some statement
			// false, or a top-level leaf statement over a missing required path -> denied; else open
			ht, _ := s.PoliciesOK(hookArgs)
			verdict := ""
			switch ht {
			case ref.True:
				verdict = "allow"
			case ref.False:
				verdict = "deny"
			default:
				for _, l := range s.Links {
					for _, st := range l.Pol {
						if len(st.Subs) == 0 {
							if _, why := ref.Eval(st, hookArgs); why == ref.WMissing {
								verdict = "deny"
							}
						}
					}
				}
			}
			if verdict != "" && (e == nil) != (verdict == "allow") {
				d := s.Describe()
				d["hook_returns"] = hookArgs.String()
				d["error"] = errStr(e)
				w.Violate(fmt.Sprintf("hook/%s/allowed=%v", hookDesc, e == nil),
					fmt.Sprintf("with an argument hook the verdict must follow the returned arguments: hook %s (%s), allowed=%v (%s)", hookDesc, hookArgs, e == nil, errStr(e)), d)
			}
			w.Distinct(n, kindsPerLink(s), falsified, hookDesc)
			continue
		case 4:
			hookErr := errors.New("hook refused")
			e = b.Inv.ExecutionAllowedWithArgsHook(b.Loader, func(a args.ReadOnly) (*args.Args, error) { return nil, hookErr })
			w.Eval(1)
			w.Cover("hook/error")
			if e == nil {
				w.Violate("hook/error-ignored", "the argument hook returned an error but the invocation was allowed", s.Describe())
			}
			e = b.Inv.ExecutionAllowed(b.Loader)
			w.Eval(1)
		}
		if npol > 0 {
			w.Distinct(n, kindsPerLink(s), falsified, hookDesc)
		}
		if tri == ref.True {
			w.Cover("all-true")
		}
		if e == nil && !expectAllowed {
			d := s.Describe()
			d["first_false_statement"] = why
			d["falsified_link/stmt"] = falsified
			var k, j int
			fmt.Sscanf(why, "pol@%d/%d", &k, &j)
			st := s.Links[k].Pol[j]
			w.Violate(fmt.Sprintf("unsound/link=%s/stmt=%s/kind=%s", pos3(k, n), pos3(j, len(s.Links[k].Pol)), st.Kind),
				fmt.Sprintf("ExecutionAllowed = nil although statement %d of link %d (%s) is false on the arguments %s", j, k, st, s.Args), d)
		}
		if e != nil && expectAllowed {
			w.Count("conforming_but_denied(judged_by_C05)", 1)
		}
		if w.WantSample() && len(falsified) > 0 && n >= 2 {
			d := s.Describe()
			d["falsified_link/stmt"] = falsified
			d["allowed"] = e == nil
			w.Sample(d)
		}

		// monotonicity: a denied chain stays denied after adding a statement / a link
		if e != nil && tri == ref.False && it%2 == 0 {
			s3 := *s
			s3.Links = append([]chain.Link{}, s.Links...)
			if r.IntN(2) == 0 {
				k := r.IntN(n)
				if st, ok := gen.StmtWithTruth(r, s.Args, paths, 2, r.IntN(2) == 0); ok {
					pol := append(ref.Policy{}, s3.Links[k].Pol...)
					j := r.IntN(len(pol) + 1)
					pol = append(pol[:j:j], append(ref.Policy{st}, pol[j:]...)...)
					s3.Links[k].Pol = pol
					w.Cover("mono/add-statement")
				}
			} else {
				// a new leaf link old-invoker -> new invoker, carrying a (true) policy
				p := gen.PickPrincipal(r, 0)
				nl := chain.Link{Iss: s.Invoker, Aud: p, Sub: s.Subject, Cmd: s.Cmd}
				if st, ok := gen.StmtWithTruth(r, s.Args, paths, 2, true); ok {
					nl.Pol = ref.Policy{st}
				}
				s3.Links = append([]chain.Link{nl}, s3.Links...)
				s3.Invoker = p
				w.Cover("mono/add-link")
			}
			b3, err := s3.Build(r)
			if err != nil {
				w.Inconclusive("C03 extended scenario could not be realised: " + err.Error())
				continue
			}
			e3 := b3.Inv.ExecutionAllowed(b3.Loader)
			w.Eval(1)
			if e3 == nil {
				d := s3.Describe()
				d["base"] = s.Describe()
				d["base_error"] = errStr(e)
				w.Violate("monotonicity", "a denied invocation became allowed after adding a statement or a link to its chain", d)
			}
		}
	}
}

// c03Heterogeneous: policies whose selectors may be missing or optional, over argument
// lists of heterogeneous elements (some lacking the selected fields). Soundness only: if
// some statement of some link is false under the strong three-valued reading, the
// invocation must be denied.
func c03Heterogeneous(w *mon.W) {
	r := w.Rng
	total := w.Share(w.Pick(15000, 80000))
	for it := 0; it < total; it++ {
		n := 1 + r.IntN(3)
		s := chain.Conformant(r, n, 0)
		d := c11Data(r)
		for i := range d.M {
			if d.M[i].V.K == ref.KNull {
				d.M[i].V = ref.List(ref.Null()) // (a top-level null cannot be transported: K4)
			}
		}
		s.Args = d
		anyFalse := ""
		for k := range s.Links {
			for j := 0; j < r.IntN(3); j++ {
				st := c11Stmt(r, d, 3, false)
				if hasOutOfRangeInt(st.ToV()) {
					continue
				}
				s.Links[k].Pol = append(s.Links[k].Pol, st)
				if ref.EvalK(st, d) == ref.False && anyFalse == "" {
					anyFalse = fmt.Sprintf("statement %d of link %d: %s", len(s.Links[k].Pol)-1, k, st)
				}
			}
			s.Links[k].PolIPLD = r.IntN(2) == 0
		}
		s.Wire = r.IntN(3)
		b, err := s.Build(r)
		if err != nil {
			w.Count("heterogeneous-scenario-not-realisable", 1)
			continue
		}
		var e error
		pi := mon.Guard(func() { e = allowed(b.Inv, b.Loader, it%3 == 0) })
		w.Eval(1)
		if pi != nil {
			continue
		}
		w.Cover("heterogeneous")
		if anyFalse != "" {
			w.Cover("heterogeneous/some-statement-false")
			w.Distinct("het", s.Args.String(), kindsPerLink(s), anyFalse)
		}
		if e == nil && anyFalse != "" {
			d := s.Describe()
			d["false_statement"] = anyFalse
			w.Violate("unsound/heterogeneous/"+falseKind(anyFalse), fmt.Sprintf("ExecutionAllowed = nil although %s is false on the arguments %s (whatever its unresolved operands)", anyFalse, s.Args), d)
		}
	}
}

func falseKind(desc string) string {
	for _, k := range []string{`["all"`, `["any"`, `["and"`, `["or"`, `["not"`, `["like"`} {
		if i := indexOf(desc, ": "+k); i >= 0 {
			return k[2 : len(k)-1]
		}
	}
	return "leaf"
}

func hasOutOfRangeInt(v ref.V) bool { return !intsInRange(v) }

func containsKind(s ref.Stmt, k string) bool {
	if s.Kind == k {
		return true
	}
	for _, c := range s.Subs {
		if containsKind(c, k) {
			return true
		}
	}
	return false
}

// c03Scale: size thresholds and history. Policies of 1..130 statements per link and chains of
// up to 40 links, all statements true except at most one at a random (link, statement)
// position; and the same delegation objects (one loader) checked against a satisfying
// invocation, then a violating one, then the satisfying one again - the verdict of a check may
// not depend on what the shared delegations were matched against before.
func c03Scale(w *mon.W) {
	r := w.Rng
	total := w.Share(w.Pick(800, 5000))
	counts := []int{1, 2, 5, 17, 33, 65, 130}
	for it := 0; it < total; it++ {
		n := 1 + r.IntN(3)
		if it%5 == 0 {
			n = 9 + r.IntN(32)
		}
		s := chain.Conformant(r, n, 0)
		s.Args = gen.ArgsMap(r)
		var paths []gen.Path
		gen.Paths(s.Args, nil, &paths, 3)
		paths = append(paths, gen.RelPaths(r, s.Args, paths, 6)...)
		if len(paths) == 0 {
			continue
		}
		for k := range s.Links {
			c := counts[r.IntN(len(counts))]
			if n > 8 {
				c = r.IntN(4)
			}
			for j := 0; j < c; j++ {
				if st, ok := gen.StmtWithTruth(r, s.Args, paths, 1, true); ok {
					s.Links[k].Pol = append(s.Links[k].Pol, st)
				}
			}
			s.Links[k].PolIPLD = r.IntN(3) == 0
		}
		falsified := ""
		if it%3 != 0 {
			k := r.IntN(n)
			if st, ok := gen.StmtWithTruth(r, s.Args, paths, 1, false); ok {
				pol := append(ref.Policy{}, s.Links[k].Pol...)
				j := len(pol)
				if len(pol) > 0 && r.IntN(3) > 0 {
					j = r.IntN(len(pol))
					pol[j] = st
				} else {
					pol = append(pol, st)
				}
				s.Links[k].Pol = pol
				falsified = fmt.Sprintf("%d/%d of %d", k, j, len(pol))
			}
		}
		tri, why := s.PoliciesOK(s.Args)
		if tri == ref.Unresolved {
			w.Inconclusive("C03 scale generator left the unambiguous fragment at " + why)
			continue
		}
		s.Wire = r.IntN(3)
		b, err := s.Build(r)
		if err != nil {
			w.Inconclusive("C03 scale scenario could not be realised: " + err.Error())
			continue
		}
		hook := it%4 == 0
		e := allowed(b.Inv, b.Loader, hook)
		w.Eval(1)
		w.Cover("scale")
		if n > 8 {
			w.Cover("scale/long-chain")
		}
		npol := 0
		for _, l := range s.Links {
			npol += len(l.Pol)
			if len(l.Pol) >= 33 {
				w.Cover("scale/many-statements")
			}
		}
		w.Distinct("scale", n, npol, falsified)
		if e == nil && tri == ref.False {
			d := s.Describe()
			d["falsified_link/stmt"] = falsified
			w.Violate("unsound/scale", fmt.Sprintf("ExecutionAllowed = nil although statement %s is false on the arguments (chain of %d links, %d statements)", why, n, npol), d)
		}
		if tri != ref.True || e != nil {
			continue
		}
		// history: the same loader (same delegation objects) against good / bad / good arguments
		var bad ref.V
		found := false
		for try := 0; try < 30 && !found; try++ {
			bad = mutateArgs(r, s.Args)
			if t, _ := s.PoliciesOK(bad); t == ref.False {
				found = true
			}
		}
		if !found {
			continue
		}
		s2 := *s
		s2.Args = bad
		invBad, err := s2.MakeInvocation(b, s.Audience, r)
		if err != nil {
			continue
		}
		order := it % 2
		var e1, e2, e3 error
		if order == 0 {
			e1 = allowed(b.Inv, b.Loader, hook)
			e2 = allowed(invBad, b.Loader, hook)
			e3 = allowed(b.Inv, b.Loader, !hook)
		} else {
			e2 = allowed(invBad, b.Loader, hook)
			e1 = allowed(b.Inv, b.Loader, hook)
			e3 = allowed(invBad, b.Loader, !hook)
			e3 = flipNil(e3)
		}
		w.Eval(3)
		w.Cover("scale/history")
		if e1 != nil || e2 == nil || e3 != nil {
			d := s.Describe()
			d["violating_args"] = bad.String()
			d["order"] = []string{"good,bad,good", "bad,good,bad"}[order]
			d["satisfying"] = errStr(e1)
			d["violating"] = errStr(e2)
			w.Violate("history-dependent/shared-delegations", fmt.Sprintf("the same delegations checked against satisfying and violating invocations in turn (order %d): satisfying -> %s, violating -> %s, third check consistent=%v", order, errStr(e1), errStr(e2), e3 == nil), d)
		}
	}
}

// flipNil turns "denied" into nil and "allowed" into an error, so that the third check of
// the bad,good,bad order reads like the others (nil = as expected).
func flipNil(e error) error {
	if e == nil {
		return errors.New("allowed")
	}
	return nil
}

// c03Twins: two statements that look alike (same operator and selector, literals that print
// the same or nearly the same: 100 and 100.0, 5 and "5", true and "true") but are different
// statements - the argument satisfies one and not the other. They sit in the same policy or
// in different links, in both orders; every statement binds, so the invocation must be
// denied. Catches statements merged, cached or de-duplicated by a rendering.
func c03Twins(w *mon.W) {
	r := w.Rng
	total := w.Share(w.Pick(2000, 12000))
	for it := 0; it < total; it++ {
		n := 1 + r.IntN(3)
		s := chain.Conformant(r, n, 0)
		// arguments with numeric / string / bool leaves at known places
		val := []ref.V{ref.Int(int64(r.IntN(200))), ref.Int(-int64(r.IntN(50))), ref.Float(float64(r.IntN(100))), ref.Str(fmt.Sprint(r.IntN(10))), ref.Bool(r.IntN(2) == 0), ref.Str("true")}[it%6]
		s.Args = ref.Map(ref.E("amount", val), ref.E("other", ref.Int(1)), ref.E("nested", ref.Map(ref.E("v", val))))
		sel := ref.Sel{{Kind: ref.SField, Name: "amount"}}
		if r.IntN(3) == 0 {
			sel = ref.Sel{{Kind: ref.SField, Name: "nested"}, {Kind: ref.SField, Name: "v"}}
		}
		var a, b ref.Stmt
		switch val.K {
		case ref.KInt:
			op := gen.Pick(r, []string{"==", "<=", ">="})
			a = ref.Stmt{Kind: op, Sel: sel, Val: ref.Int(val.I)}
			b = ref.Stmt{Kind: op, Sel: sel, Val: ref.Float(float64(val.I))}
			if it%5 == 0 {
				b = ref.Stmt{Kind: "==", Sel: sel, Val: ref.Str(fmt.Sprint(val.I))}
				a.Kind = "=="
			}
		case ref.KFloat:
			op := gen.Pick(r, []string{"==", "<=", ">="})
			a = ref.Stmt{Kind: op, Sel: sel, Val: ref.Float(val.F)}
			b = ref.Stmt{Kind: op, Sel: sel, Val: ref.Int(int64(val.F))}
		case ref.KString:
			a = ref.Stmt{Kind: "==", Sel: sel, Val: ref.Str(val.S)}
			if val.S == "true" {
				b = ref.Stmt{Kind: "==", Sel: sel, Val: ref.Bool(true)}
			} else {
				var i int64
				fmt.Sscan(val.S, &i)
				b = ref.Stmt{Kind: "==", Sel: sel, Val: ref.Int(i)}
			}
		case ref.KBool:
			a = ref.Stmt{Kind: "==", Sel: sel, Val: ref.Bool(val.B)}
			b = ref.Stmt{Kind: "==", Sel: sel, Val: ref.Str(fmt.Sprint(val.B))}
		}
		ta, _ := ref.Eval(a, s.Args)
		tb, _ := ref.Eval(b, s.Args)
		if ta != ref.True || tb != ref.False {
			w.Inconclusive(fmt.Sprintf("C03 twins: model says %s -> %v, %s -> %v on %s", a, ta, b, tb, s.Args))
			continue
		}
		if it%7 == 3 {
			// nested under a connective as well
			a = ref.Stmt{Kind: "and", Subs: []ref.Stmt{a}}
			b = ref.Stmt{Kind: "and", Subs: []ref.Stmt{b}}
		}
		first, second := a, b
		order := "true-then-false"
		if it%2 == 1 {
			first, second = b, a
			order = "false-then-true"
		}
		li, lj := r.IntN(n), r.IntN(n)
		if li > lj {
			li, lj = lj, li
		}
		s.Links[li].Pol = append(s.Links[li].Pol, first)
		s.Links[lj].Pol = append(s.Links[lj].Pol, second)
		for k := range s.Links {
			s.Links[k].PolIPLD = r.IntN(2) == 0
		}
		s.Wire = r.IntN(3)
		bld, err := s.Build(r)
		if err != nil {
			w.Inconclusive("C03 twins scenario could not be realised: " + err.Error())
			continue
		}
		e := allowed(bld.Inv, bld.Loader, it%3 == 0)
		w.Eval(1)
		w.Cover("twins")
		w.Cover("twins/" + order)
		if li == lj {
			w.Cover("twins/same-policy")
		} else {
			w.Cover("twins/different-links")
		}
		w.Distinct("twins", a.String(), b.String(), li, lj, order, n)
		if e == nil {
			d := s.Describe()
			d["true_statement"] = a.String()
			d["false_statement"] = b.String()
			w.Violate("unsound/twin-statements/"+order+"/"+val.K.String(), fmt.Sprintf("ExecutionAllowed = nil although statement %s is false on the arguments %s (its look-alike %s is true)", b, s.Args, a), d)
		}
	}
}

// c03Deep: a policy statement nested under 17..300 not / and / or statements in some link of
// an otherwise conforming chain; the arguments make the leaf true or false, the verdict must
// follow the classical value of the whole statement at every depth.
func c03Deep(w *mon.W) {
	r := w.Rng
	depths := []int{17, 32, 33, 34, 64, 65, 128, 129, 130, 200, 300}
	idx := 0
	for _, d := range depths {
		for variant := 0; variant < 4; variant++ {
			idx++
			if !w.Mine(idx) {
				continue
			}
			n := 1 + r.IntN(3)
			s := chain.Conformant(r, n, 0)
			role := "user"
			if variant%2 == 0 {
				role = "admin"
			}
			s.Args = ref.Map(ref.E("role", ref.Str(role)), ref.E("n", ref.Int(1)))
			st := ref.Stmt{Kind: "==", Sel: ref.Sel{{Kind: ref.SField, Name: "role"}}, Val: ref.Str("admin")}
			for i := 0; i < d; i++ {
				if variant < 2 || i%3 == 0 {
					st = ref.Stmt{Kind: "not", Subs: []ref.Stmt{st}}
				} else if i%3 == 1 {
					st = ref.Stmt{Kind: "and", Subs: []ref.Stmt{st}}
				} else {
					st = ref.Stmt{Kind: "or", Subs: []ref.Stmt{st}}
				}
			}
			k := r.IntN(n)
			s.Links[k].Pol = ref.Policy{st}
			s.Links[k].PolIPLD = variant%2 == 1
			tri, _ := s.PoliciesOK(s.Args)
			if tri == ref.Unresolved {
				continue
			}
			s.Wire = r.IntN(3)
			b, err := s.Build(r)
			if err != nil {
				w.Count("deep/scenario-not-realisable", 1)
				continue
			}
			e := allowed(b.Inv, b.Loader, variant == 3)
			w.Eval(1)
			w.Cover("deep-nesting")
			w.Distinct("deep", d, variant, k, n)
			if e == nil && tri == ref.False {
				dd := s.Describe()
				dd["depth"] = d
				delete(dd, "proofs_leaf_to_root")
				w.Violate("unsound/deep-nesting", fmt.Sprintf("ExecutionAllowed = nil although the statement of link %d - role == \"admin\" under %d enclosing not/and/or statements - is false for role=%q", k, d, role), dd)
			}
			if e != nil && tri == ref.True {
				w.Count("conforming_but_denied(judged_by_C05)", 1)
			}
		}
	}
}

// c03NonFinite: arguments that are not finite numbers. No ordering holds with NaN (and NaN
// equals nothing), so a chain whose policy orders or equates an argument that is NaN denies -
// wherever the statement sits, whether the NaN comes from the token or from the hook.
func c03NonFinite(w *mon.W) {
	r := w.Rng
	sel := ref.Sel{{Kind: ref.SField, Name: "amount"}}
	idx := 0
	nanV := ref.Float(math.NaN())
	type pair struct{ lit, arg ref.V }
	pairs := []pair{{ref.Float(1000), nanV}, {ref.Float(-1000), nanV}, {ref.Float(0), nanV}, {nanV, nanV},
		// numbers of different kinds never order and never equal, however close their values
		{ref.Int(100), ref.Float(100.5)}, {ref.Int(100), ref.Float(99.5)}, {ref.Float(100.5), ref.Int(100)}, {ref.Float(99.5), ref.Int(100)},
		{ref.Int(0), ref.Float(-0.5)}, {ref.Int(7), ref.Float(7)}, {ref.Float(7), ref.Int(7)}}
	for _, kind := range []string{"<", "<=", ">", ">=", "=="} {
		for _, pr := range pairs {
			lit := pr.lit
			if lit.K == ref.KFloat && math.IsNaN(lit.F) && kind != "==" {
				continue
			}
			for _, shape := range []string{"plain", "and", "or", "any"} {
				for _, viaHook := range []bool{false, true} {
					idx++
					if !w.Mine(idx) {
						continue
					}
					st := ref.Stmt{Kind: kind, Sel: sel, Val: lit}
					switch shape {
					case "and":
						st = ref.Stmt{Kind: "and", Subs: []ref.Stmt{st, {Kind: "==", Sel: ref.Sel{{Kind: ref.SField, Name: "unit"}}, Val: ref.Str("eur")}}}
					case "or":
						st = ref.Stmt{Kind: "or", Subs: []ref.Stmt{st, {Kind: "==", Sel: ref.Sel{{Kind: ref.SField, Name: "unit"}}, Val: ref.Str("usd")}}}
					case "any":
						st = ref.Stmt{Kind: "any", Sel: ref.Sel{{Kind: ref.SField, Name: "amounts"}}, Subs: []ref.Stmt{{Kind: kind, Sel: ref.Sel{}, Val: lit}}}
					}
					n := 1 + r.IntN(3)
					s := chain.Conformant(r, n, 5)
					k := r.IntN(n)
					s.Links[k].Pol = ref.Policy{st}
					s.Links[k].PolIPLD = idx%2 == 0
					nan := ref.Map(ref.E("amount", pr.arg), ref.E("unit", ref.Str("eur")), ref.E("amounts", ref.List(pr.arg, pr.arg)))
					fine := ref.Map(ref.E("amount", ref.Float(5)), ref.E("unit", ref.Str("eur")), ref.E("amounts", ref.List(ref.Float(5))))
					if lit.K == ref.KInt {
						fine = ref.Map(ref.E("amount", ref.Int(lit.I)), ref.E("unit", ref.Str("eur")), ref.E("amounts", ref.List(ref.Int(lit.I))))
					}
					s.Args = nan
					if viaHook {
						s.Args = fine
					}
					if t, _ := s.PoliciesOK(nan); t != ref.False {
						continue
					}
					b, err := s.Build(r)
					if err != nil {
						w.Inconclusive("C03 non-finite scenario: " + err.Error())
						continue
					}
					var e error
					if viaHook {
						ha, herr := chain.ArgsFromV(nan, nil)
						if herr != nil {
							continue
						}
						e = b.Inv.ExecutionAllowedWithArgsHook(b.Loader, func(args.ReadOnly) (*args.Args, error) { return ha, nil })
					} else {
						e = b.Inv.ExecutionAllowed(b.Loader)
					}
					w.Eval(1)
					w.Cover("non-finite")
					w.Distinct("non-finite", kind, lit.String(), pr.arg.String(), shape, viaHook)
					if e == nil {
						d := s.Describe()
						d["statement"] = st.String()
						d["arguments_checked"] = nan.String()
						d["via_hook"] = viaHook
						w.Violate("unsound/non-finite-or-other-kind-argument/"+kind+"/"+shape, fmt.Sprintf("ExecutionAllowed = nil although the arguments checked hold %s where %s must hold (no ordering and no equality holds with NaN, nor between an integer and a float)", pr.arg, st), d)
					}
				}
			}
		}
	}
}
