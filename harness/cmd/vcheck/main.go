// vcheck is the driver of the runtime-monitoring checks:
//
//	vcheck -prop C13 -tier quick|thorough          supervisor: runs shards in child processes
//	vcheck -worker -prop C13 -shard i ...           one shard (started by the supervisor)
//	vcheck -prop C13 -replay evidence/replays/x.json
//	vcheck -selftest                                reference-model self-tests (setup step)
package main

import (
	"encoding/json"
	"flag"
	"fmt"
	"os"
	"path/filepath"
	"strconv"

	"verifharness/mon"
	"verifharness/props"
)

func main() {
	var (
		prop     = flag.String("prop", "", "property id")
		tier     = flag.String("tier", "quick", "quick|thorough")
		worker   = flag.Bool("worker", false, "run one shard")
		shard    = flag.Int("shard", 0, "")
		nshards  = flag.Int("nshards", 1, "")
		nplain   = flag.Int("nplain", 1, "number of non-race shards")
		out      = flag.String("out", "", "shard output dir")
		seedF    = flag.Int64("seed", -1, "seed (default VERIF_SEED or 1)")
		replay   = flag.String("replay", "", "replay file")
		selftest = flag.Bool("selftest", false, "run reference model self-tests")
		racebin  = flag.String("racebin", "", "path of the -race build of vcheck")
		par      = flag.Int("par", 0, "parallel shards")
		list     = flag.Bool("list", false, "list properties")
	)
	flag.Parse()

	if *selftest {
		os.Exit(props.SelfTest())
	}
	if *list {
		for _, p := range props.All() {
			fmt.Println(p.ID, p.Level)
		}
		return
	}
	seed := *seedF
	if seed < 0 {
		seed = 1
		if s := os.Getenv("VERIF_SEED"); s != "" {
			if v, err := strconv.ParseInt(s, 10, 64); err == nil {
				seed = v
			}
		}
	}
	p := props.Get(*prop)
	if p == nil {
		fmt.Fprintf(os.Stderr, "unknown property %q\n", *prop)
		os.Exit(2)
	}
	if *tier != "quick" && *tier != "thorough" {
		fmt.Fprintf(os.Stderr, "bad tier %q\n", *tier)
		os.Exit(2)
	}

	if *replay != "" {
		b, err := os.ReadFile(*replay)
		if err != nil {
			fmt.Fprintln(os.Stderr, err)
			os.Exit(2)
		}
		var f struct {
			Sig  string          `json:"sig"`
			Msg  string          `json:"msg"`
			Case json.RawMessage `json:"case"`
		}
		if err := json.Unmarshal(b, &f); err != nil {
			fmt.Fprintln(os.Stderr, err)
			os.Exit(2)
		}
		fmt.Printf("recorded: sig=%s\n  %s\n", f.Sig, f.Msg)
		if p.Replay == nil {
			fmt.Println("this property has no automatic replayer; the case above is complete (inputs in hex)")
			fmt.Println(string(f.Case))
			os.Exit(0)
		}
		desc, still, err := p.Replay(f.Case)
		if err != nil {
			fmt.Fprintln(os.Stderr, "replay error:", err)
			os.Exit(2)
		}
		fmt.Println(desc)
		if still {
			fmt.Printf("VIOLATION property=%s replay=%s\n", p.ID, *replay)
			os.Exit(1)
		}
		fmt.Println("not reproduced on the current tree")
		os.Exit(0)
	}

	if *worker {
		w := mon.NewW(p.ID, *tier, seed, *shard, *nshards, *out)
		w.Race = *shard >= *nplain
		w.NPlain = *nplain
		pi := mon.Guard(func() { p.Run(w) })
		if pi != nil {
			if pi.InRepo {
				w.Violate("panic/"+pi.Frame, "unrecovered panic inside go-ucan during the workload: "+pi.Value,
					map[string]any{"panic": pi.Value, "stack": pi.Stack})
			} else {
				w.Inconclusive("harness panic: " + pi.Value + "\n" + pi.Stack)
			}
		}
		if err := w.Finish(); err != nil {
			fmt.Fprintln(os.Stderr, "finish:", err)
			os.Exit(3)
		}
		return
	}

	root := os.Getenv("VERIF_ROOT")
	if root == "" {
		root = "/verif"
	}
	self, err := os.Executable()
	if err != nil {
		self = filepath.Join(root, ".build", "vcheck")
	}
	code := mon.Supervise(p, mon.Options{Root: root, Bin: self, RaceBin: *racebin, Tier: *tier, Seed: seed, Par: *par})
	os.Exit(code)
}
