// Package mon is the monitor runtime: per-shard worker context (event counters,
// coverage matrix, distinct-case set, samples, violations, crash journal) and the
// supervisor that runs shards in child processes, merges what they observed,
// matches violations against the committed known-findings file and writes the
// evidence file.
package mon

import (
	"encoding/binary"
	"encoding/hex"
	"encoding/json"
	"fmt"
	"hash/fnv"
	"math/rand/v2"
	"os"
	"path/filepath"
	"runtime/debug"
	"sort"
	"strings"
)

// Violation is one refuting observation.
type Violation struct {
	// Sig is a stable, specific class signature: it identifies the call site / input
	// class / failure signature, is used to de-duplicate and to match known findings.
	Sig string `json:"sig"`
	// Msg says what was observed versus what the oracle expected.
	Msg string `json:"msg"`
	// Case is the complete replayable case (inputs in hex, operations, expected/observed).
	Case any `json:"case"`
	// Count is the number of observations with this signature.
	Count int64 `json:"count"`
}

// Result is what one shard observed.
type Result struct {
	Prop         string            `json:"prop"`
	Shard        int               `json:"shard"`
	Evals        int64             `json:"evals"`
	Samples      []any             `json:"samples"`
	Cover        map[string]int64  `json:"cover"`
	Counters     map[string]int64  `json:"counters"`
	Violations   []*Violation      `json:"violations"`
	Inconclusive []string          `json:"inconclusive"`
	Notes        map[string]string `json:"notes,omitempty"`
	Done         bool              `json:"done"`
	// Partial marks a checkpoint written before a risky call: if it is what the supervisor
	// finds, the worker died afterwards (its counters up to the checkpoint are still merged).
	Partial bool `json:"partial"`
}

// W is the worker context handed to a property's Run.
type W struct {
	Prop    string
	Tier    string
	Seed    int64
	Shard   int
	NShards int
	NPlain  int // number of shards in the plain (non -race) build; plain shards have Shard < NPlain
	Rng     *rand.Rand
	OutDir  string
	Race    bool // running in the -race build

	res     Result
	hashes  map[uint64]struct{}
	viols   map[string]*Violation
	journal *os.File
	maxSamp int
}

func NewW(prop, tier string, seed int64, shard, nshards int, outDir string) *W {
	h := fnv.New64a()
	fmt.Fprintf(h, "%s/%d/%d", prop, shard, nshards)
	w := &W{
		Prop: prop, Tier: tier, Seed: seed, Shard: shard, NShards: nshards,
		Rng:     rand.New(rand.NewPCG(uint64(seed), h.Sum64())),
		OutDir:  outDir,
		hashes:  map[uint64]struct{}{},
		viols:   map[string]*Violation{},
		maxSamp: 4,
	}
	w.res.Prop = prop
	w.res.Shard = shard
	w.res.Cover = map[string]int64{}
	w.res.Counters = map[string]int64{}
	w.res.Notes = map[string]string{}
	if outDir != "" {
		f, err := os.OpenFile(filepath.Join(outDir, fmt.Sprintf("journal-%d.log", shard)), os.O_CREATE|os.O_WRONLY|os.O_TRUNC, 0o644)
		if err == nil {
			w.journal = f
		}
	}
	return w
}

func (w *W) Thorough() bool { return w.Tier == "thorough" }

// Pick returns q for the quick tier and t for the thorough tier.
func (w *W) Pick(q, t int) int {
	if w.Thorough() {
		return t
	}
	return q
}

// Mine tells whether item i of a shared enumeration belongs to this shard. Plain shards
// split the enumeration among themselves, and so do the -race shards (which usually run a
// different, smaller workload).
func (w *W) Mine(i int) bool {
	n, k := w.group()
	return i%n == k
}

// group returns the size of this shard's group (plain or race) and its index in it.
func (w *W) group() (int, int) {
	if w.NPlain <= 0 || w.NPlain > w.NShards {
		return w.NShards, w.Shard
	}
	if w.Shard >= w.NPlain {
		return w.NShards - w.NPlain, w.Shard - w.NPlain
	}
	return w.NPlain, w.Shard
}

// Share splits a total count of random cases over the shards of this shard's group.
func (w *W) Share(total int) int {
	g, k := w.group()
	n := total / g
	if k < total%g {
		n++
	}
	return n
}

// MinePlain / SharePlain are Mine / Share (kept for readability at call sites that mean the
// plain group).
func (w *W) MinePlain(i int) bool { return w.Mine(i) }
func (w *W) SharePlain(t int) int { return w.Share(t) }

// Eval counts executions of the code under observation.
func (w *W) Eval(n int) { w.res.Evals += int64(n) }

// Distinct records one non-trivial case by its normalised key.
func (w *W) Distinct(parts ...any) {
	h := fnv.New64a()
	for _, p := range parts {
		switch v := p.(type) {
		case string:
			h.Write([]byte(v))
		case []byte:
			h.Write(v)
		default:
			fmt.Fprint(h, v)
		}
		h.Write([]byte{0})
	}
	w.hashes[h.Sum64()] = struct{}{}
}

// Sample keeps a few cases written out in full for the evidence file.
func (w *W) Sample(v any) {
	if len(w.res.Samples) < w.maxSamp {
		w.res.Samples = append(w.res.Samples, v)
	}
}

// WantSample tells whether another sample would be kept (avoid building them otherwise).
func (w *W) WantSample() bool { return len(w.res.Samples) < w.maxSamp }

// Cover increments a coverage-matrix cell.
func (w *W) Cover(cell string) { w.res.Cover[cell]++ }

// Count increments a named monitor counter.
func (w *W) Count(name string, n int64) { w.res.Counters[name] += n }

func (w *W) Note(k, v string) { w.res.Notes[k] = v }

// Inconclusive records that the run could not decide (never folded into held/violated).
func (w *W) Inconclusive(why string) {
	if len(w.res.Inconclusive) < 20 {
		w.res.Inconclusive = append(w.res.Inconclusive, why)
	}
}

// Violate records a refuting observation.
func (w *W) Violate(sig, msg string, c any) {
	if v, ok := w.viols[sig]; ok {
		v.Count++
		return
	}
	if len(w.viols) >= 400 {
		w.res.Counters["violations_dropped_over_cap"]++
		return
	}
	w.viols[sig] = &Violation{Sig: sig, Msg: msg, Case: c, Count: 1}
}

func (w *W) NViolations() int { return len(w.viols) }

// Journal appends the case about to be run to an unbuffered file, so that a fatal
// crash of this process is attributable to its input.
func (w *W) Journal(label string, data []byte) {
	if w.journal == nil {
		return
	}
	const max = 4096
	d := data
	trunc := ""
	if len(d) > max {
		d = d[:max]
		trunc = fmt.Sprintf("...(%d bytes)", len(data))
	}
	fmt.Fprintf(w.journal, "%s %s%s\n", label, hex.EncodeToString(d), trunc)
}

// PanicInfo describes a recovered panic.
type PanicInfo struct {
	Value string
	Stack string
	// Frame is the innermost go-ucan (or dependency) frame, used in signatures.
	Frame string
	// InRepo tells whether a go-ucan frame is on the stack.
	InRepo bool
}

// Guard runs f and turns a panic into a PanicInfo.
func Guard(f func()) (pi *PanicInfo) {
	defer func() {
		if r := recover(); r != nil {
			st := string(debug.Stack())
			pi = &PanicInfo{Value: fmt.Sprint(r), Stack: st}
			pi.Frame, pi.InRepo = topFrame(st)
		}
	}()
	f()
	return nil
}

const repoMod = "github.com/ucan-wg/go-ucan/"

// topFrame finds the innermost frame of go-ucan, or else of any non-runtime,
// non-harness package, in a stack trace.
func topFrame(stack string) (string, bool) {
	lines := strings.Split(stack, "\n")
	first := ""
	for _, l := range lines {
		if strings.HasPrefix(l, "\t") || l == "" || strings.HasPrefix(l, "goroutine ") {
			continue
		}
		fn := l
		if i := strings.LastIndex(fn, "("); i > 0 {
			fn = fn[:i]
		}
		if strings.HasPrefix(fn, "runtime") || strings.HasPrefix(fn, "panic") || strings.HasPrefix(fn, "verifharness/") ||
			strings.HasPrefix(fn, "main.") || strings.HasPrefix(fn, "reflect.") {
			continue
		}
		if strings.HasPrefix(fn, repoMod) {
			return strings.TrimPrefix(fn, repoMod), true
		}
		if first == "" {
			first = fn
		}
	}
	// a go-ucan frame anywhere?
	in := strings.Contains(stack, repoMod)
	if in {
		for _, l := range lines {
			if strings.HasPrefix(l, repoMod) {
				fn := l
				if i := strings.LastIndex(fn, "("); i > 0 {
					fn = fn[:i]
				}
				return first + "<-" + strings.TrimPrefix(fn, repoMod), true
			}
		}
	}
	return first, in
}

// Checkpoint writes what was observed so far, so that a fatal crash in the next call does
// not lose it.
func (w *W) Checkpoint() {
	_ = w.write(true)
}

// Finish writes the shard result.
func (w *W) Finish() error {
	return w.write(false)
}

func (w *W) write(partial bool) error {
	w.res.Done = true
	w.res.Partial = partial
	w.res.Violations = nil
	sigs := make([]string, 0, len(w.viols))
	for s := range w.viols {
		sigs = append(sigs, s)
	}
	sort.Strings(sigs)
	for _, s := range sigs {
		w.res.Violations = append(w.res.Violations, w.viols[s])
	}
	if w.OutDir == "" {
		return nil
	}
	hb := make([]byte, 0, 8*len(w.hashes))
	for h := range w.hashes {
		hb = binary.LittleEndian.AppendUint64(hb, h)
	}
	if err := os.WriteFile(filepath.Join(w.OutDir, fmt.Sprintf("hashes-%d.bin", w.Shard)), hb, 0o644); err != nil {
		return err
	}
	b, err := json.Marshal(&w.res)
	if err != nil {
		// a sample or case that cannot be marshalled must not lose the verdict
		for _, v := range w.res.Violations {
			v.Case = fmt.Sprintf("%+v", v.Case)
		}
		w.res.Samples = []any{fmt.Sprintf("%+v", w.res.Samples)}
		b, err = json.Marshal(&w.res)
		if err != nil {
			return err
		}
	}
	tmp := filepath.Join(w.OutDir, fmt.Sprintf("result-%d.json.tmp", w.Shard))
	if err := os.WriteFile(tmp, b, 0o644); err != nil {
		return err
	}
	return os.Rename(tmp, filepath.Join(w.OutDir, fmt.Sprintf("result-%d.json", w.Shard)))
}

// Hex is a helper for replay files.
func Hex(b []byte) string { return hex.EncodeToString(b) }

// Trunc shortens long strings for signatures and messages.
func Trunc(s string, n int) string {
	if len(s) <= n {
		return s
	}
	return s[:n] + "…"
}
