package mon

import (
	"fmt"
	"math/rand/v2"
	"sync"
)

// Thunk is one call of a pure operation of the library on fixed (possibly shared) objects,
// returning a normalised rendering of its outcome. It must not touch the worker context.
type Thunk struct {
	Label string // operation class, used in signatures
	Desc  string // the concrete case, for the replay file
	F     func() string
	// Group (0 = none): thunks of the same group work on the same shared objects (one proof
	// list, one policy, one key); the focused concurrent rounds put several goroutines on one
	// group at a time, so that calls that share state really overlap.
	Group int
	// Check (optional): an oracle for the outcome itself (a reference model's verdict). It
	// returns "" when the outcome is acceptable and the complaint otherwise; it is applied to
	// every observed outcome - baseline, repeated and concurrent - so a first call that is
	// already wrong (because of what ran before it) does not become the reference.
	Check func(out string) string
}

// Purity is the generic monitor for operations that the properties treat as functions of
// their inputs (decode, parse, match, select, covers, key extraction, decrypt, read a
// container, ...): the outcome of a call may depend neither on what was called before on the
// same or on other objects (caches, memoised results, state written back into shared values),
// nor on what runs at the same time (pools, scratch buffers, lazily filled fields).
//
//  1. every thunk once, in order: the baseline;
//  2. after a burst of unrelated traffic through the library (ChurnHook: several hundred never
//     seen DIDs, patterns, selectors and commands, and a few failing calls), every thunk again
//     in reverse order, then once more in a shuffled order: must equal the baseline (history
//     independence);
//  3. G goroutines run shuffled selections of the thunks at the same time, `rounds` times:
//     every outcome must equal the baseline (and, in the -race build, the race detector
//     watches the library's internals meanwhile). Every other round is focused: a handful of
//     groups is drawn and four goroutines at a time call only the thunks of one group.
//  4. every thunk once more in order after the concurrent rounds: what they (and the traffic
//     beside them) left behind must not matter either.
//
// A panic inside a thunk is rendered as an outcome, so it is compared like any other.
// ChurnHook, when set, is called between the baseline and the repeated passes: unrelated
// traffic through the library that must not change any outcome.
var ChurnHook func()

func (w *W) Purity(class string, thunks []Thunk, G, rounds int) {
	if len(thunks) == 0 {
		return
	}
	run := func(i int) (out string) {
		if pi := Guard(func() { out = thunks[i].F() }); pi != nil {
			return "PANIC: " + pi.Value + " @ " + pi.Frame
		}
		return out
	}
	checked := func(kind string, i int, got string, extra map[string]any) {
		if thunks[i].Check == nil {
			return
		}
		if why := thunks[i].Check(got); why != "" {
			m := map[string]any{"operation": thunks[i].Label, "case": thunks[i].Desc, "outcome": Trunc(got, 600), "model": why, "pass": kind, "race_build": w.Race}
			for k, v := range extra {
				m[k] = v
			}
			w.Violate(fmt.Sprintf("purity/model-differs/%s/%s/%s", class, thunks[i].Label, kind),
				fmt.Sprintf("%s [%s]: outcome %q, but %s (%s pass)", thunks[i].Label, Trunc(thunks[i].Desc, 200), Trunc(got, 200), why, kind), m)
		}
	}
	base := make([]string, len(thunks))
	for i := range thunks {
		base[i] = run(i)
		checked("first", i, base[i], nil)
		w.Eval(1)
	}
	w.Cover("purity/" + class)
	groups := map[int][]int{}
	var groupIDs []int
	for i := range thunks {
		if g := thunks[i].Group; g != 0 {
			if len(groups[g]) == 0 {
				groupIDs = append(groupIDs, g)
			}
			groups[g] = append(groups[g], i)
		}
	}
	report := func(kind string, i int, got string, extra map[string]any) {
		m := map[string]any{"operation": thunks[i].Label, "case": thunks[i].Desc, "baseline_outcome": Trunc(base[i], 600), "outcome": Trunc(got, 600), "race_build": w.Race}
		for k, v := range extra {
			m[k] = v
		}
		w.Violate(fmt.Sprintf("purity/%s/%s/%s", kind, class, thunks[i].Label),
			fmt.Sprintf("%s [%s]: the same call gives %q first and %q %s", thunks[i].Label, Trunc(thunks[i].Desc, 200), Trunc(base[i], 200), Trunc(got, 200),
				map[string]string{"order-dependent": "when repeated after other calls (same process, same objects)", "concurrent-differs": "while other goroutines use the library"}[kind]), m)
	}
	if ChurnHook != nil {
		ChurnHook()
		w.Cover("purity/" + class + "/churn-between-passes")
	}
	// 2. history independence
	for i := len(thunks) - 1; i >= 0; i-- {
		if got := run(i); got != base[i] {
			report("order-dependent", i, got, map[string]any{"pass": "reverse order"})
			checked("reverse", i, got, nil)
		}
		w.Eval(1)
	}
	perm := w.Rng.Perm(len(thunks))
	for _, i := range perm {
		if got := run(i); got != base[i] {
			report("order-dependent", i, got, map[string]any{"pass": "shuffled order"})
			checked("shuffled", i, got, nil)
		}
		w.Eval(1)
	}
	w.Cover("purity/" + class + "/history")
	// 3. concurrency
	type obs struct {
		i   int
		out string
	}
	for round := 0; round < rounds; round++ {
		res := make([][]obs, G)
		var wg sync.WaitGroup
		start := make(chan struct{})
		per := len(thunks)
		if per > 400 {
			per = 400
		}
		// focused rounds: G/4 groups drawn, four goroutines on each, several passes over the
		// group's thunks in private random orders
		focused := round%2 == 1 && len(groupIDs) > 0
		var drawn []int
		if focused {
			for k := 0; k < (G+3)/4; k++ {
				drawn = append(drawn, groupIDs[w.Rng.IntN(len(groupIDs))])
			}
		}
		for g := 0; g < G; g++ {
			g := g
			lr := rand.New(rand.NewPCG(uint64(w.Seed)*7919+uint64(round), uint64(g)*104729+uint64(w.Shard)))
			wg.Add(1)
			go func() {
				defer wg.Done()
				<-start
				if focused {
					mine := groups[drawn[(g/4)%len(drawn)]]
					for k := 0; k < 8*len(mine) && k < per; k++ {
						i := mine[lr.IntN(len(mine))]
						res[g] = append(res[g], obs{i, run(i)})
					}
					return
				}
				for k := 0; k < per; k++ {
					i := lr.IntN(len(thunks))
					res[g] = append(res[g], obs{i, run(i)})
				}
			}()
		}
		if ChurnHook != nil && round%3 == 2 {
			// unrelated traffic at the same time
			wg.Add(1)
			go func() {
				defer wg.Done()
				<-start
				ChurnHook()
			}()
		}
		close(start)
		wg.Wait()
		for g := range res {
			for _, o := range res[g] {
				w.Eval(1)
				if o.out != base[o.i] {
					report("concurrent-differs", o.i, o.out, map[string]any{"goroutines": G, "round": round, "focused_round": focused})
					checked("concurrent", o.i, o.out, map[string]any{"goroutines": G, "round": round})
				}
			}
		}
	}
	w.Cover("purity/" + class + "/concurrent")
	// 4. once more in order, now that the concurrent rounds (and the traffic beside them) are over
	for i := range thunks {
		if got := run(i); got != base[i] {
			report("order-dependent", i, got, map[string]any{"pass": "in order, after the concurrent rounds"})
			checked("afterwards", i, got, nil)
		}
		w.Eval(1)
	}
	w.Cover("purity/" + class + "/afterwards")
	if len(groupIDs) > 0 && rounds >= 2 {
		w.Cover("purity/" + class + "/concurrent-focused")
		w.Count("purity/groups/"+class, int64(len(groupIDs)))
	}
	w.Count("purity/thunks/"+class, int64(len(thunks)))
}
