package mon

import (
	"fmt"
	"math/rand/v2"
	"sync"
)

// Thunk is one call of a pure operation of the library on fixed (possibly shared) objects,
// returning a normalised rendering of its outcome. It must not touch the worker context.
type Thunk struct {
	Label string // operation class, used in signatures
	Desc  string // the concrete case, for the replay file
	F     func() string
}

// Purity is the generic monitor for operations that the properties treat as functions of
// their inputs (decode, parse, match, select, covers, key extraction, decrypt, read a
// container, ...): the outcome of a call may depend neither on what was called before on the
// same or on other objects (caches, memoised results, state written back into shared values),
// nor on what runs at the same time (pools, scratch buffers, lazily filled fields).
//
//  1. every thunk once, in order: the baseline;
//  2. every thunk again in reverse order, then once more in a shuffled order: must equal the
//     baseline (history independence);
//  3. G goroutines run shuffled selections of the thunks at the same time, `rounds` times:
//     every outcome must equal the baseline (and, in the -race build, the race detector
//     watches the library's internals meanwhile).
//
// A panic inside a thunk is rendered as an outcome, so it is compared like any other.
func (w *W) Purity(class string, thunks []Thunk, G, rounds int) {
	if len(thunks) == 0 {
		return
	}
	run := func(i int) (out string) {
		if pi := Guard(func() { out = thunks[i].F() }); pi != nil {
			return "PANIC: " + pi.Value + " @ " + pi.Frame
		}
		return out
	}
	base := make([]string, len(thunks))
	for i := range thunks {
		base[i] = run(i)
		w.Eval(1)
	}
	w.Cover("purity/" + class)
	report := func(kind string, i int, got string, extra map[string]any) {
		m := map[string]any{"operation": thunks[i].Label, "case": thunks[i].Desc, "baseline_outcome": Trunc(base[i], 600), "outcome": Trunc(got, 600), "race_build": w.Race}
		for k, v := range extra {
			m[k] = v
		}
		w.Violate(fmt.Sprintf("purity/%s/%s/%s", kind, class, thunks[i].Label),
			fmt.Sprintf("%s [%s]: the same call gives %q first and %q %s", thunks[i].Label, Trunc(thunks[i].Desc, 200), Trunc(base[i], 200), Trunc(got, 200),
				map[string]string{"order-dependent": "when repeated after other calls (same process, same objects)", "concurrent-differs": "while other goroutines use the library"}[kind]), m)
	}
	// 2. history independence
	for i := len(thunks) - 1; i >= 0; i-- {
		if got := run(i); got != base[i] {
			report("order-dependent", i, got, map[string]any{"pass": "reverse order"})
		}
		w.Eval(1)
	}
	perm := w.Rng.Perm(len(thunks))
	for _, i := range perm {
		if got := run(i); got != base[i] {
			report("order-dependent", i, got, map[string]any{"pass": "shuffled order"})
		}
		w.Eval(1)
	}
	w.Cover("purity/" + class + "/history")
	// 3. concurrency
	type obs struct {
		i   int
		out string
	}
	for round := 0; round < rounds; round++ {
		res := make([][]obs, G)
		var wg sync.WaitGroup
		start := make(chan struct{})
		per := len(thunks)
		if per > 400 {
			per = 400
		}
		for g := 0; g < G; g++ {
			g := g
			lr := rand.New(rand.NewPCG(uint64(w.Seed)*7919+uint64(round), uint64(g)*104729+uint64(w.Shard)))
			wg.Add(1)
			go func() {
				defer wg.Done()
				<-start
				for k := 0; k < per; k++ {
					i := lr.IntN(len(thunks))
					res[g] = append(res[g], obs{i, run(i)})
				}
			}()
		}
		close(start)
		wg.Wait()
		for g := range res {
			for _, o := range res[g] {
				w.Eval(1)
				if o.out != base[o.i] {
					report("concurrent-differs", o.i, o.out, map[string]any{"goroutines": G, "round": round})
				}
			}
		}
	}
	w.Cover("purity/" + class + "/concurrent")
	w.Count("purity/thunks/"+class, int64(len(thunks)))
}
