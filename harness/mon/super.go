package mon

import (
	"bytes"
	"context"
	"crypto/sha256"
	"encoding/binary"
	"encoding/hex"
	"encoding/json"
	"fmt"
	"os"
	"os/exec"
	"path/filepath"
	"regexp"
	"runtime"
	"sort"
	"strings"
	"sync"
	"syscall"
	"time"
)

// Prop describes one property check.
type Prop struct {
	ID          string
	Level       string // exploration | fault_enumeration
	Rule        string
	Assumptions []string
	Exhaustive  bool
	// Shards is the number of worker processes' worth of work for a tier.
	Shards func(tier string) int
	// RaceShards is the number of additional shards that run in the -race build.
	RaceShards func(tier string) int
	// Run is the workload + oracle for one shard.
	Run func(w *W)
	// MinEvals / MinDistinct are floors below which the run is inconclusive.
	MinEvals    func(tier string) int64
	MinDistinct func(tier string) int64
	// RequiredCells must each have been observed at least once (else inconclusive).
	RequiredCells func(tier string) []string
	// OnDeadChild classifies a worker that died without writing its result. Returning
	// nil makes the run inconclusive.
	OnDeadChild func(d DeadChild) *Violation
	// RaceIsViolation: data-race reports of the -race shards are violations.
	RaceIsViolation bool
	// Replay re-runs one recorded case; returns a description and whether it still violates.
	Replay func(caseJSON json.RawMessage) (string, bool, error)
	// ShardTimeout per tier.
	ShardTimeout func(tier string) time.Duration
}

// DeadChild is a worker process that ended without a result.
type DeadChild struct {
	Shard       int
	Race        bool
	ExitErr     string
	TimedOut    bool
	Banner      string // first "fatal error:" / "panic:" line
	GoUcanFrame string // first go-ucan frame in the crash output
	LastJournal string // label of the last journalled case
	LastInput   string // hex (possibly truncated)
	LogPath     string
}

type kfEntry struct {
	ID       string `json:"id"`
	Property string `json:"property"`
	Status   string `json:"status"` // known | fixed
	Match    string `json:"match"`  // regexp over the violation signature (known only)
	What     string `json:"what"`
	Line     string `json:"line,omitempty"`
	Commit   string `json:"commit,omitempty"`
}

type kfFile struct {
	Findings []kfEntry `json:"findings"`
}

func loadKF(root string) ([]kfEntry, error) {
	b, err := os.ReadFile(filepath.Join(root, "known_findings.json"))
	if err != nil {
		if os.IsNotExist(err) {
			return nil, nil
		}
		return nil, err
	}
	var f kfFile
	if err := json.Unmarshal(b, &f); err != nil {
		return nil, fmt.Errorf("known_findings.json: %w", err)
	}
	return f.Findings, nil
}

// Options for a supervisor run.
type Options struct {
	Root    string // /verif
	Bin     string // path of the normal worker binary
	RaceBin string // path of the -race worker binary ("" if not built)
	Tier    string
	Seed    int64
	Par     int
}

var raceHdr = regexp.MustCompile(`(?m)^WARNING: DATA RACE`)

// Supervise runs every shard of p in child processes, merges, writes evidence and
// returns the process exit code (0 held, 1 violated, 2 inconclusive).
func Supervise(p *Prop, o Options) int {
	start := time.Now()
	runDir := filepath.Join(o.Root, ".build", "run", fmt.Sprintf("%s-%s-%d", p.ID, o.Tier, os.Getpid()))
	os.RemoveAll(runDir)
	if err := os.MkdirAll(runDir, 0o755); err != nil {
		fmt.Printf("INCONCLUSIVE property=%s cannot create run dir: %v\n", p.ID, err)
		return 2
	}
	defer os.RemoveAll(runDir)

	n := p.Shards(o.Tier)
	nr := 0
	if p.RaceShards != nil {
		nr = p.RaceShards(o.Tier)
	}
	if nr > 0 && o.RaceBin == "" {
		fmt.Printf("INCONCLUSIVE property=%s race build missing\n", p.ID)
		return 2
	}
	total := n + nr
	par := o.Par
	if par <= 0 {
		par = runtime.NumCPU()
	}
	timeout := 20 * time.Minute
	if o.Tier == "thorough" {
		timeout = 90 * time.Minute
	}
	if p.ShardTimeout != nil {
		timeout = p.ShardTimeout(o.Tier)
	}

	results := make([]*Result, total)
	dead := make([]*DeadChild, total)
	raceReports := map[string]*Violation{}
	var rmu sync.Mutex
	var raceBlocks, harnessRaces int64

	sem := make(chan struct{}, par)
	var wg sync.WaitGroup
	for i := 0; i < total; i++ {
		wg.Add(1)
		go func(i int) {
			defer wg.Done()
			sem <- struct{}{}
			defer func() { <-sem }()
			race := i >= n
			bin := o.Bin
			if race {
				bin = o.RaceBin
			}
			logPath := filepath.Join(runDir, fmt.Sprintf("shard-%d.log", i))
			lf, _ := os.Create(logPath)
			ctx, cancel := context.WithTimeout(context.Background(), timeout)
			defer cancel()
			args := []string{"-worker", "-prop", p.ID, "-tier", o.Tier, "-seed", fmt.Sprint(o.Seed),
				"-shard", fmt.Sprint(i), "-nshards", fmt.Sprint(total), "-nplain", fmt.Sprint(n), "-out", runDir}
			cmd := exec.Command(bin, args...)
			cmd.Stdout = lf
			cmd.Stderr = lf
			cmd.Env = append(os.Environ(), "VERIF_ROOT="+o.Root)
			if race {
				cmd.Env = append(cmd.Env, "GORACE=halt_on_error=0 history_size=3 log_path="+filepath.Join(runDir, fmt.Sprintf("race-%d", i)))
			}
			cmd.SysProcAttr = &syscall.SysProcAttr{Setpgid: true}
			timedOut := false
			err := cmd.Start()
			if err == nil {
				done := make(chan error, 1)
				go func() { done <- cmd.Wait() }()
				select {
				case err = <-done:
				case <-ctx.Done():
					timedOut = true
					syscall.Kill(-cmd.Process.Pid, syscall.SIGQUIT)
					select {
					case err = <-done:
					case <-time.After(10 * time.Second):
						syscall.Kill(-cmd.Process.Pid, syscall.SIGKILL)
						err = <-done
					}
				}
			}
			lf.Close()
			rb, rerr := os.ReadFile(filepath.Join(runDir, fmt.Sprintf("result-%d.json", i)))
			var res Result
			if rerr == nil && json.Unmarshal(rb, &res) == nil && res.Done && !timedOut {
				results[i] = &res
			}
			if results[i] == nil || res.Partial {
				d := &DeadChild{Shard: i, Race: race, TimedOut: timedOut, LogPath: logPath}
				if err != nil {
					d.ExitErr = err.Error()
				}
				fillCrash(d, logPath, filepath.Join(runDir, fmt.Sprintf("journal-%d.log", i)))
				// keep the log for inspection
				keep := filepath.Join(o.Root, ".build", "crashlogs")
				os.MkdirAll(keep, 0o755)
				dst := filepath.Join(keep, fmt.Sprintf("%s-%s-shard%d.log", p.ID, o.Tier, i))
				if b, e := os.ReadFile(logPath); e == nil {
					if len(b) > 1<<20 {
						b = append(b[:1<<19], b[len(b)-(1<<19):]...)
					}
					os.WriteFile(dst, b, 0o644)
					d.LogPath = dst
				}
				dead[i] = d
			}
			if race {
				matches, _ := filepath.Glob(filepath.Join(runDir, fmt.Sprintf("race-%d.*", i)))
				for _, m := range matches {
					b, e := os.ReadFile(m)
					if e != nil {
						continue
					}
					blocks := splitRaceBlocks(string(b))
					rmu.Lock()
					raceBlocks += int64(len(blocks))
					for _, blk := range blocks {
						rs := raceSig(blk)
						if strings.HasPrefix(rs, "harness-only:") {
							harnessRaces++
							continue
						}
						sig := "race/" + rs
						if v, ok := raceReports[sig]; ok {
							v.Count++
						} else {
							raceReports[sig] = &Violation{Sig: sig, Msg: "data race reported by the Go race detector", Case: map[string]any{"report": blk}, Count: 1}
						}
					}
					rmu.Unlock()
				}
			}
		}(i)
	}
	wg.Wait()

	// merge
	merged := Result{Prop: p.ID, Cover: map[string]int64{}, Counters: map[string]int64{}, Notes: map[string]string{}}
	viols := map[string]*Violation{}
	hashes := map[uint64]struct{}{}
	var inconclusive []string
	for i := 0; i < total; i++ {
		if d := dead[i]; d != nil {
			var v *Violation
			if !d.TimedOut && p.OnDeadChild != nil {
				v = p.OnDeadChild(*d)
			} else if !d.TimedOut && d.GoUcanFrame != "" && d.Banner != "" {
				v = &Violation{Sig: "fatal/" + d.GoUcanFrame, Msg: "worker process died inside go-ucan: " + d.Banner,
					Case: d, Count: 1}
			}
			if v != nil {
				if o, ok := viols[v.Sig]; ok {
					o.Count++
				} else {
					viols[v.Sig] = v
				}
				merged.Counters["dead_children"]++
			} else {
				why := fmt.Sprintf("shard %d died without a result (timeout=%v, err=%s, banner=%q, log=%s)", i, d.TimedOut, d.ExitErr, d.Banner, d.LogPath)
				inconclusive = append(inconclusive, why)
			}
			merged.Counters["shards_died"]++
		}
		r := results[i]
		if r == nil {
			// the counters of a shard that died before its first checkpoint are lost; recorded
			merged.Counters["shards_without_result"]++
			continue
		}
		merged.Evals += r.Evals
		for k, v := range r.Cover {
			merged.Cover[k] += v
		}
		for k, v := range r.Counters {
			merged.Counters[k] += v
		}
		for k, v := range r.Notes {
			merged.Notes[k] = v
		}
		if len(merged.Samples) < 8 {
			for _, s := range r.Samples {
				if len(merged.Samples) < 8 {
					merged.Samples = append(merged.Samples, s)
				}
			}
		}
		for _, v := range r.Violations {
			if o, ok := viols[v.Sig]; ok {
				o.Count += v.Count
			} else {
				viols[v.Sig] = v
			}
		}
		inconclusive = append(inconclusive, r.Inconclusive...)
		if hb, err := os.ReadFile(filepath.Join(runDir, fmt.Sprintf("hashes-%d.bin", i))); err == nil {
			for j := 0; j+8 <= len(hb); j += 8 {
				hashes[binary.LittleEndian.Uint64(hb[j:])] = struct{}{}
			}
		}
	}
	if nr > 0 {
		merged.Counters["race_report_blocks"] = raceBlocks
		merged.Counters["race_report_distinct"] = int64(len(raceReports))
		if harnessRaces > 0 {
			inconclusive = append(inconclusive, fmt.Sprintf("%d data-race reports involve only harness code (a defect of the monitor, not of go-ucan)", harnessRaces))
		}
		if p.RaceIsViolation {
			for s, v := range raceReports {
				viols[s] = v
			}
		}
	}

	// floors
	if p.MinEvals != nil && merged.Evals < p.MinEvals(o.Tier) {
		inconclusive = append(inconclusive, fmt.Sprintf("only %d evaluations, floor %d", merged.Evals, p.MinEvals(o.Tier)))
	}
	if p.MinDistinct != nil && int64(len(hashes)) < p.MinDistinct(o.Tier) {
		inconclusive = append(inconclusive, fmt.Sprintf("only %d distinct non-trivial cases, floor %d", len(hashes), p.MinDistinct(o.Tier)))
	}
	if p.RequiredCells != nil {
		var missing []string
		for _, c := range p.RequiredCells(o.Tier) {
			if merged.Cover[c] == 0 {
				missing = append(missing, c)
			}
		}
		if len(missing) > 0 {
			if len(missing) > 12 {
				missing = append(missing[:12], fmt.Sprintf("… %d more", len(missing)-12))
			}
			inconclusive = append(inconclusive, "coverage cells never observed: "+strings.Join(missing, ", "))
		}
	}

	// known findings
	kf, kerr := loadKF(o.Root)
	if kerr != nil {
		inconclusive = append(inconclusive, kerr.Error())
	}
	type kfc struct {
		e  kfEntry
		re *regexp.Regexp
	}
	var known []kfc
	for _, e := range kf {
		if e.Status != "known" || e.Property != p.ID {
			continue
		}
		re, err := regexp.Compile(e.Match)
		if err != nil {
			inconclusive = append(inconclusive, fmt.Sprintf("known finding %s: bad match regexp", e.ID))
			continue
		}
		known = append(known, kfc{e, re})
	}
	sigs := make([]string, 0, len(viols))
	for s := range viols {
		sigs = append(sigs, s)
	}
	sort.Strings(sigs)
	kfSeen := map[string]int64{}
	kfSigs := map[string][]string{}
	var real []*Violation
	for _, s := range sigs {
		v := viols[s]
		matched := false
		for _, k := range known {
			if k.re.MatchString(s) {
				kfSeen[k.e.ID] += v.Count
				if len(kfSigs[k.e.ID]) < 6 {
					kfSigs[k.e.ID] = append(kfSigs[k.e.ID], s)
				}
				matched = true
				break
			}
		}
		if !matched {
			real = append(real, v)
		}
	}

	// output
	evDir := filepath.Join(o.Root, "evidence")
	if d := os.Getenv("VERIF_EVIDENCE_DIR"); d != "" {
		evDir = d // used when the checks are pointed at a mutated copy (tools/seeded_matrix_par.sh)
	}
	repDir := filepath.Join(evDir, "replays")
	os.MkdirAll(repDir, 0o755)
	// remove stale replay files of this property
	if old, _ := filepath.Glob(filepath.Join(repDir, p.ID+"-*.json")); len(old) > 0 {
		for _, f := range old {
			os.Remove(f)
		}
	}
	fmt.Printf("== %s tier=%s seed=%d shards=%d(+%d race) evaluations=%d distinct_nontrivial=%d wall=%.1fs\n",
		p.ID, o.Tier, o.Seed, n, nr, merged.Evals, len(hashes), time.Since(start).Seconds())
	printMap("coverage", merged.Cover, 60)
	printMap("counters", merged.Counters, 60)
	for _, k := range known {
		if c := kfSeen[k.e.ID]; c > 0 {
			fmt.Printf("KNOWN-FINDING: property=%s %s [%s; %d observations; e.g. %s]\n", p.ID, k.e.What, k.e.ID, c, strings.Join(kfSigs[k.e.ID], " | "))
		}
	}
	var violLines []map[string]any
	for i, v := range real {
		if i == 25 {
			fmt.Printf("… %d further violation classes not printed (all are in the evidence file, with replay files)\n", len(real)-25)
		}
		if i >= 300 {
			break
		}
		h := sha256.Sum256([]byte(v.Sig))
		path := filepath.Join(repDir, fmt.Sprintf("%s-%s.json", p.ID, hex.EncodeToString(h[:6])))
		rb, _ := json.MarshalIndent(map[string]any{"property": p.ID, "sig": v.Sig, "msg": v.Msg, "count": v.Count, "seed": o.Seed, "tier": o.Tier, "case": v.Case}, "", " ")
		os.WriteFile(path, rb, 0o644)
		if i < 25 {
			fmt.Printf("VIOLATION property=%s replay=%s\n", p.ID, path)
			fmt.Printf("   sig=%s (x%d)\n   %s\n", v.Sig, v.Count, Trunc(v.Msg, 600))
		}
		violLines = append(violLines, map[string]any{"sig": v.Sig, "msg": Trunc(v.Msg, 300), "count": v.Count, "replay": path})
	}
	for i, w := range inconclusive {
		if i >= 6 {
			fmt.Printf("INCONCLUSIVE property=%s … %d further reasons (see evidence file)\n", p.ID, len(inconclusive)-6)
			break
		}
		fmt.Printf("INCONCLUSIVE property=%s %s\n", p.ID, Trunc(w, 1500))
	}

	cov := map[string]any{
		"evaluations":         merged.Evals,
		"distinct_nontrivial": len(hashes),
		"rule":                p.Rule,
		"samples":             merged.Samples,
		"matrix":              merged.Cover,
		"counters":            merged.Counters,
		"shards":              n,
		"race_shards":         nr,
		"known_findings_seen": kfSeen,
		"inconclusive":        inconclusive,
		"violation_classes":   violLines,
	}
	if len(merged.Notes) > 0 {
		cov["notes"] = merged.Notes
	}
	if p.Exhaustive {
		cov["exhaustive"] = true
	}
	if merged.Samples == nil {
		cov["samples"] = []any{}
	}
	ev := map[string]any{
		"property_id": p.ID,
		"tier":        o.Tier,
		"seed":        o.Seed,
		"level":       p.Level,
		"coverage":    cov,
		"assumptions": p.Assumptions,
		"wall_s":      time.Since(start).Seconds(),
		"violations":  len(real),
	}
	eb, err := json.MarshalIndent(ev, "", " ")
	if err == nil {
		tmp := filepath.Join(evDir, p.ID+".json.tmp")
		if err = os.WriteFile(tmp, eb, 0o644); err == nil {
			err = os.Rename(tmp, filepath.Join(evDir, p.ID+".json"))
		}
	}
	if err != nil {
		fmt.Printf("INCONCLUSIVE property=%s cannot write evidence: %v\n", p.ID, err)
		return 2
	}
	switch {
	case len(real) > 0:
		return 1
	case len(inconclusive) > 0:
		return 2
	}
	fmt.Printf("HELD property=%s on everything observed\n", p.ID)
	return 0
}

func printMap(title string, m map[string]int64, max int) {
	if len(m) == 0 {
		return
	}
	keys := make([]string, 0, len(m))
	for k := range m {
		keys = append(keys, k)
	}
	sort.Strings(keys)
	var b strings.Builder
	for i, k := range keys {
		if i >= max {
			fmt.Fprintf(&b, " …(+%d cells)", len(keys)-max)
			break
		}
		fmt.Fprintf(&b, " %s=%d", k, m[k])
	}
	fmt.Printf("   %s (%d cells):%s\n", title, len(m), b.String())
}

var frameRe = regexp.MustCompile(`(?m)^(github\.com/ucan-wg/go-ucan/[^\s(]+)`)
var anyFrameRe = regexp.MustCompile(`(?m)^([a-zA-Z0-9_./\-]+\.[^\s(]+)\(`)

func fillCrash(d *DeadChild, logPath, journalPath string) {
	if b, err := os.ReadFile(logPath); err == nil {
		for _, l := range bytes.Split(b, []byte("\n")) {
			s := string(l)
			if strings.HasPrefix(s, "fatal error:") || strings.HasPrefix(s, "panic:") || strings.HasPrefix(s, "runtime: goroutine stack exceeds") || strings.Contains(s, "checkptr:") {
				d.Banner = Trunc(s, 200)
				break
			}
		}
		if m := frameRe.FindSubmatch(b); m != nil {
			d.GoUcanFrame = strings.TrimPrefix(string(m[1]), repoMod)
		}
	}
	if b, err := os.ReadFile(journalPath); err == nil {
		b = bytes.TrimRight(b, "\n")
		if i := bytes.LastIndexByte(b, '\n'); i >= 0 {
			b = b[i+1:]
		}
		parts := strings.SplitN(string(b), " ", 2)
		d.LastJournal = parts[0]
		if len(parts) > 1 {
			d.LastInput = Trunc(parts[1], 400)
		}
	}
}

func splitRaceBlocks(s string) []string {
	idx := raceHdr.FindAllStringIndex(s, -1)
	var out []string
	for i, m := range idx {
		end := len(s)
		if i+1 < len(idx) {
			end = idx[i+1][0]
		}
		out = append(out, s[m[0]:end])
	}
	return out
}

var raceFrame = regexp.MustCompile(`(?m)^  (\S+)\(\)\s*$`)

// raceSig attributes a race report: each of the two access stacks is walked from the
// racing access downwards, skipping standard-library frames; the first frame that belongs
// to go-ucan or to the harness decides whose access it is. Reports in which neither access
// is go-ucan's are the harness's own races ("harness:" prefix, never a violation of the
// code under observation). The signature is the pair of attributed frames, line numbers
// stripped.
func raceSig(block string) string {
	parts := regexp.MustCompile(`(?m)^(?:Previous |)(?:[Rr]ead|[Ww]rite|[Aa]tomic [a-z]+) at .*$`).Split(block, -1)
	var frames []string
	ucan := false
	for _, p := range parts[1:] {
		// only the access stack: stop at the next section header
		if i := strings.Index(p, "\nGoroutine "); i >= 0 {
			p = p[:i]
		}
		f := "?"
		for _, m := range raceFrame.FindAllStringSubmatch(p, -1) {
			fn := m[1]
			if strings.HasPrefix(fn, repoMod) {
				f = strings.TrimPrefix(fn, repoMod)
				ucan = true
				break
			}
			if strings.HasPrefix(fn, "verifharness/") || strings.HasPrefix(fn, "main.") {
				f = "harness:" + fn
				break
			}
		}
		frames = append(frames, f)
		if len(frames) == 2 {
			break
		}
	}
	sort.Strings(frames)
	sig := strings.Join(frames, "~")
	if !ucan {
		return "harness-only:" + sig
	}
	return sig
}
