// Package gen holds the PRNG-driven generators shared by the property workloads.
package gen

import (
	_ "embed"
	"encoding/base64"
	"encoding/json"
	"fmt"
	"math/rand/v2"
	"sync"

	"github.com/libp2p/go-libp2p/core/crypto"

	"github.com/ucan-wg/go-ucan/did"
)

//go:embed keys.json
var keysJSON []byte

// Principal is a key pair with its DID.
type Principal struct {
	Name string
	Alg  string
	Priv crypto.PrivKey
	Pub  crypto.PubKey
	DID  did.DID
}

func (p *Principal) String() string { return p.Name }

var (
	poolOnce sync.Once
	pool     []*Principal
	poolErr  error
)

// Algs in the pool.
var Algs = []string{"ed25519", "secp256k1", "p256", "p384", "p521", "rsa2048", "rsa3072"}

// Pool returns the committed key pool (all algorithms the DID package can generate).
func Pool() []*Principal {
	poolOnce.Do(func() {
		var ks []struct {
			Alg  string `json:"alg"`
			Priv string `json:"priv"`
		}
		if poolErr = json.Unmarshal(keysJSON, &ks); poolErr != nil {
			return
		}
		cnt := map[string]int{}
		for _, k := range ks {
			b, err := base64.StdEncoding.DecodeString(k.Priv)
			if err != nil {
				poolErr = err
				return
			}
			priv, err := crypto.UnmarshalPrivateKey(b)
			if err != nil {
				poolErr = err
				return
			}
			d, err := did.FromPrivKey(priv)
			if err != nil {
				poolErr = fmt.Errorf("did.FromPrivKey(%s): %w", k.Alg, err)
				return
			}
			cnt[k.Alg]++
			pool = append(pool, &Principal{Name: fmt.Sprintf("%s#%d", k.Alg, cnt[k.Alg]), Alg: k.Alg, Priv: priv, Pub: priv.GetPublic(), DID: d})
		}
	})
	if poolErr != nil {
		panic(poolErr)
	}
	return pool
}

// ByAlg returns the pool principals of one algorithm.
func ByAlg(alg string) []*Principal {
	var out []*Principal
	for _, p := range Pool() {
		if p.Alg == alg {
			out = append(out, p)
		}
	}
	return out
}

// Ed returns the i-th Ed25519 pool principal (cheap signatures).
func Ed(i int) *Principal {
	e := ByAlg("ed25519")
	return e[i%len(e)]
}

// PickPrincipal draws a principal; mostly Ed25519 (fast), sometimes any algorithm.
func PickPrincipal(r *rand.Rand, anyAlgPct int) *Principal {
	if r.IntN(100) < anyAlgPct {
		p := Pool()
		return p[r.IntN(len(p))]
	}
	e := ByAlg("ed25519")
	return e[r.IntN(len(e))]
}

type rngReader struct{ r *rand.Rand }

func (x rngReader) Read(p []byte) (int, error) {
	for i := range p {
		p[i] = byte(x.r.Uint32())
	}
	return len(p), nil
}

// FreshEd generates a new Ed25519 principal from the PRNG.
func FreshEd(r *rand.Rand, name string) *Principal {
	priv, pub, err := crypto.GenerateEd25519Key(rngReader{r})
	if err != nil {
		panic(err)
	}
	d, err := did.FromPubKey(pub)
	if err != nil {
		panic(err)
	}
	return &Principal{Name: name, Alg: "ed25519", Priv: priv, Pub: pub, DID: d}
}

// Bytes returns n PRNG bytes.
func Bytes(r *rand.Rand, n int) []byte {
	b := make([]byte, n)
	for i := range b {
		b[i] = byte(r.Uint32())
	}
	return b
}
