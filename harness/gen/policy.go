package gen

import (
	"fmt"
	"math/rand/v2"
	"strings"

	"github.com/ucan-wg/go-ucan/pkg/policy"

	"verifharness/ref"
)

// ToConstructor renders a reference statement with go-ucan's policy constructors.
func ToConstructor(s ref.Stmt) policy.Constructor {
	switch s.Kind {
	case "==":
		return policy.Equal(s.Sel.Text(), s.Val.Node())
	case "<":
		return policy.LessThan(s.Sel.Text(), s.Val.Node())
	case "<=":
		return policy.LessThanOrEqual(s.Sel.Text(), s.Val.Node())
	case ">":
		return policy.GreaterThan(s.Sel.Text(), s.Val.Node())
	case ">=":
		return policy.GreaterThanOrEqual(s.Sel.Text(), s.Val.Node())
	case "like":
		return policy.Like(s.Sel.Text(), s.Pat)
	case "not":
		return policy.Not(ToConstructor(s.Subs[0]))
	case "and", "or":
		cs := make([]policy.Constructor, len(s.Subs))
		for i, c := range s.Subs {
			cs[i] = ToConstructor(c)
		}
		if s.Kind == "and" {
			return policy.And(cs...)
		}
		return policy.Or(cs...)
	case "all":
		return policy.All(s.Sel.Text(), ToConstructor(s.Subs[0]))
	case "any":
		return policy.Any(s.Sel.Text(), ToConstructor(s.Subs[0]))
	}
	panic("bad kind " + s.Kind)
}

// BuildPolicy builds a go-ucan policy with the constructors.
func BuildPolicy(p ref.Policy) (policy.Policy, error) {
	cs := make([]policy.Constructor, len(p))
	for i, s := range p {
		cs[i] = ToConstructor(s)
	}
	return policy.Construct(cs...)
}

// BuildPolicyIPLD builds a go-ucan policy through its IPLD form.
func BuildPolicyIPLD(p ref.Policy) (policy.Policy, error) {
	return policy.FromIPLD(p.ToV().Node())
}

// EscapeGlob makes a pattern that matches exactly s.
func EscapeGlob(s string) string {
	var b strings.Builder
	for i := 0; i < len(s); i++ {
		if s[i] == '*' || s[i] == '\\' {
			b.WriteByte('\\')
		}
		b.WriteByte(s[i])
	}
	return b.String()
}

// LeafOn draws a leaf statement about the place p (selector relative to the data root).
func LeafOn(r *rand.Rand, p Path) ref.Stmt {
	v := p.Val
	switch v.K {
	case ref.KInt:
		switch r.IntN(3) {
		case 0:
			return ref.Stmt{Kind: "==", Sel: p.Sel, Val: ref.Int(nearInt(r, v.I))}
		default:
			return ref.Stmt{Kind: Pick(r, ref.CmpKinds[1:]), Sel: p.Sel, Val: ref.Int(nearInt(r, v.I))}
		}
	case ref.KLink:
		// equality against the same link or another link of the pool (possibly one that shares
		// the multihash and differs in codec / version)
		return ref.Stmt{Kind: "==", Sel: p.Sel, Val: ref.Link(Pick(r, LinkPool()))}
	case ref.KFloat:
		if r.IntN(4) == 0 {
			// any float of the pool, incl. huge magnitudes of either sign
			return ref.Stmt{Kind: Pick(r, ref.CmpKinds), Sel: p.Sel, Val: ref.Float(Pick(r, floatPool))}
		}
		d := Pick(r, []float64{0, 0, 0.5, -0.5, 1, -1})
		if r.IntN(3) == 0 {
			return ref.Stmt{Kind: "==", Sel: p.Sel, Val: ref.Float(v.F + d)}
		}
		return ref.Stmt{Kind: Pick(r, ref.CmpKinds[1:]), Sel: p.Sel, Val: ref.Float(v.F + d)}
	case ref.KString:
		if r.IntN(3) == 0 {
			o := v
			if r.IntN(2) == 0 {
				o = ref.Str(v.S + "x")
			}
			return ref.Stmt{Kind: "==", Sel: p.Sel, Val: o}
		}
		if r.IntN(2) == 0 && len(v.S) > 0 {
			// a suffix / random pieces of the string behind a wildcard
			k := r.IntN(len(v.S))
			for k > 0 && v.S[k]&0xc0 == 0x80 {
				k--
			}
			return ref.Stmt{Kind: "like", Sel: p.Sel, Pat: "*" + EscapeGlob(v.S[k:])}
		}
		return ref.Stmt{Kind: "like", Sel: p.Sel, Pat: GlobFor(r, v.S)}
	default:
		o := v
		if r.IntN(2) == 0 {
			o = Value(r, 1, ValOpts{})
		} else if r.IntN(2) == 0 {
			o = ReorderMaps(r, v) // same data, map entries listed in another order
		}
		return ref.Stmt{Kind: "==", Sel: p.Sel, Val: o}
	}
}

func nearInt(r *rand.Rand, i int64) int64 {
	d := Pick(r, []int64{0, 0, 0, 1, -1, 2, -2, 10, -10})
	x := i + d
	if x > MaxSafe {
		x = MaxSafe
	}
	if x < -MaxSafe {
		x = -MaxSafe
	}
	return x
}

// GlobFor draws a pattern that is related to s (matches it about half of the time).
func GlobFor(r *rand.Rand, s string) string {
	// a wildcard is sometimes written as a run of 2..5 stars (same language)
	star := "*"
	if r.IntN(4) == 0 {
		star = strings.Repeat("*", 2+r.IntN(4))
	}
	switch r.IntN(8) {
	case 7: // head*tail whose head and tail overlap in s: s starts with head and ends with tail, but is too short for both
		k, j := cut(r, s), cut(r, s)
		if j > k {
			k, j = j, k
		}
		return EscapeGlob(s[:k]) + star + EscapeGlob(s[j:])
	case 0:
		return star
	case 1:
		return EscapeGlob(s)
	case 2: // prefix*
		k := cut(r, s)
		return EscapeGlob(s[:k]) + star
	case 3: // *suffix
		k := cut(r, s)
		return star + EscapeGlob(s[k:])
	case 4: // pre*suf
		k := cut(r, s)
		return EscapeGlob(s[:k]) + star + EscapeGlob(s[k:])
	case 5:
		return EscapeGlob(s) + "x"
	default:
		return "x" + star + EscapeGlob(s)
	}
}

func cut(r *rand.Rand, s string) int {
	// cut on a rune boundary
	var idx []int
	for i := range s {
		idx = append(idx, i)
	}
	idx = append(idx, len(s))
	return idx[r.IntN(len(idx))]
}

// StmtOver draws a statement (possibly nested) over the data d in the unambiguous
// fragment: every selector resolves on d.
func StmtOver(r *rand.Rand, d ref.V, paths []Path, depth int) ref.Stmt {
	k := r.IntN(10)
	if depth <= 0 && k >= 6 {
		k = r.IntN(6)
	}
	switch {
	case k < 6:
		return LeafOn(r, Pick(r, paths))
	case k == 6:
		return ref.Stmt{Kind: "not", Subs: []ref.Stmt{StmtOver(r, d, paths, depth-1)}}
	case k == 7 || k == 8:
		n := 1 + r.IntN(3)
		s := ref.Stmt{Kind: "and"}
		if k == 8 {
			s.Kind = "or"
		}
		for i := 0; i < n; i++ {
			s.Subs = append(s.Subs, StmtOver(r, d, paths, depth-1))
		}
		return s
	default:
		// quantifier over a list place
		var lists []Path
		for _, p := range paths {
			if p.Val.K == ref.KList {
				lists = append(lists, p)
			}
		}
		if len(lists) == 0 {
			return LeafOn(r, Pick(r, paths))
		}
		lp := Pick(r, lists)
		kind := Pick(r, []string{"all", "any"})
		var sub ref.Stmt
		if len(lp.Val.L) == 0 {
			sub = ref.Stmt{Kind: "==", Sel: ref.Sel{}, Val: ref.Int(1)}
		} else {
			// statement about one element, applied to all: must resolve on every element, so
			// use identity-rooted leafs only
			e := Pick(r, lp.Val.L)
			sub = LeafOn(r, Path{Sel: ref.Sel{}, Val: e})
		}
		return ref.Stmt{Kind: kind, Sel: lp.Sel, Subs: []ref.Stmt{sub}}
	}
}

// StmtWithTruth draws statements until the reference evaluation equals want.
func StmtWithTruth(r *rand.Rand, d ref.V, paths []Path, depth int, want bool) (ref.Stmt, bool) {
	for i := 0; i < 200; i++ {
		s := StmtOver(r, d, paths, depth)
		t, _ := ref.Eval(s, d)
		if (t == ref.True && want) || (t == ref.False && !want) {
			return s, true
		}
	}
	return ref.Stmt{}, false
}

// ArgsMap draws an argument map (top-level map with ≥1 entries, nested values).
func ArgsMap(r *rand.Rand) ref.V {
	for {
		m := MapValue(r, 3, ValOpts{MaxWidth: 5, IntegralF: false, Links: true})
		// a top-level null argument cannot be unsealed by the pinned tree (known finding of
		// C07, judged there); the chain workloads keep null below the top level
		for i := range m.M {
			if m.M[i].V.K == ref.KNull {
				m.M[i].V = ref.List(ref.Null())
			}
		}
		if len(m.M) >= 1 {
			// every argument map also carries a string with multi-byte characters at both ends and a
			// short list: what a policy selector cuts out of them depends on how positions are counted
			m.M = append(m.M, ref.KV{K: "zz-text", V: ref.Str(Pick(r, []string{"édition-日本語-ß", "ß-straße", "日本語テキスト", "añejo/é", "éclair-é"}))},
				ref.KV{K: "zz-list", V: ref.List(ref.Int(int64(r.IntN(9))), ref.Str("é"), ref.Int(int64(r.IntN(9))), ref.Float(2.5))})
			m.M = NormMapKeys(m.M)
			return m
		}
	}
}

func DescribePolicy(p ref.Policy) string { return fmt.Sprint(p.String()) }

// ReorderMaps returns the same value with the entries of every map (at any depth)
// listed in a random order.
func ReorderMaps(r *rand.Rand, v ref.V) ref.V {
	o := v
	switch v.K {
	case ref.KList:
		o.L = make([]ref.V, len(v.L))
		for i := range v.L {
			o.L[i] = ReorderMaps(r, v.L[i])
		}
	case ref.KMap:
		o.M = make([]ref.KV, len(v.M))
		for i, j := range r.Perm(len(v.M)) {
			o.M[i] = ref.KV{K: v.M[j].K, V: ReorderMaps(r, v.M[j].V)}
		}
	}
	return o
}
