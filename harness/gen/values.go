package gen

import (
	"math"

	"github.com/ipfs/go-cid"
	"math/rand/v2"
	"sort"

	"verifharness/ref"
)

const MaxSafe = int64(1)<<53 - 1

var keyAlphabet = []string{"a", "b", "c", "d", "x", "y", "foo", "bar", "baz", "qux", "k0", "k1", "k2", "name", "tags", "from", "to", "n", "é", "键"}

var strPool = []string{"", "a", "b", "ab", "abc", "aaab", "aab", "abab", "ababac", "aaa", "x------END", "https:///host/path", "hello", "hello world", "*", "\\", "a*b", "x\\y", "é", "héllo", "日本語", "alice@example.com", "bob@example.com", "/a/b", "0", "true", "null"}

var intPool = []int64{0, 1, -1, 2, 3, 5, 7, 10, 42, 100, 255, 256, -100, 1000, 65535, 1 << 31, -(1 << 31), 1<<32 + 1, MaxSafe, -MaxSafe, MaxSafe - 1, -MaxSafe + 1}

var floatPool = []float64{0, 1, -1, 0.5, -0.5, 1.5, 2.5, 3.14, 1e10, -1e10, 1e-10, 1e100, -1e100, math.MaxFloat64, -math.MaxFloat64, 1e308, -1e308, 1.5e308, -1.5e308, math.SmallestNonzeroFloat64, -math.SmallestNonzeroFloat64, 9007199254740993.0}

// ValOpts tunes the value generator.
type ValOpts struct {
	NonFinite    bool // allow NaN / ±Inf floats
	IntegralF    bool // allow floats with integral values (2.0)
	Links        bool
	MaxWidth     int
	NoNull       bool
	ASCIIOnly    bool
	KeysAnyOrder bool // do not normalise map key order
}

func Pick[T any](r *rand.Rand, xs []T) T { return xs[r.IntN(len(xs))] }

// Int draws an integer within the safe range, biased to boundaries.
func Int(r *rand.Rand) int64 {
	switch r.IntN(4) {
	case 0:
		return Pick(r, intPool)
	case 1:
		return int64(r.IntN(21)) - 10
	case 2:
		return r.Int64N(2*MaxSafe+1) - MaxSafe
	default:
		return int64(r.IntN(2001)) - 1000
	}
}

// Float draws a float.
func Float(r *rand.Rand, o ValOpts) float64 {
	if o.NonFinite && r.IntN(8) == 0 {
		return Pick(r, []float64{math.NaN(), math.Inf(1), math.Inf(-1)})
	}
	for {
		var f float64
		switch r.IntN(3) {
		case 0:
			f = Pick(r, floatPool)
		case 1:
			f = float64(r.IntN(2001)-1000) / 8
		default:
			f = (r.Float64() - 0.5) * math.Pow(10, float64(r.IntN(30)-10))
		}
		if !o.IntegralF && f == math.Trunc(f) {
			f += 0.5
			if f == math.Trunc(f) { // huge magnitudes are all integral
				continue
			}
		}
		return f
	}
}

func String(r *rand.Rand, o ValOpts) string {
	if r.IntN(3) > 0 {
		s := Pick(r, strPool)
		if o.ASCIIOnly {
			for _, c := range s {
				if c > 127 {
					return "ascii"
				}
			}
		}
		return s
	}
	n := r.IntN(8)
	alpha := []rune("abcxyz019 _-*\\/.éß日")
	if o.ASCIIOnly {
		alpha = []rune("abcxyz019 _-*\\/.")
	}
	out := make([]rune, n)
	for i := range out {
		out[i] = alpha[r.IntN(len(alpha))]
	}
	return string(out)
}

// Keys draws distinct map keys for which plain lexicographic order and DAG-CBOR
// canonical (length-first) order agree, returned in that order.
func Keys(r *rand.Rand, n int) []string {
	seen := map[string]bool{}
	var ks []string
	for i := 0; i < n*3 && len(ks) < n; i++ {
		k := Pick(r, keyAlphabet)
		if !seen[k] {
			seen[k] = true
			ks = append(ks, k)
		}
	}
	return NormKeys(ks)
}

// NormKeys sorts keys and drops those that make the two orders disagree.
func NormKeys(ks []string) []string {
	sort.Strings(ks)
	var out []string
	for _, k := range ks {
		ok := true
		for _, p := range out {
			// p < k lexicographically; need len(p) <= len(k)
			if len(p) > len(k) {
				ok = false
				break
			}
		}
		if ok {
			out = append(out, k)
		}
	}
	return out
}

// Value draws a random IPLD value of bounded depth.
func Value(r *rand.Rand, depth int, o ValOpts) ref.V {
	w := o.MaxWidth
	if w == 0 {
		w = 4
	}
	top := 9
	if depth <= 0 {
		top = 7
	}
	for {
		switch r.IntN(top) {
		case 0:
			if o.NoNull {
				continue
			}
			return ref.Null()
		case 1:
			return ref.Bool(r.IntN(2) == 0)
		case 2, 3:
			return ref.Int(Int(r))
		case 4:
			return ref.Float(Float(r, o))
		case 5:
			return ref.Str(String(r, o))
		case 6:
			if o.Links && r.IntN(2) == 0 {
				return ref.Link(Pick(r, LinkPool()))
			}
			return ref.Bytes(Bytes(r, r.IntN(6)))
		case 7:
			n := r.IntN(w + 1)
			l := ref.V{K: ref.KList, L: []ref.V{}}
			for i := 0; i < n; i++ {
				l.L = append(l.L, Value(r, depth-1, o))
			}
			return l
		case 8:
			return MapValue(r, depth, o)
		}
	}
}

// MapValue draws a random map.
func MapValue(r *rand.Rand, depth int, o ValOpts) ref.V {
	w := o.MaxWidth
	if w == 0 {
		w = 4
	}
	m := ref.V{K: ref.KMap, M: []ref.KV{}}
	for _, k := range Keys(r, r.IntN(w+1)) {
		m.M = append(m.M, ref.KV{K: k, V: Value(r, depth-1, o)})
	}
	return m
}

// Path is a place in a value tree reachable by field/index segments.
type Path struct {
	Sel ref.Sel
	Val ref.V
}

// Paths enumerates selectable places of a value (fields of maps, indexes of lists).
func Paths(v ref.V, prefix ref.Sel, out *[]Path, maxDepth int) {
	*out = append(*out, Path{append(ref.Sel{}, prefix...), v})
	if maxDepth == 0 {
		return
	}
	switch v.K {
	case ref.KMap:
		for _, e := range v.M {
			Paths(e.V, append(append(ref.Sel{}, prefix...), ref.Seg{Kind: ref.SField, Name: e.K, Quoted: !ref.PlainFieldOK(e.K)}), out, maxDepth-1)
		}
	case ref.KList:
		for i, e := range v.L {
			Paths(e, append(append(ref.Sel{}, prefix...), ref.Seg{Kind: ref.SIndex, Idx: int64(i)}), out, maxDepth-1)
		}
	}
}

// RelPaths derives up to max places that are addressed relative to the length of a list, string
// or byte string reachable by one of the given paths: negative indexes, slices with a negative
// or an absent bound. The selected value is computed by the reference interpreter.
func RelPaths(r *rand.Rand, root ref.V, paths []Path, max int) []Path {
	var out []Path
	var cands []Path
	for _, p := range paths {
		switch p.Val.K {
		case ref.KList:
			if len(p.Val.L) > 0 {
				cands = append(cands, p)
			}
		case ref.KString:
			if len([]rune(p.Val.S)) > 0 {
				cands = append(cands, p)
				if len(p.Val.S) != len([]rune(p.Val.S)) {
					cands = append(cands, p, p, p) // (multi-byte content: three more tickets)
				}
			}
		case ref.KBytes:
			if len(p.Val.Y) > 0 {
				cands = append(cands, p)
			}
		}
	}
	for try := 0; try < 4*max && len(out) < max && len(cands) > 0; try++ {
		p := cands[r.IntN(len(cands))]
		var n int64
		switch p.Val.K {
		case ref.KList:
			n = int64(len(p.Val.L))
		case ref.KString:
			n = int64(len([]rune(p.Val.S)))
		default:
			n = int64(len(p.Val.Y))
		}
		k := 1 + r.Int64N(n)
		var g ref.Seg
		switch r.IntN(4) {
		case 0:
			if p.Val.K == ref.KString {
				g = ref.Seg{Kind: ref.SSlice, Lo: ref.I64(-k)}
			} else {
				g = ref.Seg{Kind: ref.SIndex, Idx: -k}
			}
		case 1:
			// (a tail longer than the value is the whole value)
			g = ref.Seg{Kind: ref.SSlice, Lo: ref.I64(-(k + r.Int64N(3)))}
		case 2:
			g = ref.Seg{Kind: ref.SSlice, Lo: ref.I64(r.Int64N(n))}
		default:
			g = ref.Seg{Kind: ref.SSlice, Hi: ref.I64(-k)}
		}
		sel := append(append(ref.Sel{}, p.Sel...), g)
		if o, v := ref.Select(sel, root); o == ref.OValue {
			out = append(out, Path{Sel: sel, Val: v})
		}
	}
	return out
}

// NormMapKeys sorts entries by key and drops duplicates.
func NormMapKeys(m []ref.KV) []ref.KV {
	sort.SliceStable(m, func(i, j int) bool { return m[i].K < m[j].K })
	var out []ref.KV
	for i, e := range m {
		if i > 0 && m[i-1].K == e.K {
			continue
		}
		out = append(out, e)
	}
	return out
}

var linkPool []cid.Cid

// LinkPool: a few CIDs, some of which share their multihash and differ only in codec or
// CID version (different links, although they address the same bytes).
func LinkPool() []cid.Cid {
	if linkPool == nil {
		a := ref.CID([]byte("block a"))
		b := ref.CID([]byte("block b"))
		linkPool = []cid.Cid{a, b, cid.NewCidV1(0x55, a.Hash()), cid.NewCidV0(a.Hash()), cid.NewCidV1(0x0129, b.Hash())}
	}
	return linkPool
}
