package gen

import (
	"bytes"
	"fmt"
	"github.com/ipld/go-ipld-prime/datamodel"
	"math/rand/v2"
	"time"

	"github.com/ipfs/go-cid"

	"github.com/ucan-wg/go-ucan/did"
	"github.com/ucan-wg/go-ucan/pkg/args"
	"github.com/ucan-wg/go-ucan/pkg/command"
	"github.com/ucan-wg/go-ucan/pkg/meta"
	"github.com/ucan-wg/go-ucan/token"
	"github.com/ucan-wg/go-ucan/token/delegation"
	"github.com/ucan-wg/go-ucan/token/invocation"

	"verifharness/ref"
)

// TokenSpec describes a token as its issuer intends it.
type TokenSpec struct {
	Type    string // "dlg" | "inv"
	Iss     *Principal
	Aud     *Principal // dlg: required; inv: optional
	Sub     *Principal // dlg: optional; inv: required
	Cmd     string
	Pol     ref.Policy // dlg
	PolIPLD bool
	Args    ref.V // inv: map
	Prf     []cid.Cid
	Meta    ref.V // map, possibly empty
	Nonce   []byte
	// EmptyNonce: ask for an empty nonce (invocation.WithEmptyNonce / WithNonce of a non-nil
	// empty slice): the constructor may refuse or substitute, but what it returns must round-trip
	EmptyNonce bool
	Nbf, Exp   *time.Time
	Iat        *time.Time // inv; NoIat=true -> absent; nil -> constructor default (now)
	NoIat      bool
	Cause      *cid.Cid
	ArgsOrder  []int
}

// RandomSel draws a small valid selector.
func RandomSel(r *rand.Rand) ref.Sel {
	var s ref.Sel
	for i := 0; i < r.IntN(4); i++ {
		opt := r.IntN(4) == 0
		switch r.IntN(6) {
		case 0, 1:
			name := Pick(r, []string{"a", "b", "foo", "bar", "k0", "é", "from", "to"})
			s = append(s, ref.Seg{Kind: ref.SField, Name: name, Quoted: r.IntN(3) == 0, Opt: opt})
		case 2:
			s = append(s, ref.Seg{Kind: ref.SField, Name: Pick(r, []string{"a b", "x.y", "", "with-dash"}), Quoted: true, Opt: opt})
		case 3:
			s = append(s, ref.Seg{Kind: ref.SIndex, Idx: int64(r.IntN(7)) - 3, Opt: opt})
		case 4:
			s = append(s, ref.Seg{Kind: ref.SSlice, Lo: ref.I64(int64(r.IntN(5)) - 2), Hi: ref.I64(int64(r.IntN(5))), Opt: opt})
		default:
			s = append(s, ref.Seg{Kind: ref.SIter, Opt: opt})
		}
	}
	return s
}

// RandomStmt draws a policy statement of any kind (not tied to data).
func RandomStmt(r *rand.Rand, depth int, vo ValOpts) ref.Stmt {
	k := r.IntN(11)
	if depth <= 0 && k >= 6 {
		k = r.IntN(6)
	}
	switch {
	case k < 5:
		return ref.Stmt{Kind: ref.CmpKinds[k], Sel: RandomSel(r), Val: Value(r, 2, vo)}
	case k == 5:
		return ref.Stmt{Kind: "like", Sel: RandomSel(r), Pat: GlobFor(r, String(r, vo))}
	case k == 6:
		return ref.Stmt{Kind: "not", Subs: []ref.Stmt{RandomStmt(r, depth-1, vo)}}
	case k == 7 || k == 8:
		s := ref.Stmt{Kind: []string{"and", "or"}[k-7]}
		for i := 0; i < r.IntN(4); i++ {
			s.Subs = append(s.Subs, RandomStmt(r, depth-1, vo))
		}
		return s
	default:
		return ref.Stmt{Kind: []string{"all", "any"}[k-9], Sel: RandomSel(r), Subs: []ref.Stmt{RandomStmt(r, depth-1, vo)}}
	}
}

var specCmds = []string{"/", "/a", "/a/b", "/crud/read", "/msg/send", "/x-y/z", "/é", "/a//b", "//a", "/ほげ/ふが", "/x"}

// RandomCID draws a CIDv1 dag-cbor sha2-256 of random bytes.
func RandomCID(r *rand.Rand) cid.Cid { return ref.CID(Bytes(r, 16)) }

// SpecOpts tunes RandomSpec.
type SpecOpts struct {
	AnyAlgPct int
	Val       ValOpts
	Minimal   bool // no optional field
	Full      bool // every optional field
	Issuer    *Principal
	NoBig     bool // no >= 1 KiB single values (keeps exhaustive byte-level enumerations bounded)
}

// RandomSpec draws a token description.
func RandomSpec(r *rand.Rand, typ string, o SpecOpts) *TokenSpec {
	has := func(p int) bool {
		if o.Minimal {
			return false
		}
		if o.Full {
			return true
		}
		return r.IntN(100) < p
	}
	s := &TokenSpec{Type: typ, Iss: o.Issuer, Cmd: Pick(r, specCmds), Meta: ref.Map(), Args: ref.Map()}
	if s.Iss == nil {
		s.Iss = PickPrincipal(r, o.AnyAlgPct)
	}
	now := time.Now()
	future := func() *time.Time {
		t := now.Add(time.Duration(1+r.IntN(100000)) * time.Hour).Truncate(time.Second)
		if r.IntN(10) == 0 {
			t = time.Unix(ref.MaxSafe-int64(r.IntN(5)), 0)
		}
		return &t
	}
	if has(60) {
		for _, k := range Keys(r, 1+r.IntN(4)) {
			v := Value(r, 2, o.Val)
			if v.K == ref.KNull {
				v = ref.List(ref.Null()) // top-level null: judged separately (known finding of C07)
			}
			s.Meta.M = append(s.Meta.M, ref.KV{K: k, V: v})
		}
	}
	if r.IntN(25) == 0 {
		s.EmptyNonce = true
	} else if has(40) {
		s.Nonce = Bytes(r, 12+r.IntN(53))
		if r.IntN(12) == 0 && !o.NoBig {
			s.Nonce = Bytes(r, Pick(r, []int{1023, 1024, 1025, 3000}))
		}
	}
	// metadata integers are not restricted to 53 bits: given as IPLD nodes they are taken verbatim
	if !o.Minimal && r.IntN(6) == 0 {
		big := Pick(r, []int64{1 << 53, -(1 << 53), 1<<63 - 1, -(1 << 63), 1700000000000000000, 1<<53 + 1})
		v := ref.Int(big)
		if r.IntN(2) == 0 {
			v = ref.List(ref.Map(ref.E("n", ref.Int(big))))
		}
		s.Meta.M = append(s.Meta.M, ref.KV{K: "zz-int", V: v})
		s.Meta.M = NormMapKeys(s.Meta.M)
	}
	// now and then a single large value (size diversity: >= 1 KiB strings / byte strings)
	if !o.Minimal && !o.NoBig && r.IntN(8) == 0 {
		big := Pick(r, []int{1000, 1023, 1024, 1025, 1500, 4096, 5000})
		v := ref.Bytes(Bytes(r, big))
		if r.IntN(2) == 0 {
			b := make([]byte, big)
			for i := range b {
				b[i] = "abcdefghijklmnopqrstuvwxyz "[r.IntN(27)]
			}
			v = ref.Str(string(b))
		}
		s.Meta.M = append(s.Meta.M, ref.KV{K: "zz-big", V: v})
		s.Meta.M = NormMapKeys(s.Meta.M)
	}
	switch typ {
	case "dlg":
		s.Aud = PickPrincipal(r, o.AnyAlgPct)
		if r.IntN(8) == 0 {
			s.Aud = s.Iss
		}
		if has(70) {
			switch r.IntN(5) {
			case 0, 1:
				s.Sub = s.Iss
			case 2:
				s.Sub = s.Aud
			default:
				s.Sub = PickPrincipal(r, o.AnyAlgPct)
			}
		}
		if !o.Minimal {
			for i := 0; i < r.IntN(4); i++ {
				s.Pol = append(s.Pol, RandomStmt(r, 3, o.Val))
			}
		}
		if o.Full && len(s.Pol) == 0 {
			s.Pol = append(s.Pol, RandomStmt(r, 3, o.Val))
		}
		s.PolIPLD = r.IntN(2) == 0
		if has(60) {
			s.Exp = future()
		}
		if has(40) {
			s.Nbf = future()
		}
	case "inv":
		s.Sub = PickPrincipal(r, o.AnyAlgPct)
		if has(40) {
			s.Aud = PickPrincipal(r, o.AnyAlgPct)
			// coinciding principals (audience = subject, audience = issuer) are legal inputs: whatever
			// the constructor makes of them must survive sealing
			switch r.IntN(6) {
			case 0:
				s.Aud = s.Sub
			case 1:
				s.Aud = s.Iss
			}
		}
		if r.IntN(8) == 0 {
			s.Sub = s.Iss
		}
		if has(80) {
			for _, k := range Keys(r, 1+r.IntN(5)) {
				v := Value(r, 3, o.Val)
				if v.K == ref.KNull {
					v = ref.List(ref.Null())
				}
				s.Args.M = append(s.Args.M, ref.KV{K: k, V: v})
			}
			s.ArgsOrder = r.Perm(len(s.Args.M))
		}
		for i := 0; i < r.IntN(6); i++ {
			if o.Minimal {
				break
			}
			s.Prf = append(s.Prf, RandomCID(r))
		}
		// instants the invocation options accept without restriction: far past, the epoch,
		// the Go zero time, the limits of the 53-bit range
		special := func() *time.Time {
			t := Pick(r, []time.Time{time.Unix(0, 0), time.Unix(-1, 0), time.Unix(1, 0), {}, time.Unix(-ref.MaxSafe, 0), time.Unix(ref.MaxSafe, 0), time.Unix(-62135596800+1, 0), time.Unix(1<<31, 0), time.Unix(-(1 << 31), 0)})
			return &t
		}
		if has(60) {
			switch r.IntN(6) {
			case 0, 1:
				t := now.Add(-time.Duration(1+r.IntN(100000)) * time.Hour).Truncate(time.Second)
				s.Exp = &t
			case 2:
				s.Exp = special()
			default:
				s.Exp = future()
			}
		}
		switch {
		case has(30):
			s.NoIat = true
		case has(40):
			t := now.Add(time.Duration(r.IntN(200000)-100000) * time.Minute).Truncate(time.Second)
			s.Iat = &t
			if r.IntN(4) == 0 {
				s.Iat = special()
			}
		}
		if has(30) {
			c := RandomCID(r)
			s.Cause = &c
		}
	}
	return s
}

// Build realises the description through go-ucan's constructors.
func (s *TokenSpec) Build() (token.Token, error) {
	cmd, err := command.Parse(s.Cmd)
	if err != nil {
		return nil, err
	}
	switch s.Type {
	case "dlg":
		var pol = s.Pol
		p, err := BuildPolicy(pol)
		if s.PolIPLD {
			p, err = BuildPolicyIPLD(pol)
		}
		if err != nil {
			return nil, fmt.Errorf("policy: %w", err)
		}
		var opts []delegation.Option
		if s.Sub != nil {
			opts = append(opts, delegation.WithSubject(s.Sub.DID))
		}
		if s.Exp != nil {
			opts = append(opts, delegation.WithExpiration(*s.Exp))
		}
		if s.Nbf != nil {
			opts = append(opts, delegation.WithNotBefore(*s.Nbf))
		}
		if s.EmptyNonce {
			opts = append(opts, delegation.WithNonce([]byte{}))
		} else if s.Nonce != nil {
			opts = append(opts, delegation.WithNonce(s.Nonce))
		}
		for _, e := range s.Meta.M {
			opts = append(opts, delegation.WithMeta(e.K, e.V.Node()))
		}
		return delegation.New(s.Iss.DID, s.Aud.DID, cmd, p, opts...)
	case "inv":
		var opts []invocation.Option
		order := s.ArgsOrder
		if order == nil {
			for i := range s.Args.M {
				order = append(order, i)
			}
		}
		for _, i := range order {
			opts = append(opts, invocation.WithArgument(s.Args.M[i].K, s.Args.M[i].V.Node()))
		}
		if s.Aud != nil {
			opts = append(opts, invocation.WithAudience(s.Aud.DID))
		}
		if s.Exp != nil {
			opts = append(opts, invocation.WithExpiration(*s.Exp))
		}
		if s.NoIat {
			opts = append(opts, invocation.WithoutInvokedAt())
		} else if s.Iat != nil {
			opts = append(opts, invocation.WithInvokedAt(*s.Iat))
		}
		if s.EmptyNonce {
			opts = append(opts, invocation.WithEmptyNonce())
		} else if s.Nonce != nil {
			opts = append(opts, invocation.WithNonce(s.Nonce))
		}
		if s.Cause != nil {
			opts = append(opts, invocation.WithCause(s.Cause))
		}
		for _, e := range s.Meta.M {
			opts = append(opts, invocation.WithMeta(e.K, e.V.Node()))
		}
		return invocation.New(s.Iss.DID, s.Sub.DID, cmd, s.Prf, opts...)
	}
	return nil, fmt.Errorf("bad type %q", s.Type)
}

func didV(d did.DID) ref.V {
	if !d.Defined() {
		return ref.Null()
	}
	return ref.Str(d.String())
}

func timeV(t *time.Time) ref.V {
	if t == nil {
		return ref.Null()
	}
	return ref.Int(t.Unix())
}

func metaV(m meta.ReadOnly) ref.V {
	out := ref.V{K: ref.KMap, M: []ref.KV{}}
	for k, n := range m.Iter() {
		v, err := ref.FromNode(n)
		if err != nil {
			v = ref.Str("<unconvertible: " + err.Error() + ">")
		}
		out.M = append(out.M, ref.KV{K: k, V: v})
	}
	return out.SortedMap()
}

// Fields reads every field of a token through its accessors into one comparable value
// (time bounds at whole-second resolution, map-like fields with sorted keys).
func Fields(t token.Token) ref.V {
	switch x := t.(type) {
	case *delegation.Token:
		pol := ref.V{K: ref.KList, L: []ref.V{}}
		if n, err := x.Policy().ToIPLD(); err == nil {
			if v, err := ref.FromNode(n); err == nil {
				pol = v
			}
		}
		return ref.Map(
			ref.E("type", ref.Str("dlg")), ref.E("iss", didV(x.Issuer())), ref.E("aud", didV(x.Audience())), ref.E("sub", didV(x.Subject())),
			ref.E("cmd", ref.Str(x.Command().String())), ref.E("pol", pol), ref.E("nonce", ref.Bytes(x.Nonce())), ref.E("meta", metaV(x.Meta())),
			ref.E("nbf", timeV(x.NotBefore())), ref.E("exp", timeV(x.Expiration())),
		)
	case *invocation.Token:
		args := ref.V{K: ref.KMap, M: []ref.KV{}}
		for k, n := range x.Arguments().Iter() {
			v, err := ref.FromNode(n)
			if err != nil {
				v = ref.Str("<unconvertible: " + err.Error() + ">")
			}
			args.M = append(args.M, ref.KV{K: k, V: v})
		}
		prf := ref.V{K: ref.KList, L: []ref.V{}}
		for _, c := range x.Proof() {
			prf.L = append(prf.L, ref.Link(c))
		}
		cause := ref.Null()
		if x.Cause() != nil {
			cause = ref.Link(*x.Cause())
		}
		return ref.Map(
			ref.E("type", ref.Str("inv")), ref.E("iss", didV(x.Issuer())), ref.E("aud", didV(x.Audience())), ref.E("sub", didV(x.Subject())),
			ref.E("cmd", ref.Str(x.Command().String())), ref.E("args", args.SortedMap()), ref.E("prf", prf), ref.E("nonce", ref.Bytes(x.Nonce())), ref.E("meta", metaV(x.Meta())),
			ref.E("exp", timeV(x.Expiration())), ref.E("iat", timeV(x.InvokedAt())), ref.E("cause", cause),
		)
	}
	return ref.Str(fmt.Sprintf("<unknown token type %T>", t))
}

// FieldDiff names the first field in which two Fields values differ ("" if none).
func FieldDiff(a, b ref.V) string {
	if a.K != ref.KMap || b.K != ref.KMap {
		if ref.SameData(a, b) {
			return ""
		}
		return "type"
	}
	for _, e := range a.M {
		o, ok := b.Get(e.K)
		if !ok || !ref.SameData(e.V, o) {
			return e.K
		}
	}
	if len(a.M) != len(b.M) {
		return "fieldset"
	}
	return ""
}

// FieldsFromPayload derives, independently of go-ucan's decoding, the Fields value a
// token decoded from this payload must show.
func FieldsFromPayload(tag string, p ref.V) (ref.V, error) {
	get := func(k string) ref.V {
		v, ok := p.Get(k)
		if !ok {
			return ref.Null()
		}
		return v
	}
	metaOf := func() ref.V {
		m, ok := p.Get("meta")
		if !ok || m.K != ref.KMap {
			return ref.Map()
		}
		return m.SortedMap()
	}
	switch tag {
	case ref.TagDelegation:
		return ref.Map(
			ref.E("type", ref.Str("dlg")), ref.E("iss", get("iss")), ref.E("aud", get("aud")), ref.E("sub", get("sub")),
			ref.E("cmd", get("cmd")), ref.E("pol", get("pol")), ref.E("nonce", get("nonce")), ref.E("meta", metaOf()),
			ref.E("nbf", get("nbf")), ref.E("exp", get("exp")),
		), nil
	case ref.TagInvocation:
		args := get("args")
		if args.K == ref.KMap {
			args = args.SortedMap()
		}
		return ref.Map(
			ref.E("type", ref.Str("inv")), ref.E("iss", get("iss")), ref.E("aud", get("aud")), ref.E("sub", get("sub")),
			ref.E("cmd", get("cmd")), ref.E("args", args), ref.E("prf", get("prf")), ref.E("nonce", get("nonce")), ref.E("meta", metaOf()),
			ref.E("exp", get("exp")), ref.E("iat", get("iat")), ref.E("cause", get("cause")),
		), nil
	}
	return ref.V{}, fmt.Errorf("unknown tag %q", tag)
}

// AccessorIssues cross-checks the keyed getters of a token's metadata and arguments against
// what iteration yields: GetNode(k) is the iterated node, the typed getter of the node's kind
// returns its value, a key that does not occur is reported as missing, and Equals holds
// against a clone and fails against a clone with one more entry.
func AccessorIssues(t token.Token) []string {
	var issues []string
	check := func(what string, it func(func(string, datamodel.Node) bool), getNode func(string) (datamodel.Node, error)) {
		it(func(k string, n datamodel.Node) bool {
			g, err := getNode(k)
			if err != nil || g == nil {
				issues = append(issues, fmt.Sprintf("%s.GetNode(%q): err=%v", what, k, err))
				return true
			}
			if !datamodel.DeepEqual(g, n) {
				if a, e1 := ref.FromNode(g); e1 == nil {
					if b, e2 := ref.FromNode(n); e2 == nil && !ref.SameData(a, b) {
						issues = append(issues, fmt.Sprintf("%s.GetNode(%q) differs from the iterated value", what, k))
					}
				}
			}
			return true
		})
		if n, err := getNode("\x00 no such key \x00"); err == nil || n != nil {
			issues = append(issues, what+".GetNode(absent key) returns a value / no error")
		}
	}
	var m meta.ReadOnly
	switch x := t.(type) {
	case *delegation.Token:
		m = x.Meta()
	case *invocation.Token:
		m = x.Meta()
		a := x.Arguments()
		check("Arguments", a.Iter(), a.GetNode)
		c := a.WriteableClone()
		if !a.Equals(c.ReadOnly()) {
			issues = append(issues, "Arguments.Equals(clone) = false")
		}
		if err := c.Add("\x00 extra \x00", 1); err == nil && a.Equals(c.ReadOnly()) {
			issues = append(issues, "Arguments.Equals(clone + one entry) = true")
		}
		// same number of entries, one value changed / one key renamed
		for variant := 0; variant < 2; variant++ {
			o := args.New()
			i := 0
			for k, n := range a.Iter() {
				switch {
				case i == 0 && variant == 0:
					_ = o.Add(k, "\x00 another value \x00")
				case i == 0 && variant == 1:
					_ = o.Add(k+"\x00renamed", n)
				default:
					_ = o.Add(k, n)
				}
				i++
			}
			if i > 0 && a.Equals(o.ReadOnly()) {
				issues = append(issues, []string{"Arguments.Equals(copy with one value changed) = true", "Arguments.Equals(copy with one key renamed) = true"}[variant])
			}
		}
	default:
		return nil
	}
	check("Meta", m.Iter(), m.GetNode)
	for k, n := range m.Iter() {
		switch n.Kind() {
		case datamodel.Kind_Bool:
			want, _ := n.AsBool()
			if got, err := m.GetBool(k); err != nil || got != want {
				issues = append(issues, fmt.Sprintf("Meta.GetBool(%q) = %v, %v", k, got, err))
			}
		case datamodel.Kind_String:
			want, _ := n.AsString()
			if got, err := m.GetString(k); err != nil || got != want {
				issues = append(issues, fmt.Sprintf("Meta.GetString(%q): err=%v", k, err))
			}
		case datamodel.Kind_Int:
			if want, err := n.AsInt(); err == nil {
				if got, err := m.GetInt64(k); err != nil || got != want {
					issues = append(issues, fmt.Sprintf("Meta.GetInt64(%q) = %v, %v", k, got, err))
				}
			}
		case datamodel.Kind_Float:
			want, _ := n.AsFloat()
			if got, err := m.GetFloat64(k); err != nil || (got != want && !(got != got && want != want)) {
				issues = append(issues, fmt.Sprintf("Meta.GetFloat64(%q) = %v, %v", k, got, err))
			}
		case datamodel.Kind_Bytes:
			want, _ := n.AsBytes()
			if got, err := m.GetBytes(k); err != nil || !bytes.Equal(got, want) {
				issues = append(issues, fmt.Sprintf("Meta.GetBytes(%q): err=%v", k, err))
			}
		}
	}
	for _, miss := range []func(string) error{
		func(k string) error { _, err := m.GetBool(k); return err },
		func(k string) error { _, err := m.GetString(k); return err },
		func(k string) error { _, err := m.GetInt64(k); return err },
		func(k string) error { _, err := m.GetFloat64(k); return err },
		func(k string) error { _, err := m.GetBytes(k); return err },
	} {
		if miss("\x00 no such key \x00") == nil {
			issues = append(issues, "a typed Meta getter reports no error for an absent key")
			break
		}
	}
	mc := m.WriteableClone()
	if !m.Equals(mc.ReadOnly()) {
		issues = append(issues, "Meta.Equals(clone) = false")
	}
	if err := mc.Add("\x00 extra \x00", 1); err == nil && m.Equals(mc.ReadOnly()) {
		issues = append(issues, "Meta.Equals(clone + one entry) = true")
	}
	for variant := 0; variant < 2; variant++ {
		o := meta.NewMeta()
		i := 0
		for k, n := range m.Iter() {
			switch {
			case i == 0 && variant == 0:
				_ = o.Add(k, "\x00 another value \x00")
			case i == 0 && variant == 1:
				_ = o.Add(k+"\x00renamed", n)
			default:
				_ = o.Add(k, n)
			}
			i++
		}
		if i > 0 && m.Equals(o.ReadOnly()) {
			issues = append(issues, []string{"Meta.Equals(copy with one value changed) = true", "Meta.Equals(copy with one key renamed) = true"}[variant])
		}
	}
	return issues
}
